//! Part 2 — exit status truthfulness over every sub-command family.

use crate::damage::Damage;
use crate::fixtures;
use crate::oracle::{self, Entry, Verdict};
use crate::sandbox::{RunOut, Sandbox};
use serde::{Deserialize, Serialize};
use serde_json::{Value, json};
use vcheck::engine::{Check, Fail};

#[derive(Clone, Debug)]
pub struct Template {
    pub family: &'static str,
    pub sub: &'static str,
    pub variant: &'static str,
    /// ids of valid base inputs (fixtures::base)
    pub bases: Vec<&'static str>,
    /// sandbox-relative path of the (possibly damaged) primary input; None = no input file
    pub input: Option<&'static str>,
    /// always-valid auxiliary files: (relative path, base id)
    pub aux: Vec<(&'static str, &'static str)>,
    pub args: Vec<&'static str>,
    /// library call sequence the sub-command performs on `entry_on`
    pub entry: Option<Entry>,
    /// file the entry is evaluated on (defaults to `input`)
    pub entry_on: Option<&'static str>,
    /// output the command must have produced when it exits 0: (relative path, how the library reads it)
    pub out: Option<(&'static str, Entry)>,
    /// the command is a stub that always bails on the pinned tree
    pub always_fails: bool,
    /// the library rejects even the undamaged input (e.g. a schema that does not fit): the
    /// command is never expected to exit 0
    pub never_ok: bool,
}

impl Template {
    pub fn key(&self) -> String {
        format!("{}:{}:{}", self.family, self.sub, self.variant)
    }
    pub fn cmd(&self) -> String {
        format!("{}:{}", self.family, self.sub)
    }
}

fn t(family: &'static str, sub: &'static str, variant: &'static str, bases: &[&'static str], input: &'static str, args: &[&'static str], entry: Option<Entry>) -> Template {
    Template {
        family,
        sub,
        variant,
        bases: bases.to_vec(),
        input: Some(input),
        aux: vec![],
        args: args.to_vec(),
        entry,
        entry_on: None,
        out: None,
        always_fails: false,
        never_ok: false,
    }
}

impl Template {
    fn never_ok(mut self) -> Self {
        self.never_ok = true;
        self
    }
    fn out(mut self, path: &'static str, e: Entry) -> Self {
        self.out = Some((path, e));
        self
    }
    fn aux(mut self, path: &'static str, id: &'static str) -> Self {
        self.aux.push((path, id));
        self
    }
    fn on(mut self, path: &'static str) -> Self {
        self.entry_on = Some(path);
        self
    }
    fn stub(mut self) -> Self {
        self.always_fails = true;
        self
    }
}

const MPQS: [&str; 5] = ["mpq:v1", "mpq:v2", "mpq:v3", "mpq:v4", "mpq:v1-nolist"];
const DBCS: [&str; 3] = ["dbc:five", "dbc:one", "dbc:empty"];
const BLPS: [&str; 6] = [
    "blp:test_simple_without_alpha.blp",
    "blp:test_rect_with_alpha.blp",
    "blp:test_rect_without_alpha.blp",
    "blp:test_simple_jpg.blp",
    "blp:test_simple_with_alpha.blp",
    "blp:raw3",
];
/// textures `blp validate` has something to say about: DXT with sides that are not multiples
/// of 4 (an error), not powers of two (a warning, an error with --strict), or both at once
const BLPS_V: [&str; 11] = [
    "blp:test_simple_without_alpha.blp",
    "blp:test_rect_with_alpha.blp",
    "blp:test_rect_without_alpha.blp",
    "blp:test_simple_jpg.blp",
    "blp:test_simple_with_alpha.blp",
    "blp:raw3",
    "blp:dxt1:6x6",
    "blp:dxt1:2x2",
    "blp:dxt5:12x20:mips",
    "blp:dxt3:5x8",
    "blp:dxt1:24x12",
];
const PNGS: [&str; 3] = ["png:small", "png:rgba8", "png:rgb16"];
const M2S: [&str; 4] = ["m2:vanilla", "m2:tbc", "m2:wotlk", "m2:cata"];
const SKINS: [&str; 2] = ["skin:old", "skin:new"];
const ANIMS: [&str; 2] = ["anim:modern", "anim:legacy"];
const WMOS: [&str; 4] = ["wmo:root-wotlk", "wmo:root-mop", "wmo:root-classic", "wmo:group"];
const WMO_ROOTS: [&str; 3] = ["wmo:root-wotlk", "wmo:root-mop", "wmo:root-classic"];
const ADTS: [&str; 3] = ["adt:vanilla-early", "adt:vanilla-late", "adt:wotlk"];
const WDTS: [&str; 3] = ["wdt:terrain-wotlk", "wdt:wmo-wotlk", "wdt:terrain-cata"];
const WDLS: [&str; 3] = ["wdl:wotlk", "wdl:vanilla", "wdl:legion"];

pub fn templates() -> Vec<Template> {
    let a = "in/a.mpq";
    let s = |x: &str| x.to_string();
    let mut v = vec![
        // ---- mpq
        t("mpq", "info", "plain", &MPQS, a, &["mpq", "info", a], Some(Entry::MpqInfo)),
        t("mpq", "info", "tables", &MPQS, a, &["mpq", "info", a, "--show-hash-table", "--show-block-table"], Some(Entry::MpqInfo)),
        t("mpq", "info", "file", &MPQS, a, &["mpq", "info", a, "readme.txt"], Some(Entry::MpqOpen)),
        t("mpq", "validate", "plain", &MPQS, a, &["mpq", "validate", a], Some(Entry::MpqValidate)),
        t("mpq", "validate", "threads", &MPQS, a, &["mpq", "validate", a, "--threads", "2", "--check-checksums"], Some(Entry::MpqValidate)),
        t("mpq", "list", "plain", &MPQS, a, &["mpq", "list", a], Some(Entry::MpqList)),
        t("mpq", "list", "long", &MPQS, a, &["mpq", "list", a, "-l", "-f", "*.txt"], Some(Entry::MpqList)),
        t("mpq", "extract", "all", &MPQS, a, &["mpq", "extract", a, "-o", "out/x"], Some(Entry::MpqReadAll)),
        t("mpq", "extract", "all-skip", &MPQS, a, &["mpq", "extract", a, "-o", "out/x", "--skip-errors", "--threads", "2"], Some(Entry::MpqReadAll)),
        t("mpq", "extract", "named", &MPQS, a, &["mpq", "extract", a, "-o", "out/x", "-p", "readme.txt", "Data\\blob.bin"], Some(Entry::MpqRead { names: vec![s("readme.txt"), s("Data\\blob.bin")] })),
        t("mpq", "extract", "patch-present", &MPQS, a, &["mpq", "extract", "in/b.mpq", "-o", "out/x", "--patch", a, "readme.txt", "Data\\blob.bin"], Some(Entry::MpqChainRead { others: vec![s(a)], names: vec![s("readme.txt"), s("Data\\blob.bin")] }))
            .aux("in/b.mpq", "mpq:v2")
            .on("in/b.mpq"),
        t("mpq", "extract", "patch-missing", &MPQS, a, &["mpq", "extract", "in/b.mpq", "-o", "out/x", "--patch", a, "readme.txt", "no_such_file.xyz"], Some(Entry::MpqChainRead { others: vec![s(a)], names: vec![s("readme.txt"), s("no_such_file.xyz")] }))
            .aux("in/b.mpq", "mpq:v2")
            .on("in/b.mpq")
            .never_ok(),
        t("mpq", "extract", "named-missing", &MPQS, a, &["mpq", "extract", a, "-o", "out/x", "readme.txt", "no_such_file.xyz"], Some(Entry::MpqRead { names: vec![s("readme.txt"), s("no_such_file.xyz")] })).never_ok(),
        t("mpq", "create", "plain", &PNGS, "in/payload.bin", &["mpq", "create", "out/new.mpq", "-a", "in/payload.bin", "-a", "in/second.txt", "--version", "v2", "-c", "zlib"], None)
            .aux("in/second.txt", "dbd:text")
            .out("out/new.mpq", Entry::MpqList),
        t("mpq", "create", "v4-lzma", &PNGS, "in/payload.bin", &["mpq", "create", "out/new.mpq", "-a", "in/payload.bin", "--version", "v4", "-c", "lzma", "--with-listfile"], None).out("out/new.mpq", Entry::MpqList),
        t("mpq", "rebuild", "plain", &MPQS, a, &["mpq", "rebuild", a, "out/rb.mpq"], Some(Entry::MpqRebuild { list_only: false })).out("out/rb.mpq", Entry::MpqList),
        t("mpq", "rebuild", "list-only", &MPQS, a, &["mpq", "rebuild", a, "out/rb.mpq", "--list-only"], Some(Entry::MpqRebuild { list_only: true })),
        t("mpq", "compare", "source", &MPQS, a, &["mpq", "compare", a, "in/b.mpq"], Some(Entry::MpqCompare { other: s("in/b.mpq") })).aux("in/b.mpq", "mpq:v2"),
        t("mpq", "compare", "target", &MPQS, a, &["mpq", "compare", "in/b.mpq", a, "--output", "summary", "--content-check"], Some(Entry::MpqCompare { other: s(a) }))
            .aux("in/b.mpq", "mpq:v2")
            .on("in/b.mpq"),
        t("mpq", "tree", "plain", &MPQS, a, &["mpq", "tree", a, "--no-color"], Some(Entry::MpqTree)),
        t("mpq", "debug", "all", &MPQS, a, &["mpq", "debug", a, "--all"], Some(Entry::MpqInfo)),
        t("mpq", "debug", "find", &MPQS, a, &["mpq", "debug", a, "--find", "readme.txt"], Some(Entry::MpqInfo)),
        t("mpq", "patch-chain", "base", &MPQS, a, &["mpq", "patch-chain", a, "-d"], Some(Entry::MpqChain { others: vec![] })),
        t("mpq", "patch-chain", "patch", &MPQS, a, &["mpq", "patch-chain", "in/b.mpq", "--patch", a], Some(Entry::MpqChain { others: vec![s(a)] }))
            .aux("in/b.mpq", "mpq:v2")
            .on("in/b.mpq"),
        t("mpq", "create", "nodir", &PNGS, "in/payload.bin", &["mpq", "create", "out/nodir/new.mpq", "-a", "in/payload.bin"], None).out("out/nodir/new.mpq", Entry::MpqList).never_ok(),
        t("mpq", "rebuild", "nodir", &MPQS, a, &["mpq", "rebuild", a, "out/nodir/rb.mpq"], Some(Entry::MpqOpen)).out("out/nodir/rb.mpq", Entry::MpqList).never_ok(),
        // ---- dbc
        t("dbc", "info", "plain", &DBCS, "in/Test.dbc", &["dbc", "info", "in/Test.dbc"], Some(Entry::DbcRecords)),
        t("dbc", "validate", "schema", &DBCS, "in/Test.dbc", &["dbc", "validate", "in/Test.dbc", "-s", "in/schema.yaml"], Some(Entry::DbcSchema { wrong: false })).aux("in/schema.yaml", "yaml:dbc-schema"),
        t("dbc", "validate", "wrong-schema", &DBCS, "in/Test.dbc", &["dbc", "validate", "in/Test.dbc", "-s", "in/wrong.yaml"], Some(Entry::DbcSchema { wrong: true })).aux("in/wrong.yaml", "yaml:dbc-wrong").never_ok(),
        t("dbc", "list", "plain", &DBCS, "in/Test.dbc", &["dbc", "list", "in/Test.dbc", "-l", "3"], Some(Entry::DbcRecords)),
        t("dbc", "list", "schema", &DBCS, "in/Test.dbc", &["dbc", "list", "in/Test.dbc", "-s", "in/schema.yaml"], Some(Entry::DbcSchema { wrong: false })).aux("in/schema.yaml", "yaml:dbc-schema"),
        t("dbc", "export", "json", &DBCS, "in/Test.dbc", &["dbc", "export", "in/Test.dbc", "-s", "in/schema.yaml", "-f", "json", "-o", "out/t.json"], Some(Entry::DbcSchema { wrong: false }))
            .aux("in/schema.yaml", "yaml:dbc-schema")
            .out("out/t.json", Entry::Json),
        t("dbc", "export", "csv", &DBCS, "in/Test.dbc", &["dbc", "export", "in/Test.dbc", "-s", "in/schema.yaml", "-f", "csv", "-o", "out/t.csv"], Some(Entry::DbcSchema { wrong: false }))
            .aux("in/schema.yaml", "yaml:dbc-schema")
            .out("out/t.csv", Entry::Text),
        t("dbc", "export", "nodir", &DBCS, "in/Test.dbc", &["dbc", "export", "in/Test.dbc", "-s", "in/schema.yaml", "-o", "out/nodir/t.json"], Some(Entry::DbcSchema { wrong: false }))
            .aux("in/schema.yaml", "yaml:dbc-schema")
            .out("out/nodir/t.json", Entry::Json)
            .never_ok(),
        t("dbc", "export", "stdout", &DBCS, "in/Test.dbc", &["dbc", "export", "in/Test.dbc", "-s", "in/schema.yaml"], Some(Entry::DbcSchema { wrong: false })).aux("in/schema.yaml", "yaml:dbc-schema"),
        t("dbc", "analyze", "plain", &DBCS, "in/Test.dbc", &["dbc", "analyze", "in/Test.dbc"], Some(Entry::DbcRecords)),
        t("dbc", "analyze", "schema", &DBCS, "in/Test.dbc", &["dbc", "analyze", "in/Test.dbc", "-s", "in/schema.yaml", "--cache-strings", "--sorted-keys"], Some(Entry::DbcSchema { wrong: false })).aux("in/schema.yaml", "yaml:dbc-schema"),
        t("dbc", "analyze", "mmap", &DBCS, "in/Test.dbc", &["dbc", "analyze", "in/Test.dbc", "--mmap"], Some(Entry::DbcRecords)).stub(),
        t("dbc", "discover", "plain", &DBCS, "in/Test.dbc", &["dbc", "discover", "in/Test.dbc"], Some(Entry::DbcRecords)),
        t("dbc", "discover", "output", &DBCS, "in/Test.dbc", &["dbc", "discover", "in/Test.dbc", "-m", "0", "-o", "out/schema.txt"], Some(Entry::DbcRecords)).out("out/schema.txt", Entry::Text),
        // ---- dbd
        t("dbd", "convert", "all", &["dbd:text"], "in/Test.dbd", &["dbd", "convert", "in/Test.dbd", "-o", "out/schemas", "--all"], None).out("out/schemas", Entry::YamlDir),
        t("dbd", "convert", "version", &["dbd:text"], "in/Test.dbd", &["dbd", "convert", "in/Test.dbd", "-o", "out/schemas", "--version", "3.3.5"], None).out("out/schemas", Entry::YamlDir),
        // ---- blp
        t("blp", "info", "all", &BLPS, "in/tex.blp", &["blp", "info", "in/tex.blp", "--all", "--raw", "--best-mipmap-for", "16"], Some(Entry::BlpLoad)),
        t("blp", "validate", "plain", &BLPS_V, "in/tex.blp", &["blp", "validate", "in/tex.blp"], Some(Entry::BlpLoad)),
        t("blp", "validate", "strict", &BLPS_V, "in/tex.blp", &["blp", "validate", "in/tex.blp", "--strict"], Some(Entry::BlpLoad)),
        t("blp", "convert", "to-png", &BLPS, "in/tex.blp", &["blp", "convert", "in/tex.blp", "out/tex.png"], Some(Entry::BlpToImage { level: 0 })).out("out/tex.png", Entry::ImageDecode),
        t("blp", "convert", "to-blp2-raw3", &PNGS, "in/img.png", &["blp", "convert", "in/img.png", "out/img.blp", "--blp-version", "blp2", "--blp-format", "raw3"], Some(Entry::ImageDecode)).out("out/img.blp", Entry::BlpLoad),
        t("blp", "convert", "to-blp1-jpeg", &PNGS, "in/img.png", &["blp", "convert", "in/img.png", "out/img.blp"], Some(Entry::ImageDecode)).out("out/img.blp", Entry::BlpLoad),
        t("blp", "convert", "to-blp2-dxt1", &PNGS, "in/img.png", &["blp", "convert", "in/img.png", "out/img.blp", "--blp-version", "blp2", "--blp-format", "dxt1", "--dxt-compression", "fastest"], Some(Entry::ImageDecode)).out("out/img.blp", Entry::BlpLoad),
        t("blp", "convert", "nodir", &BLPS, "in/tex.blp", &["blp", "convert", "in/tex.blp", "out/nodir/tex.png"], Some(Entry::BlpToImage { level: 0 })).out("out/nodir/tex.png", Entry::ImageDecode).never_ok(),
        t("blp", "convert", "nodir-blp", &PNGS, "in/img.png", &["blp", "convert", "in/img.png", "out/nodir/img.blp", "--blp-version", "blp2", "--blp-format", "raw3"], Some(Entry::ImageDecode)).out("out/nodir/img.blp", Entry::BlpLoad).never_ok(),
        // ---- m2
        t("m2", "validate", "no-vertices", &["m2:no-vertices"], "in/model.m2", &["m2", "validate", "in/model.m2"], Some(Entry::M2Validate)).never_ok(),
        t("m2", "validate", "no-vertices-warnings", &["m2:no-vertices"], "in/model.m2", &["m2", "validate", "in/model.m2", "-w"], Some(Entry::M2Validate)).never_ok(),
        t("m2", "convert", "nodir", &M2S, "in/model.m2", &["m2", "convert", "in/model.m2", "out/nodir/conv.m2", "--version", "wotlk"], Some(Entry::M2Convert { version: s("wotlk") })).out("out/nodir/conv.m2", Entry::M2Load).never_ok(),
        t("m2", "skin-convert", "nodir", &SKINS, "in/model00.skin", &["m2", "skin-convert", "in/model00.skin", "out/nodir/conv.skin", "--version", "cata"], Some(Entry::SkinConvert { version: s("cata") })).out("out/nodir/conv.skin", Entry::SkinLoad).never_ok(),
        t("m2", "anim-convert", "nodir", &ANIMS, "in/a.anim", &["m2", "anim-convert", "in/a.anim", "out/nodir/conv.anim", "--version", "wotlk"], Some(Entry::AnimLoad)).out("out/nodir/conv.anim", Entry::AnimLoad).never_ok(),
        t("m2", "info", "detailed", &M2S, "in/model.m2", &["m2", "info", "in/model.m2", "-d"], Some(Entry::M2Load)),
        t("m2", "validate", "plain", &M2S, "in/model.m2", &["m2", "validate", "in/model.m2", "-w"], Some(Entry::M2Validate)),
        t("m2", "convert", "to-wotlk", &M2S, "in/model.m2", &["m2", "convert", "in/model.m2", "out/conv.m2", "--version", "wotlk"], Some(Entry::M2Convert { version: s("wotlk") })).out("out/conv.m2", Entry::M2Load),
        t("m2", "convert", "to-tbc", &M2S, "in/model.m2", &["m2", "convert", "in/model.m2", "out/conv.m2", "--version", "tbc"], Some(Entry::M2Convert { version: s("tbc") })).out("out/conv.m2", Entry::M2Load),
        t("m2", "tree", "plain", &M2S, "in/model.m2", &["m2", "tree", "in/model.m2", "-s", "-r"], Some(Entry::M2Load)),
        t("m2", "skin-info", "auto", &SKINS, "in/model00.skin", &["m2", "skin-info", "in/model00.skin", "-d"], Some(Entry::SkinLoad)),
        t("m2", "skin-info", "old", &["skin:old"], "in/model00.skin", &["m2", "skin-info", "in/model00.skin", "--old-format"], Some(Entry::SkinLoadOld)),
        t("m2", "skin-convert", "to-cata", &SKINS, "in/model00.skin", &["m2", "skin-convert", "in/model00.skin", "out/conv.skin", "--version", "cata"], Some(Entry::SkinConvert { version: s("cata") })).out("out/conv.skin", Entry::SkinLoad),
        t("m2", "skin-convert", "to-wotlk", &SKINS, "in/model00.skin", &["m2", "skin-convert", "in/model00.skin", "out/conv.skin", "--version", "wotlk"], Some(Entry::SkinConvert { version: s("wotlk") })).out("out/conv.skin", Entry::SkinLoad),
        t("m2", "anim-info", "detailed", &ANIMS, "in/a.anim", &["m2", "anim-info", "in/a.anim", "-d"], Some(Entry::AnimLoad)),
        t("m2", "anim-convert", "to-wotlk", &ANIMS, "in/a.anim", &["m2", "anim-convert", "in/a.anim", "out/conv.anim", "--version", "wotlk"], Some(Entry::AnimLoad)).out("out/conv.anim", Entry::AnimLoad),
        t("m2", "anim-convert", "to-legion", &ANIMS, "in/a.anim", &["m2", "anim-convert", "in/a.anim", "out/conv.anim", "--version", "legion"], Some(Entry::AnimLoad)).out("out/conv.anim", Entry::AnimLoad),
        t("m2", "blp-info", "plain", &BLPS, "in/tex.blp", &["m2", "blp-info", "in/tex.blp", "-d"], Some(Entry::BlpLoad)),
        // ---- wmo
        t("wmo", "info", "detailed", &WMOS, "in/obj.wmo", &["wmo", "info", "in/obj.wmo", "-d"], Some(Entry::WmoMeta)),
        t("wmo", "validate", "plain", &WMOS, "in/obj.wmo", &["wmo", "validate", "in/obj.wmo", "-w", "-d"], Some(Entry::WmoMeta)),
        t("wmo", "convert", "to-cata", &WMO_ROOTS, "in/obj.wmo", &["wmo", "convert", "in/obj.wmo", "out/conv.wmo", "--version", "cata"], Some(Entry::WmoConvert { version: s("cata") })).out("out/conv.wmo", Entry::WmoRootLegacy),
        t("wmo", "convert", "nodir", &WMO_ROOTS, "in/obj.wmo", &["wmo", "convert", "in/obj.wmo", "out/nodir/conv.wmo", "--version", "cata"], Some(Entry::WmoConvert { version: s("cata") })).out("out/nodir/conv.wmo", Entry::WmoRootLegacy).never_ok(),
        t("wmo", "convert", "group", &["wmo:group"], "in/obj.wmo", &["wmo", "convert", "in/obj.wmo", "out/conv.wmo", "--version", "wotlk"], Some(Entry::WmoConvert { version: s("wotlk") })).out("out/conv.wmo", Entry::WmoRootLegacy).stub(),
        t("wmo", "export", "plain", &WMOS, "in/obj.wmo", &["wmo", "export", "in/obj.wmo", "-o", "out/exp"], Some(Entry::WmoMeta)).stub(),
        t("wmo", "list", "plain", &WMOS, "in/obj.wmo", &["wmo", "list", "in/obj.wmo"], Some(Entry::WmoMeta)).stub(),
        t("wmo", "extract-groups", "plain", &WMOS, "in/obj.wmo", &["wmo", "extract-groups", "in/obj.wmo", "-o", "out/groups"], Some(Entry::WmoMeta)).stub(),
        t("wmo", "tree", "plain", &WMOS, "in/obj.wmo", &["wmo", "tree", "in/obj.wmo", "--no-color", "--detailed"], Some(Entry::WmoMeta)),
        // ---- adt
        t("adt", "info", "detailed", &ADTS, "in/tile.adt", &["adt", "info", "in/tile.adt", "-d"], Some(Entry::AdtMeta)),
        t("adt", "validate", "plain", &ADTS, "in/tile.adt", &["adt", "validate", "in/tile.adt", "-w", "-l", "strict"], Some(Entry::AdtMeta)),
        t("adt", "convert", "to-wotlk", &ADTS, "in/tile.adt", &["adt", "convert", "in/tile.adt", "out/conv.adt", "--to", "wotlk"], Some(Entry::AdtRoot)).out("out/conv.adt", Entry::AdtMeta),
        t("adt", "convert", "to-classic", &ADTS, "in/tile.adt", &["adt", "convert", "in/tile.adt", "out/conv.adt", "-t", "classic"], Some(Entry::AdtRoot)).out("out/conv.adt", Entry::AdtMeta),
        t("adt", "convert", "nodir", &ADTS, "in/tile.adt", &["adt", "convert", "in/tile.adt", "out/nodir/conv.adt", "--to", "wotlk"], Some(Entry::AdtRoot)).out("out/nodir/conv.adt", Entry::AdtMeta).never_ok(),
        t("adt", "tree", "plain", &ADTS, "in/tile.adt", &["adt", "tree", "in/tile.adt", "--no-color", "--show-refs"], Some(Entry::AdtMeta)),
        // ---- wdt
        t("wdt", "info", "detailed", &WDTS, "in/map.wdt", &["wdt", "info", "in/map.wdt", "-d"], Some(Entry::WdtRead { version: s("WotLK") })),
        t("wdt", "validate", "plain", &WDTS, "in/map.wdt", &["wdt", "validate", "in/map.wdt", "-w"], Some(Entry::WdtRead { version: s("WotLK") })),
        t("wdt", "validate", "cata", &WDTS, "in/map.wdt", &["wdt", "validate", "in/map.wdt", "--version", "Cataclysm"], Some(Entry::WdtRead { version: s("Cataclysm") })),
        t("wdt", "convert", "wotlk-cata", &WDTS, "in/map.wdt", &["wdt", "convert", "in/map.wdt", "out/conv.wdt", "-f", "WotLK", "-t", "Cataclysm"], Some(Entry::WdtConvert { from: s("WotLK"), to: s("Cataclysm") })).out("out/conv.wdt", Entry::WdtRead { version: s("Cataclysm") }),
        t("wdt", "convert", "cata-wotlk", &WDTS, "in/map.wdt", &["wdt", "convert", "in/map.wdt", "out/conv.wdt", "-f", "Cataclysm", "-t", "3.3.5a"], Some(Entry::WdtConvert { from: s("Cataclysm"), to: s("3.3.5a") })).out("out/conv.wdt", Entry::WdtRead { version: s("WotLK") }),
        t("wdt", "convert", "wotlk-tbc", &WDTS, "in/map.wdt", &["wdt", "convert", "in/map.wdt", "out/conv.wdt", "-f", "WotLK", "-t", "TBC"], Some(Entry::WdtConvert { from: s("WotLK"), to: s("TBC") })).out("out/conv.wdt", Entry::WdtRead { version: s("TBC") }),
        t("wdt", "convert", "same-version", &WDTS, "in/map.wdt", &["wdt", "convert", "in/map.wdt", "out/conv.wdt", "-f", "WotLK", "-t", "WotLK"], Some(Entry::WdtConvert { from: s("WotLK"), to: s("WotLK") })).out("out/conv.wdt", Entry::WdtRead { version: s("WotLK") }),
        t("wdt", "convert", "nodir", &WDTS, "in/map.wdt", &["wdt", "convert", "in/map.wdt", "out/nodir/conv.wdt", "-f", "WotLK", "-t", "Cataclysm"], Some(Entry::WdtConvert { from: s("WotLK"), to: s("Cataclysm") })).out("out/nodir/conv.wdt", Entry::WdtRead { version: s("Cataclysm") }).never_ok(),
        t("wdt", "convert", "preview", &WDTS, "in/map.wdt", &["wdt", "convert", "in/map.wdt", "out/conv.wdt", "-f", "WotLK", "-t", "Cataclysm", "-p"], Some(Entry::WdtConvert { from: s("WotLK"), to: s("Cataclysm") })),
        t("wdt", "tiles", "csv", &WDTS, "in/map.wdt", &["wdt", "tiles", "in/map.wdt", "-f", "csv"], Some(Entry::WdtRead { version: s("WotLK") })),
        t("wdt", "tiles", "json", &WDTS, "in/map.wdt", &["wdt", "tiles", "in/map.wdt", "-f", "json"], Some(Entry::WdtRead { version: s("WotLK") })),
        t("wdt", "tree", "plain", &WDTS, "in/map.wdt", &["wdt", "tree", "in/map.wdt", "--no-color", "--compact"], Some(Entry::WdtRead { version: s("WotLK") })),
        // ---- wdl
        t("wdl", "info", "plain", &WDLS, "in/map.wdl", &["wdl", "info", "in/map.wdl"], Some(Entry::WdlParse { version: None })),
        t("wdl", "validate", "auto", &WDLS, "in/map.wdl", &["wdl", "validate", "in/map.wdl"], Some(Entry::WdlValidate { version: None })),
        t("wdl", "validate", "wotlk", &WDLS, "in/map.wdl", &["wdl", "validate", "in/map.wdl", "--version", "WotLK"], Some(Entry::WdlValidate { version: Some(s("wotlk")) })),
        t("wdl", "convert", "to-legion", &WDLS, "in/map.wdl", &["wdl", "convert", "in/map.wdl", "out/conv.wdl", "--to", "Legion"], Some(Entry::WdlConvert { from: None, to: s("legion") })).out("out/conv.wdl", Entry::WdlParse { version: None }),
        t("wdl", "convert", "to-vanilla", &WDLS, "in/map.wdl", &["wdl", "convert", "in/map.wdl", "out/conv.wdl", "--from", "WotLK", "-t", "classic"], Some(Entry::WdlConvert { from: Some(s("wotlk")), to: s("classic") })).out("out/conv.wdl", Entry::WdlParse { version: None }),
        t("wdl", "convert", "nodir", &WDLS, "in/map.wdl", &["wdl", "convert", "in/map.wdl", "out/nodir/conv.wdl", "--to", "Legion"], Some(Entry::WdlConvert { from: None, to: s("legion") })).out("out/nodir/conv.wdl", Entry::WdlParse { version: None }).never_ok(),
        t("wdl", "tree", "plain", &WDLS, "in/map.wdl", &["wdl", "tree", "in/map.wdl", "--no-color"], Some(Entry::WdlParse { version: Some(s("wotlk")) })),
    ];
    // ---- completions (no input file)
    v.push(Template {
        family: "completions",
        sub: "",
        variant: "bash",
        bases: vec!["none"],
        input: None,
        aux: vec![],
        args: vec!["completions", "bash"],
        entry: None,
        entry_on: None,
        out: None,
        always_fails: false,
        never_ok: false,
    });
    v
}

/// sub-commands deliberately not exercised, with the reason (shown in the evidence)
pub const EXCLUDED: [(&str, &str, &str); 1] = [("mpq", "db", "manages a per-user database under HOME, not an input file (DESIGN §4 C20)")];

#[derive(Clone, Debug, Serialize, Deserialize)]
pub struct StatusCase {
    /// template key family:sub:variant
    pub template: String,
    pub base: String,
    pub damage: Damage,
}

#[derive(Clone, Debug)]
pub struct Judged {
    pub class: String,
    pub nontrivial: bool,
    pub exit0: bool,
    pub lib: String,
    pub fails: Vec<Fail>,
    pub stale_stub: bool,
    pub observations: Vec<&'static str>,
}

fn resolve(entry: &Entry, sb: &Sandbox) -> Entry {
    let abs = |p: &String| sb.path(p).to_string_lossy().to_string();
    match entry {
        Entry::MpqCompare { other } => Entry::MpqCompare { other: abs(other) },
        Entry::MpqChain { others } => Entry::MpqChain { others: others.iter().map(abs).collect() },
        Entry::MpqChainRead { others, names } => Entry::MpqChainRead { others: others.iter().map(abs).collect(), names: names.clone() },
        e => e.clone(),
    }
}

fn detail(tp: &Template, case: &StatusCase, run: &RunOut) -> String {
    format!("`warcraft-rs {}` on {} ({}) → {}; {}", tp.args.join(" "), case.base, case.damage.kind(), run.status_str(), run.tail())
}

/// host path the extraction writes a given archive name to
pub fn extract_target(out_dir: &str, name: &str, preserve: bool) -> String {
    let sys = name.replace('\\', "/");
    if preserve {
        format!("{out_dir}/{sys}")
    } else {
        let base = sys.rsplit('/').next().unwrap_or(&sys).to_string();
        format!("{out_dir}/{base}")
    }
}

/// compare the files an extraction wrote with the library's digests
pub fn check_extracted(sb: &Sandbox, files: &Value, out_dir: &str, preserve: bool, only: Option<&[String]>) -> Result<usize, String> {
    let mut n = 0;
    let Some(m) = files.as_object() else { return Ok(0) };
    for (name, d) in m {
        if let Some(o) = only {
            if !o.contains(name) {
                continue;
            }
        }
        if d.get("err").is_some() {
            continue;
        }
        let rel = extract_target(out_dir, name, preserve);
        match sb.read(&rel) {
            None => return Err(format!("{name:?}: expected at {rel}, not written")),
            Some(b) => {
                let want_len = d["len"].as_u64().unwrap_or(u64::MAX);
                let want_h = d["h"].as_str().unwrap_or("");
                if b.len() as u64 != want_len || format!("{:016x}", vcheck::engine::fnv(&b)) != want_h {
                    return Err(format!("{name:?}: {rel} has {} bytes and differs from the library's read ({want_len} bytes)", b.len()));
                }
                n += 1;
            }
        }
    }
    Ok(n)
}

pub fn run_case(tp: &Template, case: &StatusCase) -> Result<Judged, String> {
    let sb = Sandbox::new();
    // inputs
    for (p, id) in &tp.aux {
        let b = fixtures::base(id)?;
        sb.write(p, &b);
    }
    if let Some(input) = tp.input {
        let b = fixtures::base(&case.base)?;
        if let Some(bytes) = case.damage.apply(&b) {
            sb.write(input, &bytes);
        }
    }
    let args: Vec<String> = tp.args.iter().map(|s| s.to_string()).collect();
    let run = sb.run(&args);
    let exit0 = run.ok();
    let cmd = tp.cmd();
    let mut fails = vec![];
    let mut stale_stub = false;
    let mut observations: Vec<&'static str> = vec![];

    // library view of the input
    let entry_path = tp.entry_on.or(tp.input);
    let lib: Option<Verdict> = match (&tp.entry, entry_path) {
        (Some(e), Some(p)) => {
            if matches!(case.damage, Damage::Missing) && tp.entry_on.is_none() {
                Some(Verdict::Rejects("file does not exist".into()))
            } else {
                Some(oracle::ask(&resolve(e, &sb), &sb.path(p)))
            }
        }
        _ => None,
    };
    let lib_s = match &lib {
        None => "n/a",
        Some(Verdict::Ok(_)) => "ok",
        Some(Verdict::Rejects(_)) => "err",
        Some(Verdict::Crashed(_)) => "crash",
    };

    if exit0 {
        if matches!(case.damage, Damage::Missing) && tp.input.is_some() {
            fails.push(Fail::new(format!("exit0-on-nonexistent-input:{cmd}"), detail(tp, case, &run)));
        }
        if tp.always_fails {
            stale_stub = true;
        }
        match &lib {
            Some(Verdict::Rejects(e)) if !matches!(case.damage, Damage::Missing) => {
                fails.push(Fail::new(
                    format!("exit0-on-rejected-input:{cmd}"),
                    format!("{} — but the library's own {:?} on the same bytes returns Err({})", detail(tp, case, &run), tp.entry.as_ref().unwrap(), vcheck::engine::truncate(e, 200)),
                ));
            }
            Some(Verdict::Crashed(h)) => {
                fails.push(Fail::new(format!("exit0-on-input-crashing-library:{cmd}"), format!("{} — the library's own {:?} on the same bytes died: {h}", detail(tp, case, &run), tp.entry.as_ref().unwrap())));
            }
            Some(Verdict::Ok(_)) if tp.entry_on.is_none() && matches!(case.damage, Damage::Empty | Damage::Garbage { keep: 0, .. }) => {
                // ground truth that needs no library: an empty file or pseudo-random bytes without any
                // magic are not a file of any of these formats, whatever the (lenient) parser says
                fails.push(Fail::new(
                    format!("exit0-on-garbage-input:{cmd}"),
                    format!("{} — the input is {} and the library's {:?} accepts it as well", detail(tp, case, &run), if matches!(case.damage, Damage::Empty) { "an empty file" } else { "pseudo-random bytes without a magic" }, tp.entry.as_ref().unwrap()),
                ));
            }
            Some(Verdict::Ok(info)) => {
                // validation / extraction completeness, judged with the library's per-file reads
                let errs = info["read_errors"].as_u64().unwrap_or(0);
                if tp.sub == "validate" && tp.family == "mpq" && errs > 0 {
                    fails.push(Fail::new(
                        "exit0-on-failed-validation:mpq:validate",
                        format!("{} — the library fails to read {errs} of the listed files: {}", detail(tp, case, &run), vcheck::engine::truncate(&info["files"].to_string(), 300)),
                    ));
                }
                if tp.sub == "extract" && tp.family == "mpq" {
                    let skip = tp.args.contains(&"--skip-errors");
                    let preserve = tp.args.contains(&"-p");
                    if errs > 0 && !skip {
                        fails.push(Fail::new(
                            "exit0-on-failed-extraction:mpq:extract",
                            format!("{} — the library fails to read {errs} of the requested files and --skip-errors was not given", detail(tp, case, &run)),
                        ));
                    }
                    if let Err(m) = check_extracted(&sb, &info["files"], "out/x", preserve, None) {
                        fails.push(Fail::new("exit0-with-incomplete-extraction:mpq:extract", format!("{} — {m}", detail(tp, case, &run))));
                    }
                }
            }
            _ => {}
        }
        if let Some((out, oe)) = &tp.out {
            // a conversion that the library itself calls a no-op may legitimately write nothing? No:
            // the statement says exit 0 ⇒ complete output. Only an explicit preview/dry-run is exempt
            // (those templates carry no `out`).
            if !sb.exists(out) {
                fails.push(Fail::new(format!("exit0-without-output:{cmd}"), format!("{} — {out} was not written", detail(tp, case, &run))));
            } else {
                match oracle::ask(oe, &sb.path(out)) {
                    Verdict::Ok(info) => {
                        if info["new_parser_ok"].as_bool() == Some(false) {
                            observations.push("wmo-convert-output-unreadable-by-parse_wmo_with_metadata");
                        }
                    }
                    Verdict::Rejects(e) if matches!(oe, Entry::YamlDir) => fails.push(Fail::new(format!("exit0-without-output:{cmd}"), format!("{} — {e}", detail(tp, case, &run)))),
                    v => fails.push(Fail::new(format!("exit0-with-unparseable-output:{cmd}"), format!("{} — the library's {:?} on {out}: {}", detail(tp, case, &run), oe, v.describe()))),
                }
            }
        }
        if tp.sub == "validate" {
            // the tool's own report: a validation that lists errors is a failed validation,
            // whatever else (warnings, notes) the same report contains
            let listed: Vec<&str> = run.stdout.lines().map(|l| l.trim()).filter(|l| l.starts_with('✗')).collect();
            if !listed.is_empty() {
                observations.push("validate-report-lists-errors");
                fails.push(Fail::new(
                    format!("exit0-on-failed-validation:{cmd}"),
                    format!("{} — its own report lists {} error line(s), e.g. {:?}", detail(tp, case, &run), listed.len(), listed[0]),
                ));
            }
        }
        if tp.family == "completions" && run.stdout.trim().is_empty() {
            fails.push(Fail::new("exit0-without-output:completions", detail(tp, case, &run)));
        }
    }

    let class = format!("status:{}:{}:lib-{}:exit{}", tp.key(), case.damage.kind(), lib_s, if exit0 { "0" } else { "nz" });
    let nontrivial = !matches!(case.damage, Damage::None) && matches!(lib, Some(Verdict::Rejects(_)) | Some(Verdict::Crashed(_)));
    Ok(Judged { class, nontrivial, exit0, lib: lib_s.to_string(), fails, stale_stub, observations })
}

pub static MATRIX: std::sync::Mutex<std::collections::BTreeMap<String, std::collections::BTreeMap<String, u64>>> = std::sync::Mutex::new(std::collections::BTreeMap::new());

pub fn case_json(c: &StatusCase) -> Value {
    json!({"part": "status", "case": c})
}

/// evaluate + bookkeeping; returns the first failure (for proptest) after reporting nothing itself
pub fn eval(check: &Check, tps: &[Template], case: &StatusCase) -> Result<Judged, Fail> {
    let Some(tp) = tps.iter().find(|t| t.key() == case.template) else {
        return Err(Fail::new("harness:unknown-template", case.template.clone()));
    };
    let j = run_case(tp, case).map_err(|e| Fail::new("harness:fixture-failed", format!("{}: {e}", case.base)))?;
    check.count(&j.class, j.nontrivial);
    if !vcheck::engine::pt::suppressed() {
        let mut m = MATRIX.lock().unwrap();
        *m.entry(tp.cmd()).or_default().entry(format!("{}:lib-{}:exit{}", case.damage.kind(), j.lib, if j.exit0 { "0" } else { "nz" })).or_insert(0) += 1;
    }
    for o in &j.observations {
        check.bump(&format!("observation:{o}"), 1);
    }
    if j.stale_stub {
        crate::inc(check, &format!("{} is marked as an unimplemented stub but exited 0: its template needs an output expectation", tp.key()));
    }
    if matches!(case.damage, Damage::None) {
        check.bump(&format!("valid:{}:{}", tp.key(), if j.exit0 { "exit0" } else { "nonzero" }), 1);
    }
    Ok(j)
}
