//! Part 1c — the *size of the file set* as a dimension of the create → extract round trip.
//!
//! Parts 1a/1b use 1–6 files per archive. The tool and the library treat long file lists
//! differently from short ones (`wow_mpq::single_archive_parallel::extract_with_config` switches
//! to batched extraction above 1000 names, `mpq extract` picks its batch size at 1000 and 5000
//! names, one archive handle per batch of 10 / 25 / n/(threads·4) names, hash tables grow in powers
//! of two), so "for any file set" has to be asked on both sides of those counts, with list
//! lengths that are and are not multiples of the batch sizes.
//!
//! A case is a handful of numbers; names and contents are rebuilt from them by `expand` (replay
//! needs no generator). Two origins: the tool's own `mpq create` (flat names, inputs are the
//! ground truth) and a library-built archive with directory names (the library's reads are the
//! reference, as in part 1b). Extraction: bulk, or m of the n names given on the command line
//! in a shuffled order, optionally mixed with names that are not in the archive.

use crate::oracle::{self, Entry, Verdict};
use crate::part1::{self, COMPRESSIONS};
use crate::part2::extract_target;
use crate::sandbox::Sandbox;
use proptest::prelude::*;
use serde::{Deserialize, Serialize};
use serde_json::json;
use vcheck::engine::{Check, Fail, Tier};
use vcheck::gens::mpq::{self as g, ALL_CLASSES};

#[derive(Clone, Debug, PartialEq, Eq, Serialize, Deserialize)]
pub struct ScaleCase {
    /// number of files in the set
    pub n: u32,
    pub seed: u32,
    /// 0: archive made by `mpq create` from n input files (flat names);
    /// 1: archive built in-process by wow_mpq::ArchiveBuilder, names below directories
    pub origin: u8,
    pub version: u8,
    /// 0 none, 1 zlib, 2 bzip2, 3 lzma
    pub compression: u8,
    /// origin 0 only (library-built archives always carry a listfile, as in part 1b)
    pub with_listfile: bool,
    pub threads: Option<u8>,
    pub preserve: bool,
    pub skip_errors: bool,
    /// None: bulk extraction (no names on the command line); Some(m): min(m, n) of the names,
    /// picked and ordered by a shuffle that `seed` determines
    pub named: Option<u32>,
    /// names that are not in the archive, spread over the explicit list (ignored for bulk)
    pub missing: u8,
    /// as ExtractOpts::prefill (what the output directory holds before the extraction)
    pub prefill: u8,
}

/// counters that must be non-zero at the end of a run (classes reached by the grid)
pub const MUST: [&str; 10] = [
    "scale:files:n<=1000",
    "scale:bulk:n>1000",
    "scale:bulk:n>5000",
    "scale:named:n>1000",
    "scale:named:n<=1000-of-n>1000",
    "scale:request-not-a-multiple-of-1000:n>1000",
    "scale:request-a-multiple-of-1000:n>1000",
    "scale:missing-noskip:n>1000",
    "scale:missing-skip:n>1000",
    "scale:library-built:n>1000",
];

pub fn count_class(n: usize) -> &'static str {
    match n {
        0..=10 => "n<=10",
        11..=100 => "n<=100",
        101..=1000 => "n<=1000",
        1001..=5000 => "n>1000",
        _ => "n>5000",
    }
}

fn round_class(m: usize) -> &'static str {
    if m % 1000 == 0 {
        "x1000"
    } else if m % 25 == 0 {
        "x25"
    } else if m % 10 == 0 {
        "x10"
    } else {
        "odd"
    }
}

fn splitmix(st: &mut u64) -> u64 {
    *st = st.wrapping_add(0x9E37_79B9_7F4A_7C15);
    let mut z = *st;
    z = (z ^ (z >> 30)).wrapping_mul(0xBF58_476D_1CE4_E5B9);
    z = (z ^ (z >> 27)).wrapping_mul(0x94D0_49BB_1331_11EB);
    z ^ (z >> 31)
}

pub struct Expanded {
    /// (archive name, content) in the order the files are added
    pub files: Vec<(String, Vec<u8>)>,
    /// names on the extract command line (empty = bulk), in order
    pub request: Vec<String>,
    /// the requested names that are not in the archive
    pub missing: Vec<String>,
}

/// the case's own deterministic builder (used by the run and by --replay alike)
pub fn expand(c: &ScaleCase) -> Expanded {
    let n = c.n as usize;
    let mut files = Vec::with_capacity(n);
    for i in 0..n {
        let mut st = ((c.seed as u64) << 32) ^ (i as u64).wrapping_mul(0x1_0000_01B3) ^ 0xC20;
        let h = splitmix(&mut st);
        let h2 = splitmix(&mut st);
        // mostly small files; a few empty ones, a few around one and two of the tool's 16 KiB sectors
        let len: usize = match h % 128 {
            0 | 1 => 0,
            2 => 16380 + (h2 % 11) as usize,
            3 => 32768 + (h2 % 400) as usize,
            4..=20 => 1 + (h2 % 5) as usize,
            _ => 6 + (h2 % 300) as usize,
        };
        let class = ALL_CLASSES[((h >> 8) % ALL_CLASSES.len() as u64) as usize];
        let mut data = g::materialize(class, len, (h2 >> 16) as u32);
        // every file carries its index: two files never have the same content (unless empty / tiny)
        let tag = format!("#{i}#");
        let k = tag.len().min(data.len());
        data[..k].copy_from_slice(&tag.as_bytes()[..k]);
        let stem = ["f", "Tex_", "map ", "A.b-", "UPPER", "x+y_"][((h >> 16) % 6) as usize];
        let ext = ["dat", "blp", "txt", "m2", "x", "tar.gz"][((h >> 24) % 6) as usize];
        let flat = format!("{stem}{i:05}.{ext}");
        let name = if c.origin == 0 || (h >> 32) % 9 == 0 {
            flat
        } else {
            let d1 = ["Interface", "World", "Sound", "DBFilesClient", "interface"][((h >> 36) % 5) as usize];
            if (h >> 40) % 4 == 0 { format!("{d1}\\{flat}") } else { format!("{d1}\\Sub{:02}\\{flat}", (i / 7) % 40) }
        };
        files.push((name, data));
    }
    let mut request = vec![];
    let mut missing = vec![];
    if let Some(m) = c.named {
        let m = (m as usize).min(n);
        let mut order: Vec<usize> = (0..n).collect();
        let mut st = ((c.seed as u64) << 20) ^ 0x5CA1E;
        for i in (1..n).rev() {
            let j = (splitmix(&mut st) % (i as u64 + 1)) as usize;
            order.swap(i, j);
        }
        request = order[..m].iter().map(|&i| files[i].0.clone()).collect();
        let k = c.missing as usize;
        for j in 0..k {
            // first, last, then evenly inside
            let name = format!("no_such_file_{j}.xyz");
            let at = match j {
                0 => request.len(),
                1 => 0,
                _ => request.len() * (j - 1) / k,
            };
            request.insert(at, name.clone());
            missing.push(name);
        }
    }
    Expanded { files, request, missing }
}

// ------------------------------------------------------------------------------------------
// generators

/// the counts where the tool or the library changes its way of working, each with its neighbours
const EDGES: [u32; 4] = [10, 25, 1000, 5000];

fn n_strategy(thorough: bool) -> BoxedStrategy<u32> {
    let top = if thorough { 12000u32 } else { 5200 };
    prop_oneof![
        2 => 7u32..=300,
        3 => 990u32..=1100,
        4 => 1001u32..=3300,
        1 => 4950u32..=top,
        2 => (0usize..EDGES.len(), 0u32..3, 1u32..=3).prop_map(|(e, d, k)| EDGES[e] * if e == 2 { k } else { 1 } + d),
    ]
    .boxed()
}

pub fn strategy(thorough: bool) -> impl Strategy<Value = ScaleCase> {
    (
        (n_strategy(thorough), any::<u32>(), 0u8..2, 1u8..=4, 0u8..4, any::<bool>()),
        prop_oneof![3 => Just(None), 1 => Just(Some(1u8)), 1 => Just(Some(2u8)), 1 => Just(Some(5u8))],
        any::<bool>(),
        prop_oneof![2 => Just(false), 1 => Just(true)],
        // bulk / every name / a share of the names (per mille)
        prop_oneof![3 => Just(None), 2 => Just(Some(1000u32)), 3 => (1u32..1000).prop_map(Some)],
        prop_oneof![3 => Just(0u8), 1 => 1u8..4],
        prop_oneof![4 => Just(0u8), 1 => 1u8..4],
    )
        .prop_map(|((n, seed, origin, version, compression, with_listfile), threads, preserve, skip_errors, share, missing, prefill)| {
            let named = share.map(|s| ((n as u64 * s as u64).div_ceil(1000) as u32).max(1));
            ScaleCase { n, seed, origin, version, compression, with_listfile, threads, preserve, skip_errors, named, missing: if named.is_some() { missing } else { 0 }, prefill }
        })
}

pub fn grid(tier: Tier) -> Vec<ScaleCase> {
    let base = ScaleCase { n: 0, seed: 1, origin: 0, version: 2, compression: 1, with_listfile: true, threads: None, preserve: false, skip_errors: false, named: None, missing: 0, prefill: 0 };
    let mut v = vec![
        // below every threshold but far beyond parts 1a/1b; not a multiple of the small batch size
        ScaleCase { n: 137, version: 1, compression: 2, ..base.clone() },
        ScaleCase { n: 250, origin: 1, named: Some(250), preserve: true, threads: Some(2), version: 4, ..base.clone() },
        // at / just above the library's batching threshold
        ScaleCase { n: 1000, version: 3, compression: 0, ..base.clone() },
        ScaleCase { n: 1001, named: Some(1001), with_listfile: false, ..base.clone() },
        // above it, a count that is no multiple of any batch size; bulk and named, both origins
        ScaleCase { n: 1300, version: 1, ..base.clone() },
        ScaleCase { n: 1300, origin: 1, preserve: true, threads: Some(2), version: 3, ..base.clone() },
        ScaleCase { n: 1337, named: Some(1337), threads: Some(5), skip_errors: true, compression: 3, ..base.clone() },
        // exact multiples
        ScaleCase { n: 2000, named: Some(2000), version: 4, ..base.clone() },
        ScaleCase { n: 3000, origin: 1, threads: Some(1), ..base.clone() },
        // a long archive, a short request; a long request that is a strict subset
        ScaleCase { n: 2049, named: Some(999), preserve: true, ..base.clone() },
        ScaleCase { n: 2500, named: Some(1777), prefill: 1, version: 1, ..base.clone() },
        // names that are not in the archive among more than 1000 names
        ScaleCase { n: 2049, named: Some(1200), missing: 1, ..base.clone() },
        ScaleCase { n: 2049, origin: 1, named: Some(1500), missing: 3, skip_errors: true, preserve: true, ..base.clone() },
        // stale files of the same length everywhere
        ScaleCase { n: 2501, prefill: 1, threads: Some(2), compression: 2, ..base.clone() },
        // above the second threshold
        ScaleCase { n: 5003, threads: Some(5), ..base.clone() },
        ScaleCase { n: 5003, origin: 1, named: Some(5003), preserve: true, version: 4, ..base.clone() },
    ];
    if tier == Tier::Thorough {
        let mut k = 0u32;
        for n in [9u32, 10, 11, 24, 25, 26, 99, 999, 1023, 1024, 1025, 1999, 2001, 2999, 3001, 4096, 4097, 4999, 5000, 5001, 7500, 10007, 16385, 20011] {
            for (origin, named) in [(0u8, None), (0, Some(n)), (1, None), (1, Some(n - n / 3))] {
                k += 1;
                v.push(ScaleCase {
                    n,
                    seed: 100 + k,
                    origin,
                    version: 1 + (k % 4) as u8,
                    compression: ((k / 4) % 4) as u8,
                    with_listfile: k % 5 != 0,
                    threads: [None, Some(1), Some(2), Some(5)][(k % 4) as usize],
                    preserve: k % 2 == 0,
                    skip_errors: k % 3 == 0,
                    named,
                    missing: if named.is_some() && k % 7 == 0 { 2 } else { 0 },
                    prefill: (k % 4) as u8,
                });
            }
        }
    }
    v
}

// ------------------------------------------------------------------------------------------
// the property

fn cmdline(args: &[String]) -> String {
    // command lines with thousands of names are not quoted in full
    let mut s = String::from("warcraft-rs");
    for (i, a) in args.iter().enumerate() {
        if i >= 14 {
            s.push_str(&format!(" … ({} arguments in all)", args.len()));
            break;
        }
        s.push(' ');
        s.push_str(a);
    }
    s
}

pub fn run(check: &Check, c: &ScaleCase) -> Result<(), Fail> {
    let ex = expand(c);
    let n = ex.files.len();
    let comp = COMPRESSIONS[(c.compression % 4) as usize];
    let ver = format!("v{}", c.version.clamp(1, 4));
    let origin = if c.origin == 0 { "tool" } else { "lib" };
    let bulk = c.named.is_none();
    // length of the list the extraction works on (bulk: every file of the archive)
    let m = if bulk { n } else { ex.request.len() };
    let (nc, mc) = (count_class(n), count_class(m));
    let class = format!(
        "scale:{origin}:{ver}:{comp}:lf{}:files:{nc}:{}:{mc}:{}:thr{}:pp{}:skip{}:missing{}:stale{}",
        (c.with_listfile || c.origin != 0) as u8,
        if bulk { "bulk" } else { "named" },
        round_class(m),
        c.threads.map(|t| t.to_string()).unwrap_or("-".into()),
        c.preserve as u8,
        c.skip_errors as u8,
        ex.missing.len().min(2),
        c.prefill
    );
    check.count(&class, n > 100);
    check.sample(&format!("scale:{origin}:{nc}:{}", if bulk { "bulk" } else { "named" }), || json!({"part": "scale", "case": c}));
    if n <= 1000 {
        check.bump("scale:files:n<=1000", 1);
    }
    if m > 1000 {
        check.bump(if bulk { "scale:bulk:n>1000" } else { "scale:named:n>1000" }, 1);
        check.bump(if m % 1000 == 0 { "scale:request-a-multiple-of-1000:n>1000" } else { "scale:request-not-a-multiple-of-1000:n>1000" }, 1);
        if !ex.missing.is_empty() {
            check.bump(if c.skip_errors { "scale:missing-skip:n>1000" } else { "scale:missing-noskip:n>1000" }, 1);
        }
        if c.origin != 0 {
            check.bump("scale:library-built:n>1000", 1);
        }
    } else if n > 1000 {
        check.bump("scale:named:n<=1000-of-n>1000", 1);
    }
    if m > 5000 && bulk {
        check.bump("scale:bulk:n>5000", 1);
    }

    let sb = Sandbox::new();
    // ---- the archive
    if c.origin == 0 {
        let mut args = crate::sandbox::sv(&["mpq", "create", "arch.mpq", "--version", &ver, "-c", comp]);
        if c.with_listfile {
            args.push("--with-listfile".into());
        }
        for (name, d) in &ex.files {
            sb.write(&format!("in/{name}"), d);
            args.push("-a".into());
            args.push(format!("in/{name}"));
        }
        let r = sb.run(&args);
        if !r.ok() {
            return Err(Fail::new(format!("roundtrip-create-failed:many-files:{ver}:{comp}"), format!("`{}` on {n} valid input files → {}; {}", cmdline(&args), r.status_str(), r.tail())));
        }
        if !sb.exists("arch.mpq") {
            return Err(Fail::new("exit0-without-output:mpq:create", format!("`{}` exited 0 but arch.mpq does not exist", cmdline(&args))));
        }
    } else {
        let files = ex.files.clone();
        let p = sb.path("arch.mpq");
        let fv = match c.version.clamp(1, 4) {
            1 => wow_mpq::FormatVersion::V1,
            2 => wow_mpq::FormatVersion::V2,
            3 => wow_mpq::FormatVersion::V3,
            _ => wow_mpq::FormatVersion::V4,
        };
        let flags = [0u8, g::M_ZLIB, g::M_BZIP2, g::M_LZMA][(c.compression % 4) as usize];
        let built = vcheck::engine::guard("ArchiveBuilder::build", move || {
            let mut b = wow_mpq::ArchiveBuilder::new().version(fv).default_compression(flags).listfile_option(wow_mpq::ListfileOption::Generate);
            for (name, d) in files {
                b = b.add_file_data(d, &name);
            }
            b.build(&p)
        });
        if !matches!(built, Ok(Ok(()))) {
            // the builder refusing a file set is not this property's business
            check.bump("lib-builder-refused", 1);
            return Ok(());
        }
    }

    // ---- list / info against the library's view
    match part1::check_views(&sb, "arch.mpq", false, "many-files") {
        Ok(_) => {}
        Err(f) if f.signature.starts_with("library-cannot-read-archive") => {
            if c.origin == 0 {
                return Err(Fail::new("exit0-with-unparseable-output:mpq:create", format!("`mpq create` of {n} files exited 0; {}", f.message)));
            }
            check.bump("lib-cannot-read-own-archive", 1);
            return Ok(());
        }
        Err(f) => return Err(f),
    }

    // ---- what has to come out
    // (name, length) of every file the extraction is asked for
    let wanted: Vec<&(String, Vec<u8>)> = if bulk {
        ex.files.iter().collect()
    } else {
        let req: std::collections::BTreeSet<&str> = ex.request.iter().map(|s| s.as_str()).collect();
        ex.files.iter().filter(|(name, _)| req.contains(name.as_str())).collect()
    };
    // library-built archive: the library's own reads of the requested names are the reference
    let lib = if c.origin != 0 {
        let entry = if bulk { Entry::MpqReadAll } else { Entry::MpqRead { names: ex.request.clone() } };
        match oracle::ask(&entry, &sb.path("arch.mpq")) {
            Verdict::Ok(v) => Some(v),
            _ => {
                check.bump("lib-cannot-read-own-archive", 1);
                return Ok(());
            }
        }
    } else {
        None
    };
    let lib_errs = lib.as_ref().map(|l| l["read_errors"].as_u64().unwrap_or(0)).unwrap_or(ex.missing.len() as u64);

    let mut xa = crate::sandbox::sv(&["mpq", "extract", "arch.mpq", "-o", "out/x"]);
    if let Some(t) = c.threads {
        xa.push("--threads".into());
        xa.push(t.to_string());
    }
    if c.preserve {
        xa.push("--preserve-paths".into());
    }
    if c.skip_errors {
        xa.push("--skip-errors".into());
    }
    if !ex.request.is_empty() {
        xa.push("--".into());
        xa.extend(ex.request.iter().cloned());
    }
    let stale: Vec<(String, usize)> = wanted.iter().map(|(name, d)| (name.clone(), d.len())).collect();
    part1::prefill(&sb, c.prefill, c.preserve, &stale);
    let r = sb.run(&xa);
    let what = format!("`{}` ({} of the archive's {n} files)", cmdline(&xa), if bulk { "all".to_string() } else { format!("{} names, {} of them not in the archive, out", ex.request.len(), ex.missing.len()) });

    if lib_errs > 0 && !c.skip_errors {
        if r.ok() {
            let sig = if lib_errs == ex.missing.len() as u64 { "exit0-on-missing-name:mpq:extract" } else { "exit0-on-failed-extraction:mpq:extract" };
            return Err(Fail::new(sig, format!("{what} names {:?} that cannot be read, yet → {}; {}", ex.missing, r.status_str(), r.tail())));
        }
        return Ok(());
    }
    if part1::died_of_oom(&r) && c.origin != 0 {
        check.bump("lib-cannot-read-own-archive", 1);
        return Ok(());
    }
    if lib_errs == 0 && !r.ok() {
        let sig = if c.origin == 0 { format!("roundtrip-extract-failed:many-files:{mc}") } else { format!("extract-fails-where-library-reads:many-files:{mc}") };
        return Err(Fail::new(sig, format!("{what} → {}; {}", r.status_str(), r.tail())));
    }
    // exit 0 (or --skip-errors): every requested file that exists is there, bit-identical
    let incomplete = |detail: String| -> Fail {
        if lib_errs > 0 {
            Fail::new(format!("skip-errors-extraction-incomplete:many-files:{mc}"), format!("{what} → {}: {detail}", r.status_str()))
        } else {
            Fail::new(format!("exit0-with-incomplete-extraction:mpq:extract:{mc}"), format!("{what} → {}: {detail}; {}", r.status_str(), r.tail()))
        }
    };
    // what the output directory held before (part1::prefill) and still holds: the target was not written
    let is_stale = |b: &[u8]| c.prefill != 0 && !b.is_empty() && b.iter().enumerate().all(|(i, x)| *x == 0xA5u8 ^ (i as u8).wrapping_mul(31));
    let mut absent: Vec<&str> = vec![];
    let mut stale_left = 0usize;
    for (name, d) in &wanted {
        // expected (length, digest): the input itself, or the library's read of the library-built archive
        let (want_len, want_h) = match &lib {
            None => (d.len() as u64, format!("{:016x}", vcheck::engine::fnv(d))),
            Some(l) => match l["files"].get(name.as_str()) {
                Some(e) if e.get("err").is_none() => (e["len"].as_u64().unwrap_or(u64::MAX), e["h"].as_str().unwrap_or("").to_string()),
                // the library cannot read it (or does not list it): nothing to demand
                _ => continue,
            },
        };
        let rel = extract_target("out/x", name, c.preserve);
        match sb.read(&rel) {
            None => absent.push(name),
            Some(b) => {
                if b.len() as u64 != want_len || format!("{:016x}", vcheck::engine::fnv(&b)) != want_h {
                    if is_stale(&b) {
                        stale_left += 1;
                        absent.push(name);
                        continue;
                    }
                    let at = if lib.is_none() { b.iter().zip(d.iter()).position(|(x, y)| x != y).unwrap_or(b.len().min(d.len())) } else { 0 };
                    let sig = if lib.is_none() { format!("roundtrip-content-differs:many-files:{mc}") } else { format!("extraction-differs-from-library:many-files:{mc}") };
                    return Err(Fail::new(
                        sig,
                        format!("{what} → {}: {rel} has {} bytes, {} has {want_len}{}", r.status_str(), b.len(), if lib.is_none() { format!("input in/{name}") } else { "the library's read".to_string() }, if lib.is_none() { format!("; first difference at offset {at}") } else { String::new() }),
                    ));
                }
            }
        }
    }
    if !absent.is_empty() {
        return Err(incomplete(format!(
            "{} of the {} requested files were not written ({stale_left} of them still hold what the output directory contained before), e.g. {:?} … {:?}",
            absent.len(),
            wanted.len(),
            absent[0],
            absent[absent.len() - 1]
        )));
    }
    for miss in &ex.missing {
        if sb.exists(&extract_target("out/x", miss, c.preserve)) {
            return Err(Fail::new("missing-name-produced-a-file:mpq:extract", format!("{what}: a file was written for {miss:?}, which is not in the archive")));
        }
    }
    Ok(())
}
