//! Part 1 — create → extract round trip and list/info/tree agreement with the library.
//!
//! Flow A: generated file set → `mpq create` → `mpq list/info` → `mpq extract`; the extracted
//!         files are compared with the *inputs* (ground truth).
//! Flow B: library-built archive (vcheck::gens::mpq spec with directories, encryption, all
//!         versions, sector sizes) → `mpq list/info/tree/extract`; compared with the library's
//!         own reads of the same archive.

use crate::oracle::{self, Entry, Verdict};
use crate::part2::{check_extracted, extract_target};
use crate::sandbox::{RunOut, Sandbox};
use proptest::prelude::*;
use serde::{Deserialize, Serialize};
use serde_json::{Value, json};
use std::collections::BTreeSet;
use vcheck::engine::pt::pick_idx;
use vcheck::engine::{Check, Fail};
use vcheck::gens::mpq::{self as g, ArchiveSpec, ContentClass, FileSpec};

#[derive(Clone, Debug, PartialEq, Eq, Serialize, Deserialize)]
pub enum NameSel {
    /// one of the present files (selector scaled to the file count)
    Present(u16),
    /// a name that is not in the archive
    Missing(u8),
}

#[derive(Clone, Debug, PartialEq, Eq, Serialize, Deserialize)]
pub struct ExtractOpts {
    pub threads: Option<u8>,
    pub preserve: bool,
    /// None = extract everything
    pub explicit: Option<Vec<NameSel>>,
    pub skip_errors: bool,
    /// what the output directory holds before the extraction: 0 nothing (fresh directory);
    /// 1 a stale file of the *same length* and different bytes at every target; 2 a longer
    /// stale file; 3 a shorter one (an earlier extraction of another revision of the set)
    #[serde(default)]
    pub prefill: u8,
}

#[derive(Clone, Debug, PartialEq, Eq, Serialize, Deserialize)]
pub struct InFile {
    pub name: String,
    pub class: ContentClass,
    pub len: u32,
    pub seed: u32,
}

#[derive(Clone, Debug, PartialEq, Eq, Serialize, Deserialize)]
pub struct CreateCase {
    pub files: Vec<InFile>,
    pub version: u8,
    /// 0 none, 1 zlib, 2 bzip2, 3 lzma
    pub compression: u8,
    pub with_listfile: bool,
    pub extract: ExtractOpts,
}

#[derive(Clone, Debug, PartialEq, Eq, Serialize, Deserialize)]
pub struct LibCase {
    pub spec: ArchiveSpec,
    pub extract: ExtractOpts,
}

pub const COMPRESSIONS: [&str; 4] = ["none", "zlib", "bzip2", "lzma"];

// ------------------------------------------------------------------------------------------
// strategies

fn flat_name() -> impl Strategy<Value = String> {
    // host-safe, no leading '-' or '.', no blanks at the ends, always an extension
    // (one in ten names is longer than any column a listing could be cut to)
    (prop_oneof![9 => "[A-Za-z0-9_][A-Za-z0-9_ .+-]{0,10}[A-Za-z0-9_]|[A-Za-z0-9_]{1,2}", 1 => "[A-Za-z0-9_]{70,110}"], "[a-z0-9]{1,3}", 0u8..8)
        // one name in eight repeats its extension inside the stem ("notes.txt.bak.txt")
        .prop_map(|(a, e, rep)| if rep == 0 { format!("{a}.{e}.bak.{e}") } else { format!("{a}.{e}") })
}

fn dir_name() -> impl Strategy<Value = String> {
    (
        // half of the directory names come from a small pool in one of three letter cases, so that one
        // archive spells the same directory differently (game archives do; on a case-sensitive file
        // system these are different directories and every one of them has to be created)
        proptest::collection::vec(
            prop_oneof![
                9 => "[A-Za-z0-9_][A-Za-z0-9_ -]{0,6}[A-Za-z0-9_]|[A-Za-z0-9_]{1,2}",
                1 => "[A-Za-z0-9_]{25,45}",
                10 => (0usize..4, 0u8..3).prop_map(|(i, c)| {
                    let n = ["Interface", "Icons", "World", "Maps"][i];
                    match c {
                        0 => n.to_string(),
                        1 => n.to_ascii_uppercase(),
                        _ => n.to_ascii_lowercase(),
                    }
                }),
            ],
            0..=2,
        ),
        proptest::collection::vec(any::<bool>(), 3),
        flat_name(),
    )
        .prop_map(|(dirs, seps, leaf)| {
            let mut s = String::new();
            for (i, d) in dirs.iter().enumerate() {
                s.push_str(d);
                s.push(if seps[i] { '\\' } else { '/' });
            }
            s.push_str(&leaf);
            s
        })
}

fn len_strategy() -> impl Strategy<Value = u32> {
    // the tool's builder uses 16 KiB sectors
    prop_oneof![
        2 => 0u32..=5,
        4 => 6u32..=300,
        2 => 16380u32..=16390,
        2 => 301u32..=40000,
        1 => 49150u32..=49160,
    ]
}

pub fn extract_strategy() -> impl Strategy<Value = ExtractOpts> {
    (
        prop_oneof![3 => Just(None), 1 => Just(Some(1u8)), 1 => Just(Some(2u8)), 1 => Just(Some(5u8))],
        any::<bool>(),
        prop_oneof![
            2 => Just(None),
            3 => proptest::collection::vec(
                prop_oneof![4 => any::<u16>().prop_map(NameSel::Present), 1 => (0u8..4).prop_map(NameSel::Missing)],
                1..5
            )
            .prop_map(Some),
        ],
        prop_oneof![2 => Just(false), 1 => Just(true)],
        prop_oneof![3 => Just(0u8), 2 => Just(1u8), 1 => Just(2u8), 1 => Just(3u8)],
    )
        .prop_map(|(threads, preserve, explicit, skip_errors, prefill)| ExtractOpts { threads, preserve, explicit, skip_errors, prefill })
}

pub fn create_strategy() -> impl Strategy<Value = CreateCase> {
    (
        proptest::collection::vec((flat_name(), g::class_strategy(), len_strategy(), any::<u32>()), 1..7),
        1u8..=4,
        0u8..4,
        any::<bool>(),
        extract_strategy(),
    )
        .prop_map(|(fs, version, compression, with_listfile, extract)| {
            let mut seen = BTreeSet::new();
            let files = fs
                .into_iter()
                .filter(|(n, ..)| seen.insert(n.to_ascii_lowercase()))
                .map(|(name, class, len, seed)| InFile { name, class, len, seed })
                .collect();
            CreateCase { files, version, compression, with_listfile, extract }
        })
}

const LIB_METHODS: [u8; 5] = [g::M_NONE, g::M_ZLIB, g::M_BZIP2, g::M_LZMA, g::M_SPARSE];

pub fn lib_strategy() -> impl Strategy<Value = LibCase> {
    let params = g::GenParams {
        versions: (1, 4),
        max_shift: 4,
        methods: &LIB_METHODS,
        max_files: 6,
        allow_enc: true,
        allow_crcs: true,
        allow_attrs: true,
        many_tiny: false,
    };
    // one archive in three puts all its files below ONE directory chain that every file spells in its own
    // letter case (Interface\Icons, INTERFACE\icons, …): different directories on a case-sensitive file system
    let shared = (0u8..3, 0usize..4, 0usize..5, proptest::collection::vec((0u8..3, 0u8..3, any::<bool>()), 8));
    (g::archive_strategy(params), proptest::collection::vec(dir_name(), 8), extract_strategy(), shared).prop_map(|(mut spec, mut names, extract, (mode, d1, d2, cases))| {
        if mode == 0 {
            const POOL: [&str; 4] = ["Interface", "Icons", "World", "Maps"];
            let spell = |n: &str, c: u8| match c {
                0 => n.to_string(),
                1 => n.to_ascii_uppercase(),
                _ => n.to_ascii_lowercase(),
            };
            for (n, (c1, c2, bs)) in names.iter_mut().zip(cases.iter()) {
                let leaf = n.rsplit(['\\', '/']).next().unwrap().to_string();
                let sep = if *bs { '\\' } else { '/' };
                let mut s = format!("{}{sep}", spell(POOL[d1], *c1));
                if d2 < 4 {
                    s.push_str(&format!("{}{sep}", spell(POOL[d2], *c2)));
                }
                s.push_str(&leaf);
                *n = s;
            }
        }
        // own names: unique (case-insensitively) full names *and* basenames, so that
        // extraction without --preserve-paths cannot overwrite one file with another
        let mut seen_full = BTreeSet::new();
        let mut seen_base = BTreeSet::new();
        let mut files: Vec<FileSpec> = vec![];
        for (f, n) in spec.files.iter().zip(names.iter()) {
            let folded = n.to_ascii_lowercase().replace('/', "\\");
            let base = folded.rsplit('\\').next().unwrap().to_string();
            if seen_full.insert(folded) && seen_base.insert(base) {
                let mut f = f.clone();
                f.name = n.clone();
                files.push(f);
            }
        }
        spec.files = files;
        spec.listfile = true;
        LibCase { spec, extract }
    })
}

// ------------------------------------------------------------------------------------------
// output parsing (defensive: only what the text states unambiguously)

pub fn parse_info(stdout: &str) -> (Option<String>, Option<u64>) {
    let mut fmt = None;
    let mut n = None;
    for l in stdout.lines() {
        let l = l.trim();
        if let Some(r) = l.strip_prefix("Format version:") {
            fmt = Some(r.trim().to_string());
        } else if let Some(r) = l.strip_prefix("Number of files:") {
            n = r.trim().parse::<u64>().ok();
        }
    }
    (fmt, n)
}

pub fn parse_tree_sector(stdout: &str) -> Option<u64> {
    for l in stdout.lines() {
        if let Some(i) = l.find("sector_size:") {
            return l[i + "sector_size:".len()..].trim().parse::<u64>().ok();
        }
    }
    None
}

fn list_lines(stdout: &str) -> BTreeSet<String> {
    stdout.lines().map(|l| l.trim_end_matches('\r').to_string()).filter(|l| !l.is_empty()).collect()
}

/// the child died because an allocation failed under the sandbox's address-space limit: the
/// library asked for gigabytes (a resource defect of its own, judged elsewhere); the exit
/// status clauses of this property cannot be judged on such a run
pub fn died_of_oom(r: &RunOut) -> bool {
    !r.ok() && r.stderr.contains("memory allocation of") && r.stderr.contains("failed")
}

fn cmdline(args: &[String]) -> String {
    format!("warcraft-rs {}", args.join(" "))
}

fn show(run: &RunOut) -> String {
    format!("{}; {}", run.status_str(), run.tail())
}

/// `mpq list` / `mpq info` (/ `mpq tree`) against the library's view of the same archive
pub fn check_views(sb: &Sandbox, arch: &str, with_tree: bool, ctx: &str) -> Result<Value, Fail> {
    let lib = match oracle::ask(&Entry::MpqTree, &sb.path(arch)) {
        Verdict::Ok(v) => v,
        v => {
            return Err(Fail::new(format!("library-cannot-read-archive:{ctx}"), format!("the library's open/get_info/list of the archive fails: {}", v.describe())));
        }
    };
    // list
    let args = crate::sandbox::sv(&["mpq", "list", arch]);
    let r = sb.run(&args);
    if died_of_oom(&r) {
        return Err(Fail::new(format!("library-cannot-read-archive:{ctx}"), format!("`{}` → {}", cmdline(&args), show(&r))));
    }
    if !r.ok() {
        return Err(Fail::new(format!("list-fails-on-readable-archive:{ctx}"), format!("`{}` → {}", cmdline(&args), show(&r))));
    }
    let lib_names: BTreeSet<String> = lib["names"].as_array().map(|a| a.iter().filter_map(|x| x.as_str().map(|s| s.to_string())).collect()).unwrap_or_default();
    if !lib_names.is_empty() {
        let got = list_lines(&r.stdout);
        if got != lib_names {
            let missing: Vec<_> = lib_names.difference(&got).take(4).collect();
            let extra: Vec<_> = got.difference(&lib_names).take(4).collect();
            return Err(Fail::new(
                format!("list-output-differs-from-library:{ctx}"),
                format!("`{}` printed {} names, Archive::list has {}; not printed: {:?}; only printed: {:?}", cmdline(&args), got.len(), lib_names.len(), missing, extra),
            ));
        }
    }
    // list --filter: the printed subset equals the subset of the library's names the pattern selects
    // (documented as simple wildcard matching: '*' stands for any run of characters, the match is
    // case-insensitive and anchored at both ends; a pattern without '*' selects names containing it)
    if !lib_names.is_empty() {
        let mut patterns: BTreeSet<String> = BTreeSet::new();
        for n in lib_names.iter().filter(|n| !n.starts_with('(')).take(3) {
            let cs: Vec<char> = n.chars().collect();
            if let Some(c) = cs.last() {
                patterns.insert(format!("*{c}"));
            }
            if let Some(dot) = n.rfind('.') {
                patterns.insert(format!("*{}", &n[dot..]));
            }
            if cs.len() >= 3 {
                patterns.insert(format!("{}*", cs[..2].iter().collect::<String>()));
                patterns.insert(format!("*{}*", cs[1..cs.len() - 1].iter().take(3).collect::<String>()));
                patterns.insert(format!("{}*{}", cs[0], cs[cs.len() - 1]));
                patterns.insert(cs[1..cs.len() - 1].iter().take(4).collect::<String>().to_ascii_uppercase());
            }
            patterns.insert(n.clone());
        }
        for pat in patterns.iter().filter(|p| !p.is_empty() && !p.starts_with('-')).take(8) {
            let args = crate::sandbox::sv(&["mpq", "list", arch, "--filter", pat]);
            let r = sb.run(&args);
            if !r.ok() {
                return Err(Fail::new(format!("list-filter-fails-on-readable-archive:{ctx}"), format!("`{}` → {}", cmdline(&args), show(&r))));
            }
            let want: BTreeSet<String> = lib_names.iter().filter(|n| glob_selects(pat, n)).cloned().collect();
            let got: BTreeSet<String> = if r.stdout.contains("No files found matching pattern") { BTreeSet::new() } else { list_lines(&r.stdout) };
            if got != want {
                let missing: Vec<_> = want.difference(&got).take(4).collect();
                let extra: Vec<_> = got.difference(&want).take(4).collect();
                return Err(Fail::new(
                    format!("list-filter-output-differs-from-library:{ctx}"),
                    format!("`{}` printed {} names, the pattern selects {} of Archive::list's names; not printed: {:?}; only printed: {:?}", cmdline(&args), got.len(), want.len(), missing, extra),
                ));
            }
        }
    }
    // info
    let args = crate::sandbox::sv(&["mpq", "info", arch]);
    let r = sb.run(&args);
    if died_of_oom(&r) {
        return Err(Fail::new(format!("library-cannot-read-archive:{ctx}"), format!("`{}` → {}", cmdline(&args), show(&r))));
    }
    if !r.ok() {
        return Err(Fail::new(format!("info-fails-on-readable-archive:{ctx}"), format!("`{}` → {}", cmdline(&args), show(&r))));
    }
    let (fmt, n) = parse_info(&r.stdout);
    if let Some(f) = fmt {
        if Some(f.as_str()) != lib["format"].as_str() {
            return Err(Fail::new(format!("info-format-version-differs-from-library:{ctx}"), format!("`{}` says {f}, get_info says {}", cmdline(&args), lib["format"])));
        }
    }
    if let Some(n) = n {
        if Some(n) != lib["file_count"].as_u64() {
            return Err(Fail::new(format!("info-file-count-differs-from-library:{ctx}"), format!("`{}` says {n}, get_info().file_count is {}", cmdline(&args), lib["file_count"])));
        }
    }
    if with_tree {
        let args = crate::sandbox::sv(&["mpq", "tree", arch, "--no-color"]);
        let r = sb.run(&args);
        if died_of_oom(&r) {
            return Err(Fail::new(format!("library-cannot-read-archive:{ctx}"), format!("`{}` → {}", cmdline(&args), show(&r))));
        }
        if !r.ok() {
            return Err(Fail::new(format!("tree-fails-on-readable-archive:{ctx}"), format!("`{}` → {}", cmdline(&args), show(&r))));
        }
        if let Some(s) = parse_tree_sector(&r.stdout) {
            if Some(s) != lib["sector_size"].as_u64() {
                return Err(Fail::new(format!("tree-sector-size-differs-from-library:{ctx}"), format!("`{}` says {s}, get_info().sector_size is {}", cmdline(&args), lib["sector_size"])));
            }
        }
    }
    Ok(lib)
}

/// independent wildcard matcher (dynamic programming over characters): '*' = any run, the rest
/// literal, case-insensitive, anchored; without '*' the pattern selects names that contain it
fn glob_selects(pattern: &str, name: &str) -> bool {
    let p: Vec<char> = pattern.to_lowercase().chars().collect();
    let t: Vec<char> = name.to_lowercase().chars().collect();
    if !p.contains(&'*') {
        return p.is_empty() || t.windows(p.len()).any(|w| w == p.as_slice());
    }
    let mut reach = vec![false; t.len() + 1];
    reach[0] = true;
    for &pc in &p {
        let mut next = vec![false; t.len() + 1];
        if pc == '*' {
            let mut any = false;
            for i in 0..=t.len() {
                any |= reach[i];
                next[i] = any;
            }
        } else {
            for i in 0..t.len() {
                if reach[i] && t[i] == pc {
                    next[i + 1] = true;
                }
            }
        }
        reach = next;
    }
    reach[t.len()]
}

fn resolve_names(sel: &[NameSel], present: &[String]) -> (Vec<String>, Vec<String>) {
    // returns (requested names in order, the missing ones)
    let mut req = vec![];
    let mut missing = vec![];
    for s in sel {
        match s {
            NameSel::Present(i) => {
                if !present.is_empty() {
                    let n = present[pick_idx(*i, present.len())].clone();
                    if !req.contains(&n) {
                        req.push(n);
                    }
                }
            }
            NameSel::Missing(k) => {
                let n = format!("no_such_file_{k}.xyz");
                if !req.contains(&n) {
                    req.push(n.clone());
                    missing.push(n);
                }
            }
        }
    }
    (req, missing)
}

fn extract_args(arch: &str, out: &str, o: &ExtractOpts, names: &[String]) -> Vec<String> {
    let mut a = crate::sandbox::sv(&["mpq", "extract", arch, "-o", out]);
    if let Some(t) = o.threads {
        a.push("--threads".into());
        a.push(t.to_string());
    }
    if o.preserve {
        a.push("--preserve-paths".into());
    }
    if o.skip_errors {
        a.push("--skip-errors".into());
    }
    if !names.is_empty() {
        a.push("--".into());
        a.extend(names.iter().cloned());
    }
    a
}

fn opts_class(o: &ExtractOpts, n_missing: usize) -> String {
    format!(
        "thr{}:pp{}:{}:skip{}:missing{}:stale{}",
        o.threads.map(|t| t.to_string()).unwrap_or("-".into()),
        o.preserve as u8,
        if o.explicit.is_some() { "named" } else { "all" },
        o.skip_errors as u8,
        n_missing.min(2),
        o.prefill
    )
}

pub static NOTES: std::sync::Mutex<Vec<String>> = std::sync::Mutex::new(Vec::new());
fn note(s: &str) {
    let mut n = NOTES.lock().unwrap();
    if n.len() < 5 {
        n.push(vcheck::engine::truncate(s, 600));
    }
}

/// put stale files where the extraction is going to write (the tool overwrites its targets:
/// exit 0 means the complete output was produced, whatever was there before)
pub fn prefill(sb: &Sandbox, mode: u8, preserve: bool, targets: &[(String, usize)]) -> usize {
    let mut n = 0;
    if mode == 0 {
        return 0;
    }
    for (name, len) in targets {
        let stale_len = match mode {
            1 => *len,
            2 => *len + 1 + (*len % 7),
            _ => *len / 2,
        };
        if mode == 1 && *len == 0 {
            continue;
        }
        let stale: Vec<u8> = (0..stale_len).map(|i| 0xA5u8 ^ (i as u8).wrapping_mul(31)).collect();
        sb.write(&extract_target("out/x", name, preserve), &stale);
        n += 1;
    }
    n
}

fn bump_extract(check: &Check, o: &ExtractOpts, n_missing: usize, has_dirs: bool) {
    check.bump(if o.explicit.is_some() { "extract:named" } else { "extract:all" }, 1);
    if o.prefill != 0 {
        check.bump(&format!("extract:over-stale-files:mode{}", o.prefill), 1);
    }
    if n_missing > 0 {
        check.bump(if o.skip_errors { "extract:missing-skip" } else { "extract:missing-noskip" }, 1);
    }
    if has_dirs && o.preserve {
        check.bump("extract:preserve-dirs", 1);
    }
}

// ------------------------------------------------------------------------------------------
// Flow A

pub fn run_create(check: &Check, c: &CreateCase) -> Result<(), Fail> {
    let sb = Sandbox::new();
    let mut contents: Vec<(String, Vec<u8>)> = vec![];
    for f in &c.files {
        let d = g::materialize(f.class, f.len as usize, f.seed);
        sb.write(&format!("in/{}", f.name), &d);
        contents.push((f.name.clone(), d));
    }
    let comp = COMPRESSIONS[(c.compression % 4) as usize];
    let ver = format!("v{}", c.version.clamp(1, 4));
    let present: Vec<String> = c.files.iter().map(|f| f.name.clone()).collect();
    let (req, missing) = match &c.extract.explicit {
        Some(sel) => resolve_names(sel, &present),
        None => (vec![], vec![]),
    };
    let maxlen = c.files.iter().map(|f| f.len).max().unwrap_or(0);
    let lc = match maxlen {
        0..=5 => "tiny",
        6..=16383 => "<S",
        16384..=32768 => "≤2S",
        _ => ">2S",
    };
    let class = format!("create:{ver}:{comp}:lf{}:n{}:{lc}:{}", c.with_listfile as u8, c.files.len().min(4), opts_class(&c.extract, missing.len()));
    check.count(&class, !missing.is_empty() || maxlen > 16384);
    check.sample(&format!("create:{ver}:{comp}"), || json!({"part": "create", "case": c}));
    bump_extract(check, &c.extract, missing.len(), false);
    if present.iter().any(|n| n.len() > 80) {
        check.bump("list:name-longer-than-80", 1);
    }
    let ctx = "create".to_string();

    let mut args = crate::sandbox::sv(&["mpq", "create", "arch.mpq", "--version", &ver, "-c", comp]);
    if c.with_listfile {
        args.push("--with-listfile".into());
    }
    for f in &c.files {
        args.push("-a".into());
        args.push(format!("in/{}", f.name));
    }
    let r = sb.run(&args);
    if !r.ok() {
        return Err(Fail::new(format!("roundtrip-create-failed:{ver}:{comp}"), format!("`{}` on valid input files → {}", cmdline(&args), show(&r))));
    }
    if !sb.exists("arch.mpq") {
        return Err(Fail::new("exit0-without-output:mpq:create", format!("`{}` exited 0 but arch.mpq does not exist", cmdline(&args))));
    }
    let lib = check_views(&sb, "arch.mpq", false, &ctx).map_err(|f| {
        if f.signature.starts_with("library-cannot-read-archive") {
            Fail::new("exit0-with-unparseable-output:mpq:create", format!("`{}` exited 0; {}", cmdline(&args), f.message))
        } else {
            f
        }
    })?;
    let _ = lib;

    // extract
    let xa = extract_args("arch.mpq", "out/x", &c.extract, &req);
    let stale: Vec<(String, usize)> = contents.iter().map(|(n, d)| (n.clone(), d.len())).collect();
    prefill(&sb, c.extract.prefill, c.extract.preserve, &stale);
    let r = sb.run(&xa);
    let want: Vec<&(String, Vec<u8>)> = if c.extract.explicit.is_some() { contents.iter().filter(|(n, _)| req.contains(n)).collect() } else { contents.iter().collect() };
    let verify = |sig: &str| -> Result<(), Fail> {
        for (n, d) in &want {
            let rel = extract_target("out/x", n, c.extract.preserve);
            match sb.read(&rel) {
                None => return Err(Fail::new(format!("{sig}-file-missing:{ver}:{comp}"), format!("`{}` → {}: {rel} was not written (input in/{n}, {} bytes)", cmdline(&xa), r.status_str(), d.len()))),
                Some(b) => {
                    if &b != d {
                        let at = b.iter().zip(d.iter()).position(|(x, y)| x != y).unwrap_or(b.len().min(d.len()));
                        return Err(Fail::new(
                            format!("{sig}-content-differs:{ver}:{comp}"),
                            format!("`{}` → {}: {rel} has {} bytes, input has {}; first difference at offset {at}", cmdline(&xa), r.status_str(), b.len(), d.len()),
                        ));
                    }
                }
            }
        }
        Ok(())
    };
    if !missing.is_empty() && !c.extract.skip_errors {
        if r.ok() {
            return Err(Fail::new("exit0-on-missing-name:mpq:extract", format!("`{}` names {:?} that are not in the archive, yet → {}", cmdline(&xa), missing, show(&r))));
        }
        return Ok(());
    }
    if missing.is_empty() {
        if !r.ok() {
            return Err(Fail::new(format!("roundtrip-extract-failed:{ver}:{comp}"), format!("`{}` on an archive the tool just created → {}", cmdline(&xa), show(&r))));
        }
        verify("roundtrip")?;
    } else {
        // --skip-errors: the present files are still extracted (whatever the exit status)
        verify("skip-errors")?;
        for m in &missing {
            if sb.exists(&extract_target("out/x", m, c.extract.preserve)) {
                return Err(Fail::new("missing-name-produced-a-file:mpq:extract", format!("`{}`: a file was written for {m:?}, which is not in the archive", cmdline(&xa))));
            }
        }
    }
    Ok(())
}

// ------------------------------------------------------------------------------------------
// Flow B

pub fn run_lib(check: &Check, c: &LibCase) -> Result<(), Fail> {
    let sb = Sandbox::new();
    let spec = &c.spec;
    let present: Vec<String> = spec.files.iter().map(|f| f.name.clone()).collect();
    let (req, missing) = match &c.extract.explicit {
        Some(sel) => resolve_names(sel, &present),
        None => (vec![], vec![]),
    };
    let has_dirs = present.iter().any(|n| n.contains('\\') || n.contains('/'));
    let has_enc = spec.files.iter().any(|f| f.enc != g::Enc::None);
    let class = format!(
        "lib:V{}:shift{}:n{}:dirs{}:enc{}:{}",
        spec.version,
        spec.shift,
        spec.files.len().min(4),
        has_dirs as u8,
        has_enc as u8,
        opts_class(&c.extract, missing.len())
    );
    check.count(&class, !missing.is_empty() || (has_dirs && c.extract.preserve));
    check.sample(&format!("lib:V{}", spec.version), || json!({"part": "lib", "case": c}));
    bump_extract(check, &c.extract, missing.len(), has_dirs);
    if present.iter().any(|n| n.len() > 80) {
        check.bump("list:name-longer-than-80", 1);
    }
    if c.extract.preserve && c.extract.explicit.is_none() {
        // the same directory spelled in two letter cases, both to be created
        let parents: BTreeSet<String> = present.iter().filter_map(|n| n.replace('/', "\\").rsplit_once('\\').map(|(d, _)| d.to_string())).collect();
        let folded: BTreeSet<String> = parents.iter().map(|d| d.to_ascii_lowercase()).collect();
        if folded.len() < parents.len() {
            check.bump("extract:preserve-dirs-in-two-letter-cases", 1);
        }
    }
    let ctx = "lib".to_string();

    if let Err(e) = crate::fixtures::build_mpq(spec, &sb.path("arch.mpq")) {
        // the builder refusing a spec is not this property's business
        check.bump("lib-builder-refused", 1);
        let _ = e;
        return Ok(());
    }
    match check_views(&sb, "arch.mpq", true, &ctx) {
        Ok(_) => {}
        Err(f) if f.signature.starts_with("library-cannot-read-archive") => {
            // C01/C02 territory; here it only means the case cannot be judged
            check.bump("lib-cannot-read-own-archive", 1);
            note(&format!("{}: {}", spec.summary(), f.message));
            return Ok(());
        }
        Err(f) => return Err(f),
    }

    let entry = if c.extract.explicit.is_some() { Entry::MpqRead { names: req.clone() } } else { Entry::MpqReadAll };
    let lib = match oracle::ask(&entry, &sb.path("arch.mpq")) {
        Verdict::Ok(v) => v,
        v => {
            check.bump("lib-cannot-read-own-archive", 1);
            note(&format!("{}: {}", spec.summary(), v.describe()));
            return Ok(());
        }
    };
    let errs = lib["read_errors"].as_u64().unwrap_or(0);
    let xa = extract_args("arch.mpq", "out/x", &c.extract, &req);
    let stale: Vec<(String, usize)> = lib["files"]
        .as_object()
        .map(|m| m.iter().filter(|(_, d)| d.get("err").is_none()).map(|(n, d)| (n.clone(), d["len"].as_u64().unwrap_or(0) as usize)).collect())
        .unwrap_or_default();
    prefill(&sb, c.extract.prefill, c.extract.preserve, &stale);
    let r = sb.run(&xa);
    if errs > 0 && !c.extract.skip_errors {
        if r.ok() {
            let which: Vec<String> = lib["files"].as_object().map(|m| m.iter().filter(|(_, d)| d.get("err").is_some()).map(|(n, d)| format!("{n}: {}", d["err"])).take(3).collect()).unwrap_or_default();
            let sig = if missing.len() as u64 == errs { "exit0-on-missing-name:mpq:extract" } else { "exit0-on-failed-extraction:mpq:extract" };
            return Err(Fail::new(sig, format!("`{}` → {} although the library cannot read {errs} requested file(s): {:?}", cmdline(&xa), show(&r), which)));
        }
        return Ok(());
    }
    if died_of_oom(&r) {
        check.bump("lib-cannot-read-own-archive", 1);
        note(&format!("{}: `{}` → {}", spec.summary(), cmdline(&xa), show(&r)));
        return Ok(());
    }
    if errs == 0 && !r.ok() {
        return Err(Fail::new(format!("extract-fails-where-library-reads:V{}", spec.version), format!("`{}` → {}; the library reads all {} requested files", cmdline(&xa), show(&r), lib["names"].as_array().map(|a| a.len()).unwrap_or(0))));
    }
    // exit 0 (or --skip-errors): every file the library can read must be there, bit-identical
    if let Err(m) = check_extracted(&sb, &lib["files"], "out/x", c.extract.preserve, None) {
        let sig = if errs > 0 { "skip-errors-extraction-incomplete" } else { "extraction-differs-from-library" };
        return Err(Fail::new(format!("{sig}:V{}", spec.version), format!("`{}` → {}: {m}", cmdline(&xa), r.status_str())));
    }
    Ok(())
}
