//! Sub-command surface, read from the binary's own `--help` at run time.

use crate::sandbox::{Sandbox, sv};
use std::collections::BTreeMap;

/// names listed under the `Commands:` heading of a clap help text (without `help`)
pub fn parse_commands(help: &str) -> Vec<String> {
    let mut out = vec![];
    let mut in_cmds = false;
    for line in help.lines() {
        let t = line.trim_end();
        if t.trim() == "Commands:" {
            in_cmds = true;
            continue;
        }
        if in_cmds {
            if t.is_empty() || !t.starts_with("  ") {
                // blank line or next heading ends the block
                if !t.starts_with("  ") {
                    in_cmds = false;
                }
                continue;
            }
            // "  name   description" (continuation lines are indented deeper)
            let body = &t[2..];
            if body.starts_with(' ') {
                continue;
            }
            let name = body.split_whitespace().next().unwrap_or("");
            if !name.is_empty() && name != "help" {
                out.push(name.to_string());
            }
        }
    }
    out
}

/// family → sub-commands ("" for a family that takes arguments directly)
pub fn enumerate() -> Result<BTreeMap<String, Vec<String>>, String> {
    let sb = Sandbox::new();
    let top = sb.run(&sv(&["--help"]));
    if !top.ok() {
        return Err(format!("`--help` failed: {} {}", top.status_str(), top.tail()));
    }
    let fams = parse_commands(&top.stdout);
    if fams.is_empty() {
        return Err("no families found in --help output".into());
    }
    let mut map = BTreeMap::new();
    for f in fams {
        let h = sb.run(&sv(&[&f, "--help"]));
        if !h.ok() {
            return Err(format!("`{f} --help` failed: {}", h.status_str()));
        }
        let mut subs = parse_commands(&h.stdout);
        if subs.is_empty() {
            subs.push(String::new());
        }
        map.insert(f, subs);
    }
    Ok(map)
}
