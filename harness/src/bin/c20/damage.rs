//! Input damage: truncation at generated points, byte mutations, field overwrites, garbage.
//! All positions are 16-bit selectors scaled to the base length, so a stored case replays
//! against the deterministically rebuilt base file and shrinks toward offset 0.

use proptest::prelude::*;
use serde::{Deserialize, Serialize};
use vcheck::engine::pt::pick_idx;

#[derive(Clone, Debug, PartialEq, Eq, Serialize, Deserialize)]
pub struct Edit {
    pub pos: u16,
    /// 0 = set, 1 = xor, 2 = set 0x00, 3 = set 0xFF
    pub op: u8,
    pub val: u8,
}

#[derive(Clone, Debug, PartialEq, Eq, Serialize, Deserialize)]
pub enum Damage {
    None,
    /// keep the first pick(sel, len) bytes (always shorter than the original)
    Truncate { sel: u16 },
    Mutate { edits: Vec<Edit> },
    /// overwrite the 4-aligned little-endian u32 at pick(pos, len/4)*4
    Field32 { pos: u16, val: u32 },
    /// `len` pseudo-random bytes, the first `keep` bytes copied from the valid file
    Garbage { len: u16, seed: u32, keep: u8 },
    Empty,
    /// the path given to the tool does not exist
    Missing,
}

impl Damage {
    pub fn kind(&self) -> &'static str {
        match self {
            Damage::None => "valid",
            Damage::Truncate { .. } => "truncated",
            Damage::Mutate { .. } => "mutated",
            Damage::Field32 { .. } => "field32",
            Damage::Garbage { keep, .. } => {
                if *keep > 0 {
                    "garbage+magic"
                } else {
                    "garbage"
                }
            }
            Damage::Empty => "empty",
            Damage::Missing => "missing",
        }
    }

    /// `None` = do not create the file
    pub fn apply(&self, base: &[u8]) -> Option<Vec<u8>> {
        match self {
            Damage::None => Some(base.to_vec()),
            Damage::Truncate { sel } => {
                let cut = pick_idx(*sel, base.len());
                Some(base[..cut].to_vec())
            }
            Damage::Mutate { edits } => {
                let mut v = base.to_vec();
                if !v.is_empty() {
                    for e in edits {
                        let i = pick_idx(e.pos, v.len());
                        v[i] = match e.op % 4 {
                            0 => e.val,
                            1 => v[i] ^ (e.val | 1),
                            2 => 0x00,
                            _ => 0xFF,
                        };
                    }
                }
                Some(v)
            }
            Damage::Field32 { pos, val } => {
                let mut v = base.to_vec();
                let words = v.len() / 4;
                if words > 0 {
                    let i = pick_idx(*pos, words) * 4;
                    v[i..i + 4].copy_from_slice(&val.to_le_bytes());
                }
                Some(v)
            }
            Damage::Garbage { len, seed, keep } => {
                let mut st: u64 = 0x9E37_79B9_7F4A_7C15 ^ ((*seed as u64) << 1 | 1);
                let mut v = Vec::with_capacity(*len as usize);
                for _ in 0..*len {
                    st ^= st << 13;
                    st ^= st >> 7;
                    st ^= st << 17;
                    v.push((st >> 24) as u8);
                }
                let k = (*keep as usize).min(base.len()).min(v.len());
                v[..k].copy_from_slice(&base[..k]);
                Some(v)
            }
            Damage::Empty => Some(Vec::new()),
            Damage::Missing => None,
        }
    }
}

pub fn edit_strategy() -> impl Strategy<Value = Edit> {
    (
        prop_oneof![3 => 0u16..2048, 5 => any::<u16>()],
        0u8..4,
        any::<u8>(),
    )
        .prop_map(|(pos, op, val)| Edit { pos, op, val })
}

/// damaged inputs only (no `None`)
pub fn damage_strategy() -> impl Strategy<Value = Damage> {
    prop_oneof![
        5 => prop_oneof![2 => 0u16..4096, 5 => any::<u16>(), 1 => 65000u16..=65535]
            .prop_map(|sel| Damage::Truncate { sel }),
        5 => proptest::collection::vec(edit_strategy(), 1..8).prop_map(|edits| Damage::Mutate { edits }),
        4 => (
            prop_oneof![3 => 0u16..4096, 4 => any::<u16>()],
            prop_oneof![
                Just(0u32),
                Just(1u32),
                Just(0xFFFF_FFFFu32),
                Just(0x7FFF_FFFFu32),
                Just(0x8000_0000u32),
                Just(0x0001_0000u32),
                any::<u32>()
            ]
        )
            .prop_map(|(pos, val)| Damage::Field32 { pos, val }),
        2 => (0u16..600, any::<u32>(), prop_oneof![Just(0u8), Just(4u8), Just(8u8), Just(12u8), Just(32u8)])
            .prop_map(|(len, seed, keep)| Damage::Garbage { len, seed, keep }),
        1 => Just(Damage::Empty),
        1 => Just(Damage::Missing),
    ]
}

/// the deterministic grid: every essential damage class once
pub fn grid() -> Vec<Damage> {
    vec![
        Damage::None,
        Damage::Truncate { sel: 32768 },
        Damage::Truncate { sel: 600 },
        Damage::Mutate {
            edits: vec![
                Edit { pos: 0, op: 1, val: 0x40 },
                Edit { pos: 9000, op: 3, val: 0 },
                Edit { pos: 30000, op: 0, val: 0x7F },
            ],
        },
        Damage::Field32 { pos: 1, val: 0xFFFF_FFFF },
        Damage::Garbage { len: 257, seed: 7, keep: 0 },
        Damage::Garbage { len: 300, seed: 11, keep: 8 },
        Damage::Empty,
        Damage::Missing,
    ]
}
