//! Part 3 — output-content differential: what a sub-command wrote (or printed in a
//! machine-checkable form) with exit 0 must be what the *library* produces in-process for the
//! same input and the same options.
//!
//! The expected value is always computed by the library itself (in the supervised oracle
//! worker, `Entry::P3(Ask)`), with the options derived from the command line the way `--help` /
//! CHANGELOG document them — never from the tool's source.
//!
//! conv     m2 convert / skin-convert / anim-convert, wmo / adt / wdt / wdl convert, blp convert
//!          both directions: output bytes (decoded pixels for image outputs) == library result
//! dbc      export json/csv (file and stdout), list, info, discover, analyze vs parse_records
//! rebuild  mpq rebuild: files and contents of the target == source's (through the library)
//! compare  mpq compare verdict and counts == compare_archives with the same options
//! validate mpq validate on intact archives and archives with one corrupted file, all flags
//! tables   mpq info --show-hash-table/--show-block-table row counts == get_info table sizes
//! patch    mpq extract --patch contents == PatchChain::read_file; mpq extract -f <type>
//! tiles    wdt tiles csv/json/text == WdtFile::get_tile
//! flags    display flags (-v -q -w -d --no-color ...) in every order and position never change
//!          exit status or written files; the same flag set in two orders prints the same

use crate::damage::Damage;
use crate::fixtures;
use crate::oracle::{self, Entry, Verdict};
use crate::sandbox::{RunOut, Sandbox};
use serde::{Deserialize, Serialize};
use serde_json::{Value, json};
use std::collections::{BTreeMap, BTreeSet};
use std::io::Cursor;
use std::path::Path;
use vcheck::engine::pt::pick_idx;
use vcheck::engine::{Check, Fail, fnv};

// ==========================================================================================
// jobs: one converting command line + the library call sequence that must give the same bytes

#[derive(Clone, Debug, PartialEq, Eq, Serialize, Deserialize)]
pub struct BlpOpts {
    /// blp0 | blp1 | blp2
    pub version: String,
    /// raw1 | raw3 | jpeg | dxt1 | dxt3 | dxt5
    pub format: String,
    pub alpha_bits: Option<u8>,
    pub no_mipmaps: bool,
    /// nearest | triangle | catmull-rom | gaussian | lanczos3 (None = the documented default lanczos3)
    pub filter: Option<String>,
    /// fastest | medium | finest (None = the documented default medium)
    pub dxt: Option<String>,
}

#[derive(Clone, Debug, PartialEq, Eq, Serialize, Deserialize)]
pub enum Job {
    M2Convert { version: String },
    SkinConvert { version: String },
    AnimConvert { version: String },
    WmoConvert { version: String },
    AdtConvert { to: String },
    WdtConvert { from: String, to: String },
    WdlConvert { from: Option<String>, to: String },
    /// BLP → png/bmp/tga at a mip level
    BlpToImage { level: u32, ext: String },
    /// png → BLP
    ImageToBlp { opts: BlpOpts },
}

impl Job {
    pub fn cmd(&self) -> &'static str {
        match self {
            Job::M2Convert { .. } => "m2:convert",
            Job::SkinConvert { .. } => "m2:skin-convert",
            Job::AnimConvert { .. } => "m2:anim-convert",
            Job::WmoConvert { .. } => "wmo:convert",
            Job::AdtConvert { .. } => "adt:convert",
            Job::WdtConvert { .. } => "wdt:convert",
            Job::WdlConvert { .. } => "wdl:convert",
            Job::BlpToImage { .. } => "blp:convert",
            Job::ImageToBlp { .. } => "blp:convert",
        }
    }
    /// finer key for vacuity accounting
    pub fn kind(&self) -> &'static str {
        match self {
            Job::BlpToImage { .. } => "blp:convert:to-image",
            Job::ImageToBlp { .. } => "blp:convert:to-blp",
            j => j.cmd(),
        }
    }
    pub fn input_rel(&self) -> &'static str {
        match self {
            Job::M2Convert { .. } => "in/model.m2",
            Job::SkinConvert { .. } => "in/model00.skin",
            Job::AnimConvert { .. } => "in/a.anim",
            Job::WmoConvert { .. } => "in/obj.wmo",
            Job::AdtConvert { .. } => "in/tile.adt",
            Job::WdtConvert { .. } => "in/map.wdt",
            Job::WdlConvert { .. } => "in/map.wdl",
            Job::BlpToImage { .. } => "in/tex.blp",
            Job::ImageToBlp { .. } => "in/img.png",
        }
    }
    pub fn output_rel(&self) -> String {
        match self {
            Job::M2Convert { .. } => "out/conv.m2".into(),
            Job::SkinConvert { .. } => "out/conv.skin".into(),
            Job::AnimConvert { .. } => "out/conv.anim".into(),
            Job::WmoConvert { .. } => "out/conv.wmo".into(),
            Job::AdtConvert { .. } => "out/conv.adt".into(),
            Job::WdtConvert { .. } => "out/conv.wdt".into(),
            Job::WdlConvert { .. } => "out/conv.wdl".into(),
            Job::BlpToImage { ext, .. } => format!("out/tex.{ext}"),
            Job::ImageToBlp { .. } => "out/img.blp".into(),
        }
    }
    /// (sub-command words, positional arguments, option groups)
    fn parts(&self) -> (Vec<String>, Vec<String>, Vec<Vec<String>>) {
        let s = |x: &str| x.to_string();
        let (fam, sub) = self.cmd().split_once(':').unwrap();
        let words = vec![s(fam), s(sub)];
        let pos = vec![s(self.input_rel()), self.output_rel()];
        let groups: Vec<Vec<String>> = match self {
            Job::M2Convert { version } | Job::SkinConvert { version } | Job::AnimConvert { version } | Job::WmoConvert { version } => vec![vec![s("--version"), version.clone()]],
            Job::AdtConvert { to } => vec![vec![s("--to"), to.clone()]],
            Job::WdtConvert { from, to } => vec![vec![s("-f"), from.clone()], vec![s("-t"), to.clone()]],
            Job::WdlConvert { from, to } => {
                let mut g = vec![];
                if let Some(f) = from {
                    g.push(vec![s("--from"), f.clone()]);
                }
                g.push(vec![s("--to"), to.clone()]);
                g
            }
            Job::BlpToImage { level, .. } => {
                if *level == 0 {
                    vec![]
                } else {
                    vec![vec![s("--mipmap-level"), level.to_string()]]
                }
            }
            Job::ImageToBlp { opts } => {
                let mut g = vec![vec![s("--blp-version"), opts.version.clone()], vec![s("--blp-format"), opts.format.clone()]];
                if let Some(a) = opts.alpha_bits {
                    g.push(vec![s("--alpha-bits"), a.to_string()]);
                }
                if opts.no_mipmaps {
                    g.push(vec![s("--no-mipmaps")]);
                }
                if let Some(f) = &opts.filter {
                    g.push(vec![s("--mipmap-filter"), f.clone()]);
                }
                if let Some(d) = &opts.dxt {
                    g.push(vec![s("--dxt-compression"), d.clone()]);
                }
                g
            }
        };
        (words, pos, groups)
    }
    pub fn args(&self, order: u16, verbosity: u8) -> Vec<String> {
        let (w, p, mut g) = self.parts();
        g.extend(verbosity_group(verbosity));
        arrange(&w, &p, &g, order)
    }
    fn describe(&self) -> String {
        match self {
            Job::M2Convert { version } | Job::SkinConvert { version } | Job::AnimConvert { version } | Job::WmoConvert { version } => format!("to-{}", version.to_lowercase()),
            Job::AdtConvert { to } => format!("to-{}", to.to_lowercase()),
            Job::WdtConvert { from, to } => format!("{}-to-{}", from.to_lowercase(), to.to_lowercase()),
            Job::WdlConvert { from, to } => format!("{}-to-{}", from.as_deref().unwrap_or("auto").to_lowercase(), to.to_lowercase()),
            Job::BlpToImage { level, ext } => format!("{ext}:level{}", (*level).min(9)),
            Job::ImageToBlp { opts } => format!(
                "{}:{}:a{}:{}:{}:{}",
                opts.version,
                opts.format,
                opts.alpha_bits.map(|a| a.to_string()).unwrap_or("auto".into()),
                if opts.no_mipmaps { "nomips" } else { "mips" },
                opts.filter.as_deref().unwrap_or("default"),
                opts.dxt.as_deref().unwrap_or("default")
            ),
        }
    }
}

/// Deterministic arrangement of a command line: `order` 0 is the canonical one (positionals,
/// then options as listed); any other value permutes the option groups and moves the
/// positionals between them (clap accepts options anywhere after the sub-command).
pub fn arrange(words: &[String], positionals: &[String], groups: &[Vec<String>], order: u16) -> Vec<String> {
    let mut out: Vec<String> = words.to_vec();
    if order == 0 {
        out.extend(positionals.iter().cloned());
        for g in groups {
            out.extend(g.iter().cloned());
        }
        return out;
    }
    let mut idx: Vec<usize> = (0..groups.len()).collect();
    let mut s = order as u64 * 0x9E37_79B9 + 12345;
    let mut next = || {
        s = s.wrapping_mul(6364136223846793005).wrapping_add(1442695040888963407);
        (s >> 33) as usize
    };
    for i in (1..idx.len()).rev() {
        let j = next() % (i + 1);
        idx.swap(i, j);
    }
    // positions (0..=groups) at which the positionals are inserted, in order
    let mut slots: Vec<usize> = positionals.iter().map(|_| next() % (groups.len() + 1)).collect();
    slots.sort();
    let mut pi = 0;
    for (k, gi) in idx.iter().enumerate() {
        while pi < positionals.len() && slots[pi] <= k {
            out.push(positionals[pi].clone());
            pi += 1;
        }
        out.extend(groups[*gi].iter().cloned());
    }
    while pi < positionals.len() {
        out.push(positionals[pi].clone());
        pi += 1;
    }
    out
}

// ==========================================================================================
// worker side: the library's result

#[derive(Clone, Debug, PartialEq, Eq, Serialize, Deserialize)]
pub enum Ask {
    /// run the library call sequence of `job` on the file; write the bytes the library's writer
    /// gives to `out` (image outputs: width, height, RGBA8 pixels)
    Produce { job: Job, out: String },
    /// DbcParser::parse (+ with_schema) + parse_records: header facts and every value
    DbcDump { table: Option<DbcTable> },
    /// rebuild_archive with the options the flags stand for, into a scratch target: its summary
    MpqRebuild { opts: RebuildOpts },
    /// compare_archives(path, other, ..)
    MpqCompare { other: String, detailed: bool, content_check: bool, metadata_only: bool, ignore_order: bool, filter: Option<String> },
    /// get_info: format, file count, hash / block table sizes
    MpqTables,
    /// PatchChain of path + others (priorities 0, 100, 200 ..): read the names (None = chain.list())
    MpqChainRead { others: Vec<String>, names: Option<Vec<String>> },
    /// WdtReader::read + every tile with ADT data
    WdtTiles { version: String },
}

fn es(e: impl std::fmt::Display) -> String {
    e.to_string()
}

fn blp_target(o: &BlpOpts, img_has_alpha: bool) -> Result<wow_blp::convert::BlpTarget, String> {
    use wow_blp::convert::{AlphaBits, Blp2Format, BlpOldFormat, BlpTarget, DxtAlgorithm};
    // `--alpha-bits`: "Auto-detected from input if not specified"; CHANGELOG 0.6.0: DXT1 → 1 bit for
    // images with an alpha channel, 0 otherwise; DXT3/DXT5/JPEG/Raw → 8 bits, 0 otherwise
    let bits = o.alpha_bits.unwrap_or(match (o.format.as_str(), img_has_alpha) {
        (_, false) => 0,
        ("dxt1", true) => 1,
        (_, true) => 8,
    });
    let ab = |b: u8| -> Result<AlphaBits, String> {
        Ok(match b {
            0 => AlphaBits::NoAlpha,
            1 => AlphaBits::Bit1,
            4 => AlphaBits::Bit4,
            8 => AlphaBits::Bit8,
            _ => return Err(format!("alpha bits {b} not representable")),
        })
    };
    let has = |yes: u8| -> Result<bool, String> {
        if bits == 0 {
            Ok(false)
        } else if bits == yes {
            Ok(true)
        } else {
            Err(format!("alpha bits {bits} not representable for {}", o.format))
        }
    };
    let algo = match o.dxt.as_deref() {
        None | Some("medium") => DxtAlgorithm::ClusterFit,
        Some("fastest") => DxtAlgorithm::RangeFit,
        Some("finest") => DxtAlgorithm::IterativeClusterFit,
        Some(x) => return Err(format!("unknown dxt compression {x}")),
    };
    let old = |f: &str| -> Result<BlpOldFormat, String> {
        match f {
            "raw1" => Ok(BlpOldFormat::Raw1 { alpha_bits: ab(bits)? }),
            "jpeg" => Ok(BlpOldFormat::Jpeg { has_alpha: has(8)? }),
            f => Err(format!("{} has no {f} encoding", o.version)),
        }
    };
    Ok(match o.version.as_str() {
        "blp0" => BlpTarget::Blp0(old(&o.format)?),
        "blp1" => BlpTarget::Blp1(old(&o.format)?),
        "blp2" => BlpTarget::Blp2(match o.format.as_str() {
            "raw1" => Blp2Format::Raw1 { alpha_bits: ab(bits)? },
            "raw3" => Blp2Format::Raw3,
            "jpeg" => Blp2Format::Jpeg { has_alpha: has(8)? },
            "dxt1" => Blp2Format::Dxt1 { has_alpha: has(1)?, compress_algorithm: algo },
            "dxt3" => Blp2Format::Dxt3 { has_alpha: has(8)?, compress_algorithm: algo },
            "dxt5" => Blp2Format::Dxt5 { has_alpha: has(8)?, compress_algorithm: algo },
            f => return Err(format!("unknown format {f}")),
        }),
        v => return Err(format!("unknown blp version {v}")),
    })
}

fn filter_type(name: Option<&str>) -> Result<wow_blp::convert::FilterType, String> {
    use wow_blp::convert::FilterType as F;
    Ok(match name {
        None | Some("lanczos3") => F::Lanczos3,
        Some("nearest") => F::Nearest,
        Some("triangle") => F::Triangle,
        Some("catmull-rom") => F::CatmullRom,
        Some("gaussian") => F::Gaussian,
        Some(x) => return Err(format!("unknown filter {x}")),
    })
}

fn has_alpha_channel(i: &image::DynamicImage) -> bool {
    i.color().has_alpha()
}

/// width, height, RGBA8 pixels
pub fn pixel_dump(i: &image::DynamicImage) -> Vec<u8> {
    let mut v = Vec::new();
    v.extend(i.width().to_le_bytes());
    v.extend(i.height().to_le_bytes());
    v.extend(i.to_rgba8().into_raw());
    v
}

/// The library's result for `job` on the file at `input`, written to `out`.
pub fn produce(job: &Job, input: &Path, out: &Path) -> Result<Value, String> {
    use std::fs::File;
    use std::io::BufReader;
    let wr = |b: &[u8]| std::fs::write(out, b).map_err(es);
    match job {
        Job::M2Convert { version } => {
            let f = wow_m2::M2Model::load(input).map_err(es)?;
            let tv = wow_m2::M2Version::from_expansion_name(version).map_err(es)?;
            let conv = wow_m2::M2Converter::new().convert(f.model(), tv).map_err(es)?;
            let mut c = Cursor::new(Vec::new());
            conv.write(&mut c).map_err(es)?;
            wr(c.get_ref())?;
            Ok(json!({"source_version": f.model().header.version, "target_version": conv.header.version}))
        }
        Job::SkinConvert { version } => {
            let s = wow_m2::SkinFile::load(input).map_err(es)?;
            let tv = wow_m2::M2Version::from_expansion_name(version).map_err(es)?;
            let conv = s.convert(tv).map_err(es)?;
            let mut c = Cursor::new(Vec::new());
            conv.write(&mut c).map_err(es)?;
            wr(c.get_ref())?;
            Ok(json!({"source_new": s.is_new_format(), "target_new": conv.is_new_format()}))
        }
        Job::AnimConvert { version } => {
            let a = wow_m2::AnimFile::load(input).map_err(es)?;
            let tv = wow_m2::M2Version::from_expansion_name(version).map_err(es)?;
            let conv = a.convert(tv);
            let mut c = Cursor::new(Vec::new());
            conv.write(&mut c).map_err(es)?;
            wr(c.get_ref())?;
            Ok(json!({"source_format": format!("{:?}", a.format), "target_format": format!("{:?}", conv.format)}))
        }
        Job::WmoConvert { version } => {
            let tv = wow_wmo::WmoVersion::from_expansion_name(version).ok_or("invalid target version")?;
            let mut r = BufReader::new(File::open(input).map_err(es)?);
            let d = wow_wmo::discover_wmo_chunks(&mut r).map_err(es)?;
            if !d.chunks.iter().any(|c| c.id.as_str() == "MOHD") {
                return Err("not a root file (no MOHD): the tool documents group conversion as unsupported".into());
            }
            let mut r = BufReader::new(File::open(input).map_err(es)?);
            let mut root = wow_wmo::WmoParser::new().parse_root(&mut r).map_err(es)?;
            let sv = root.version;
            wow_wmo::WmoConverter::new().convert_root(&mut root, tv).map_err(es)?;
            let mut c = Cursor::new(Vec::new());
            wow_wmo::WmoWriter::new().write_root(&mut c, &root, tv).map_err(es)?;
            wr(c.get_ref())?;
            Ok(json!({"source_version": format!("{sv:?}"), "target_version": format!("{tv:?}")}))
        }
        Job::AdtConvert { to } => {
            let tv = wow_adt::AdtVersion::from_expansion_name(to).ok_or("invalid target version")?;
            let mut r = BufReader::new(File::open(input).map_err(es)?);
            let (adt, meta) = wow_adt::parse_adt_with_metadata(&mut r).map_err(es)?;
            let wow_adt::ParsedAdt::Root(root) = adt else {
                return Err("not a root ADT: --help documents only root files as convertible".into());
            };
            let built = wow_adt::BuiltAdt::from_root_adt(*root, Some(tv));
            let b = built.to_bytes().map_err(es)?;
            wr(&b)?;
            Ok(json!({"source_version": format!("{:?}", meta.version), "target_version": format!("{tv:?}")}))
        }
        Job::WdtConvert { from, to } => {
            let fv = wow_wdt::version::WowVersion::from_expansion_name(from).map_err(es)?;
            let tv = wow_wdt::version::WowVersion::from_expansion_name(to).map_err(es)?;
            let mut rd = wow_wdt::WdtReader::new(BufReader::new(File::open(input).map_err(es)?), fv);
            let mut w = rd.read().map_err(es)?;
            wow_wdt::conversion::convert_wdt(&mut w, fv, tv).map_err(es)?;
            let mut buf = Vec::new();
            wow_wdt::WdtWriter::new(&mut buf).write(&w).map_err(es)?;
            wr(&buf)?;
            Ok(json!({"source_version": format!("{fv:?}"), "target_version": format!("{tv:?}")}))
        }
        Job::WdlConvert { from, to } => {
            let parser = match from {
                Some(s) => wow_wdl::parser::WdlParser::with_version(wdl_version(s).ok_or("invalid source version")?),
                None => wow_wdl::parser::WdlParser::new(),
            };
            let mut r = BufReader::new(File::open(input).map_err(es)?);
            let w = parser.parse(&mut r).map_err(es)?;
            let tv = wdl_version(to).ok_or("invalid target version")?;
            let conv = wow_wdl::conversion::convert_wdl_file(&w, tv).map_err(es)?;
            let mut c = Cursor::new(Vec::new());
            wow_wdl::parser::WdlParser::with_version(tv).write(&mut c, &conv).map_err(es)?;
            wr(c.get_ref())?;
            Ok(json!({"source_version": format!("{:?}", w.version), "target_version": format!("{tv:?}")}))
        }
        Job::BlpToImage { level, .. } => {
            let b = wow_blp::parser::load_blp(input).map_err(es)?;
            let i = wow_blp::convert::blp_to_image(&b, *level as usize).map_err(es)?;
            wr(&pixel_dump(&i))?;
            Ok(json!({"w": i.width(), "h": i.height(), "color": format!("{:?}", i.color()), "images": b.image_count()}))
        }
        Job::ImageToBlp { opts } => {
            // the tool reads the input by its extension (.png)
            let img = image::ImageReader::open(input).map_err(es)?.decode().map_err(es)?;
            let target = blp_target(opts, has_alpha_channel(&img))?;
            let filter = filter_type(opts.filter.as_deref())?;
            let (w, h) = (img.width(), img.height());
            let blp = wow_blp::convert::image_to_blp(img, !opts.no_mipmaps, target, filter).map_err(es)?;
            let n_images = blp.image_count();
            let mips = if opts.version == "blp0" {
                // "For BLP0 it will create mipmaps in the save directory with names like <root_name>.b<num>"
                let e = wow_blp::encode::encode_blp0(&blp).map_err(es)?;
                wr(&e.blp_bytes)?;
                for (k, m) in e.blp_mipmaps.iter().enumerate() {
                    let p = wow_blp::path::make_mipmap_path(out, k).ok_or("mipmap path")?;
                    std::fs::write(p, m).map_err(es)?;
                }
                e.blp_mipmaps.len()
            } else {
                wr(&wow_blp::encode::encode_blp(&blp).map_err(es)?)?;
                0
            };
            Ok(json!({"w": w, "h": h, "images": n_images, "external_mipmaps": mips}))
        }
    }
}

fn wdl_version(s: &str) -> Option<wow_wdl::version::WdlVersion> {
    use wow_wdl::version::WdlVersion as V;
    // expansion names that have exactly one WDL layout (the help text's examples); names whose
    // mapping is the tool's own choice ("tbc", numeric versions) are not used by the generator
    Some(match s.to_lowercase().as_str() {
        "vanilla" | "classic" => V::Vanilla,
        "wotlk" => V::Wotlk,
        "cata" | "cataclysm" => V::Cataclysm,
        "mop" => V::Mop,
        "wod" => V::Wod,
        "legion" => V::Legion,
        "bfa" => V::Bfa,
        "sl" | "shadowlands" => V::Shadowlands,
        "df" | "dragonflight" => V::Dragonflight,
        "latest" => V::Latest,
        _ => return None,
    })
}

pub fn eval_ask(ask: &Ask, path: &Path) -> Result<Value, String> {
    match ask {
        Ask::Produce { job, out } => produce(job, path, Path::new(out)),
        Ask::DbcDump { table } => dbc_dump(path, table.as_ref()),
        Ask::MpqRebuild { opts } => mpq_rebuild_lib(path, opts),
        Ask::MpqCompare { other, detailed, content_check, metadata_only, ignore_order, filter } => {
            let r = wow_mpq::compare_archives(path, Path::new(other), *detailed, *content_check, *metadata_only, *ignore_order, filter.clone()).map_err(es)?;
            Ok(json!({"identical": r.identical, "summary": {"identical_files": r.summary.identical_files, "different_files": r.summary.different_files, "source_only_count": r.summary.source_only_count, "target_only_count": r.summary.target_only_count}}))
        }
        Ask::MpqTables => mpq_tables_lib(path),
        Ask::MpqChainRead { others, names } => chain_read(path, others, names.as_deref()),
        Ask::WdtTiles { version } => wdt_tiles_lib(path, version),
    }
}

fn ask(a: Ask, path: &Path) -> Verdict {
    oracle::ask(&Entry::P3(a), path)
}

// ==========================================================================================
// conversion cases

#[derive(Clone, Debug, Serialize, Deserialize)]
pub struct ConvCase {
    pub job: Job,
    /// fixtures::base id of the input
    pub base: String,
    pub damage: Damage,
    /// what the output path holds before the run: 0 nothing; 1 a different result of the same
    /// size (the expected bytes with a stretch inverted); 2 a longer file; 3 a shorter one
    pub prefill: u8,
    /// command-line arrangement (0 = canonical)
    pub order: u16,
    /// 0 none, 1 -v, 2 -q, 3 -vv: what is written does not depend on how much is said
    #[serde(default)]
    pub verbosity: u8,
    /// blp convert only: the paths carry the neutral extension .dat and the formats are named with
    /// --input-format blp / --output-format <fmt> ("auto-detected from extension if not specified")
    #[serde(default)]
    pub explicit_format: bool,
}

fn cmdline(args: &[String]) -> String {
    format!("warcraft-rs {}", args.join(" "))
}

fn show(run: &RunOut) -> String {
    format!("{}; {}", run.status_str(), run.tail())
}

fn first_diff(a: &[u8], b: &[u8]) -> usize {
    a.iter().zip(b.iter()).position(|(x, y)| x != y).unwrap_or(a.len().min(b.len()))
}

fn stale_bytes(expected: Option<&[u8]>, mode: u8) -> Vec<u8> {
    let junk = |n: usize| -> Vec<u8> { (0..n).map(|i| 0x5Au8 ^ (i as u8).wrapping_mul(29)).collect() };
    match (expected, mode) {
        (Some(e), 1) if !e.is_empty() => {
            // "an earlier result of the same command": same size, same head, a stretch in the middle differs
            let mut v = e.to_vec();
            let n = v.len();
            let (a, b) = (n / 3, (n / 3 + 1 + n / 4).min(n));
            for x in &mut v[a..b] {
                *x = !*x;
            }
            v
        }
        (Some(e), 2) => {
            let mut v = e.to_vec();
            v.extend(junk(1 + e.len() % 7));
            v
        }
        (Some(e), 3) => e[..e.len() / 2].to_vec(),
        (None, _) => junk(64),
        (Some(e), _) => junk(e.len().max(1)),
    }
}

pub fn run_conv(check: &Check, c: &ConvCase) -> Result<(), Fail> {
    let sb = Sandbox::new();
    std::fs::create_dir_all(sb.path("exp")).ok();
    let job = &c.job;
    let cmd = job.cmd();
    let base = fixtures::base(&c.base).map_err(|e| Fail::new("harness:fixture-failed", format!("{}: {e}", c.base)))?;
    let explicit = c.explicit_format && matches!(job, Job::BlpToImage { .. } | Job::ImageToBlp { .. });
    let input = match (explicit, job) {
        (true, Job::BlpToImage { .. }) => "in/tex.dat",
        _ => job.input_rel(),
    };
    match c.damage.apply(&base) {
        Some(b) => sb.write(input, &b),
        None => {}
    }
    let out_rel = match (explicit, job) {
        (true, Job::BlpToImage { .. }) => "out/tex.dat".to_string(),
        (true, Job::ImageToBlp { .. }) => "out/img.dat".to_string(),
        _ => job.output_rel(),
    };
    let exp_rel = out_rel.replacen("out/", "exp/", 1);
    let lib = if matches!(c.damage, Damage::Missing) { Verdict::Rejects("file does not exist".into()) } else { ask(Ask::Produce { job: job.clone(), out: sb.path(&exp_rel).to_string_lossy().to_string() }, &sb.path(input)) };
    let expected: Option<Vec<u8>> = match &lib {
        Verdict::Ok(_) => sb.read(&exp_rel),
        _ => None,
    };
    let is_image_out = matches!(job, Job::BlpToImage { .. });
    // what was there before
    let stale: Option<Vec<u8>> = if c.prefill == 0 {
        None
    } else if is_image_out {
        // a decodable image of the same dimensions with other pixels cannot be built without the
        // encoder the tool uses; a stale file of another size stands in
        Some(stale_bytes(None, c.prefill))
    } else {
        Some(stale_bytes(expected.as_deref(), c.prefill))
    };
    if let Some(s) = &stale {
        sb.write(&out_rel, s);
    }
    let args = if explicit {
        let (w, _, mut g) = job.parts();
        match job {
            Job::BlpToImage { ext, .. } => {
                g.push(vec!["--input-format".to_string(), "blp".to_string()]);
                g.push(vec!["--output-format".to_string(), ext.clone()]);
            }
            _ => g.push(vec!["--output-format".to_string(), "blp".to_string()]),
        }
        g.extend(verbosity_group(c.verbosity));
        arrange(&w, &[input.to_string(), out_rel.clone()], &g, c.order)
    } else {
        job.args(c.order, c.verbosity)
    };
    let run = sb.run(&args);
    let exit0 = run.ok();
    let lib_s = match &lib {
        Verdict::Ok(_) => "ok",
        Verdict::Rejects(_) => "err",
        Verdict::Crashed(_) => "crash",
    };
    let fam = c.base.split(':').next().unwrap_or("");
    let class = format!("p3:conv:{}:{fam}:{}:{}:stale{}:ord{}:v{}:x{}:lib-{lib_s}:exit{}", job.kind(), job.describe(), c.damage.kind(), c.prefill, (c.order != 0) as u8, c.verbosity % 4, explicit as u8, if exit0 { "0" } else { "nz" });
    let judged = exit0 && expected.is_some();
    check.count(&class, judged);
    check.sample(&format!("p3:conv:{}:{}", job.kind(), c.damage.kind()), || json!({"part": "conv", "case": c, "library": lib_s, "exit0": exit0}));
    let ctx = || format!("`{}` on {} ({}) → {}", cmdline(&args), c.base, c.damage.kind(), show(&run));
    let mut fails = vec![];
    if exit0 {
        match &lib {
            Verdict::Rejects(e) => {
                let sig = if matches!(c.damage, Damage::Missing) { format!("exit0-on-nonexistent-input:{cmd}") } else { format!("exit0-on-rejected-input:{cmd}") };
                fails.push(Fail::new(sig, format!("{} — the library's own conversion of the same bytes with the same options returns Err({})", ctx(), vcheck::engine::truncate(e, 200))));
            }
            Verdict::Crashed(h) => fails.push(Fail::new(format!("exit0-on-input-crashing-library:{cmd}"), format!("{} — the library's own conversion died: {h}", ctx()))),
            Verdict::Ok(info) => {
                check.bump(&format!("p3:judged:{}", job.kind()), 1);
                if matches!(c.damage, Damage::None) {
                    check.bump(&format!("p3:judged-valid:{}", job.kind()), 1);
                }
                if c.prefill == 1 && !is_image_out {
                    check.bump("p3:over-same-size-result", 1);
                }
                if explicit {
                    check.bump("p3:judged:blp:convert:explicit-format", 1);
                }
                match (sb.read(&out_rel), &expected) {
                    (None, _) => fails.push(Fail::new(format!("exit0-without-output:{cmd}"), format!("{} — {out_rel} was not written", ctx()))),
                    (Some(got), Some(exp)) => {
                        if is_image_out {
                            let fmt = match job {
                                Job::BlpToImage { ext, .. } if ext == "bmp" => image::ImageFormat::Bmp,
                                Job::BlpToImage { ext, .. } if ext == "tga" => image::ImageFormat::Tga,
                                _ => image::ImageFormat::Png,
                            };
                            match image::load_from_memory_with_format(&got, fmt).map_err(es) {
                                Err(e) => {
                                    let sig = if stale.as_deref() == Some(&got[..]) { format!("stale-output-left-in-place:{cmd}") } else { format!("exit0-with-unparseable-output:{cmd}") };
                                    fails.push(Fail::new(sig, format!("{} — {out_rel} does not decode: {e}", ctx())));
                                }
                                Ok(img) => {
                                    let px = pixel_dump(&img);
                                    if &px != exp {
                                        let (gw, gh) = (img.width(), img.height());
                                        fails.push(Fail::new(
                                            format!("output-differs-from-library:{cmd}:to-image"),
                                            format!("{} — {out_rel} decodes to {gw}x{gh}, blp_to_image gives {}x{} ({}); first differing byte of the RGBA dump at {}", ctx(), info["w"], info["h"], info["color"], first_diff(&px, exp)),
                                        ));
                                    }
                                }
                            }
                        } else if &got != exp {
                            let sig = if stale.as_deref() == Some(&got[..]) { format!("stale-output-left-in-place:{cmd}") } else { format!("output-differs-from-library:{cmd}") };
                            fails.push(Fail::new(
                                sig,
                                format!("{} — {out_rel} has {} bytes, the library's conversion + writer give {} bytes; first difference at offset {} ({})", ctx(), got.len(), exp.len(), first_diff(&got, exp), info),
                            ));
                        }
                        // BLP0: external mip levels next to the output
                        if let Some(n) = info["external_mipmaps"].as_u64() {
                            for k in 0..n as usize {
                                let rel = |dir: &str| format!("{dir}/img.b{k:02}");
                                let (g, e) = (sb.read(&rel("out")), sb.read(&rel("exp")));
                                if g != e {
                                    fails.push(Fail::new(
                                        format!("output-differs-from-library:{cmd}:external-mipmap"),
                                        format!("{} — {} {} the library's level ({} bytes)", ctx(), rel("out"), if g.is_none() { "was not written; expected" } else { "differs from" }, e.map(|x| x.len()).unwrap_or(0)),
                                    ));
                                    break;
                                }
                            }
                        }
                    }
                    (Some(_), None) => {}
                }
            }
        }
    } else if matches!(lib, Verdict::Ok(_)) {
        check.bump(&format!("p3:cli-refuses-what-library-converts:{}", job.kind()), 1);
        if std::env::var("C20_P3_DEBUG").is_ok() {
            eprintln!("[p3 debug] {}", ctx());
        }
    }
    crate::settle(check, fails)
}

// ------------------------------------------------------------------------------------------
// conversion grid and strategy

const M2_VERSIONS: [&str; 17] = ["vanilla", "classic", "tbc", "wotlk", "cata", "mop", "wod", "legion", "bfa", "sl", "df", "tww", "3.3.5a", "1.12.1", "MoP", "WotLK", "4.3.4"];
const WMO_VERSIONS: [&str; 13] = ["classic", "tbc", "wotlk", "cata", "Cataclysm", "mop", "wod", "legion", "bfa", "sl", "df", "tww", "WotLK"];
const ADT_VERSIONS: [&str; 9] = ["classic", "vanilla", "vanilla_early", "tbc", "wotlk", "cataclysm", "cata", "mop", "WotLK"];
const WDT_VERSIONS: [&str; 10] = ["classic", "tbc", "wotlk", "cata", "mop", "wod", "legion", "bfa", "1.12.1", "3.3.5a"];
const WDL_VERSIONS: [&str; 11] = ["vanilla", "classic", "wotlk", "cata", "mop", "wod", "legion", "bfa", "sl", "df", "latest"];
const INVALID_VERSION: &str = "no-such-expansion";

const M2_BASES: [&str; 8] = ["m2:vanilla", "m2:tbc", "m2:wotlk", "m2:cata", "m2s:vanilla:7:1", "m2s:tbc:12:2", "m2s:wotlk:30:3", "m2s:cata:5:4"];
const SKIN_BASES: [&str; 5] = ["skin:old", "skin:new", "skins:old:12:1", "skins:new:30:2", "skins:new:9:3"];
const ANIM_BASES: [&str; 5] = ["anim:modern", "anim:legacy", "anims:modern:3:1", "anims:legacy:2:2", "anims:modern:6:3"];
const WMO_BASES: [&str; 6] = ["wmo:root-wotlk", "wmo:root-mop", "wmo:root-classic", "wmos:wotlk:1", "wmos:classic:2", "wmos:cata:3"];
const ADT_BASES: [&str; 7] = ["adt:vanilla-early", "adt:vanilla-late", "adt:wotlk", "adts:tbc:1", "adts:wotlk:2", "adts:cata:3", "adts:mop:4"];
const WDT_BASES: [(&str, &str); 8] = [
    ("wdt:terrain-wotlk", "wotlk"),
    ("wdt:wmo-wotlk", "wotlk"),
    ("wdt:terrain-cata", "cata"),
    ("wdts:classic:terrain:1", "classic"),
    ("wdts:tbc:wmo:2", "tbc"),
    ("wdts:wotlk:terrain:3", "wotlk"),
    ("wdts:cata:wmo:4", "cata"),
    ("wdts:mop:terrain:5", "mop"),
];
const WDL_BASES: [(&str, &str); 7] = [("wdl:wotlk", "wotlk"), ("wdl:vanilla", "vanilla"), ("wdl:legion", "legion"), ("wdls:vanilla:1", "vanilla"), ("wdls:wotlk:2", "wotlk"), ("wdls:mop:3", "mop"), ("wdls:legion:4", "legion")];
const BLP_BASES: [&str; 20] = [
    "blp:test_simple_without_alpha.blp",
    "blp:test_rect_with_alpha.blp",
    "blp:test_rect_without_alpha.blp",
    "blp:test_simple_jpg.blp",
    "blp:test_simple_with_alpha.blp",
    "blp:raw3",
    "blp:dxt5:12x20:mips",
    "blp:dxt1:24x12",
    "blps:blp1-jpeg:16x16:mips:1",
    "blps:blp1-jpeg-a:8x16:mips:2",
    "blps:blp1-raw1-a0:16x8:mips:3",
    "blps:blp1-raw1-a8:16x16:nomips:4",
    "blps:blp2-raw1-a1:16x16:mips:5",
    "blps:blp2-raw1-a4:8x8:mips:6",
    "blps:blp2-raw3:16x4:mips:7",
    "blps:blp2-jpeg:16x16:mips:8",
    "blps:blp2-dxt1:16x16:mips:9",
    "blps:blp2-dxt1-a:32x16:mips:10",
    "blps:blp2-dxt3:16x16:mips:11",
    "blps:blp2-dxt5:16x32:nomips:12",
];
const PNG_BASES: [&str; 9] = ["png:small", "png:rgba8", "png:rgb16", "pngs:16x16:rgb:1", "pngs:16x8:rgba:2", "pngs:8x8:luma:3", "pngs:4x16:lumaa:4", "pngs:16x16:rgba16:5", "pngs:12x20:rgba:6"];
const BLP_TARGETS: [(&str, &str); 10] = [("blp0", "raw1"), ("blp0", "jpeg"), ("blp1", "raw1"), ("blp1", "jpeg"), ("blp2", "raw1"), ("blp2", "raw3"), ("blp2", "jpeg"), ("blp2", "dxt1"), ("blp2", "dxt3"), ("blp2", "dxt5")];
const FILTERS: [&str; 5] = ["nearest", "triangle", "catmull-rom", "gaussian", "lanczos3"];
const DXTS: [&str; 3] = ["fastest", "medium", "finest"];
const IMG_EXTS: [&str; 3] = ["png", "bmp", "tga"];

fn valid_alpha(format: &str) -> &'static [u8] {
    match format {
        "raw1" | "raw3" => &[0, 1, 4, 8],
        "dxt1" => &[0, 1],
        _ => &[0, 8],
    }
}

/// every job family × every base × every version name (quick: a slice of it per seed-free rule)
pub fn conv_grid(thorough: bool) -> Vec<ConvCase> {
    let mut v: Vec<ConvCase> = vec![];
    let mut k = 0usize;
    let mut push = |v: &mut Vec<ConvCase>, job: Job, base: &str| {
        k += 1;
        // prefill and arrangement cycle independently of the other dimensions
        v.push(ConvCase { job, base: base.to_string(), damage: Damage::None, prefill: (k % 4) as u8, order: if k % 3 == 0 { (k % 251) as u16 + 1 } else { 0 }, verbosity: if k % 5 < 2 { 0 } else { (k % 5 - 1) as u8 }, explicit_format: k % 7 == 3 });
    };
    let s = |x: &str| x.to_string();
    let keep = |i: usize, j: usize, bases: usize| thorough || (i + j) % bases.max(1) == 0 || j == i % 3;
    for (i, b) in M2_BASES.iter().enumerate() {
        for (j, ver) in M2_VERSIONS.iter().chain([INVALID_VERSION].iter()).enumerate() {
            if keep(i, j, M2_BASES.len() / 2) {
                push(&mut v, Job::M2Convert { version: s(ver) }, b);
            }
        }
    }
    for (i, b) in SKIN_BASES.iter().enumerate() {
        for (j, ver) in M2_VERSIONS.iter().chain([INVALID_VERSION].iter()).enumerate() {
            if keep(i, j, 3) {
                push(&mut v, Job::SkinConvert { version: s(ver) }, b);
            }
        }
    }
    for (i, b) in ANIM_BASES.iter().enumerate() {
        for (j, ver) in M2_VERSIONS.iter().chain([INVALID_VERSION].iter()).enumerate() {
            if keep(i, j, 3) {
                push(&mut v, Job::AnimConvert { version: s(ver) }, b);
            }
        }
    }
    for (i, b) in WMO_BASES.iter().chain(["wmo:group"].iter()).enumerate() {
        for (j, ver) in WMO_VERSIONS.iter().chain([INVALID_VERSION].iter()).enumerate() {
            if keep(i, j, 3) {
                push(&mut v, Job::WmoConvert { version: s(ver) }, b);
            }
        }
    }
    for (i, b) in ADT_BASES.iter().enumerate() {
        for (j, ver) in ADT_VERSIONS.iter().chain([INVALID_VERSION].iter()).enumerate() {
            if keep(i, j, 3) {
                push(&mut v, Job::AdtConvert { to: s(ver) }, b);
            }
        }
    }
    for (i, (b, own)) in WDT_BASES.iter().enumerate() {
        for (j, to) in WDT_VERSIONS.iter().chain([INVALID_VERSION].iter()).enumerate() {
            if keep(i, j, 4) {
                push(&mut v, Job::WdtConvert { from: s(own), to: s(to) }, b);
            }
        }
        // read under another version than the one the file was written for
        for (j, from) in WDT_VERSIONS.iter().enumerate() {
            if thorough || j % 4 == i % 4 {
                push(&mut v, Job::WdtConvert { from: s(from), to: s(WDT_VERSIONS[(i + j) % WDT_VERSIONS.len()]) }, b);
            }
        }
    }
    for (i, (b, own)) in WDL_BASES.iter().enumerate() {
        for (j, to) in WDL_VERSIONS.iter().chain([INVALID_VERSION].iter()).enumerate() {
            if keep(i, j, 4) {
                push(&mut v, Job::WdlConvert { from: if (i + j) % 2 == 0 { None } else { Some(s(own)) }, to: s(to) }, b);
            }
        }
    }
    for (i, b) in BLP_BASES.iter().enumerate() {
        for (j, level) in [0u32, 1, 2, 3, 40].iter().enumerate() {
            for (e, ext) in IMG_EXTS.iter().enumerate() {
                if thorough || (i + j + e) % 3 == 0 {
                    push(&mut v, Job::BlpToImage { level: *level, ext: s(ext) }, b);
                }
            }
        }
    }
    for (i, b) in PNG_BASES.iter().enumerate() {
        for (j, (ver, fmt)) in BLP_TARGETS.iter().enumerate() {
            // auto alpha, default options
            if thorough || (i + j) % 2 == 0 {
                push(&mut v, Job::ImageToBlp { opts: BlpOpts { version: s(ver), format: s(fmt), alpha_bits: None, no_mipmaps: false, filter: None, dxt: None } }, b);
            }
            // explicit alpha bits (valid ones), mip options, filters, dxt quality
            for (a, bits) in valid_alpha(fmt).iter().enumerate() {
                if thorough || (i + j + a) % 5 == 0 {
                    let filter = if (i + a) % 2 == 0 { Some(s(FILTERS[(i + j + a) % FILTERS.len()])) } else { None };
                    let dxt = if fmt.starts_with("dxt") && (j + a) % 2 == 0 { Some(s(DXTS[(i + a) % DXTS.len()])) } else { None };
                    push(&mut v, Job::ImageToBlp { opts: BlpOpts { version: s(ver), format: s(fmt), alpha_bits: Some(*bits), no_mipmaps: (i + j + a) % 3 == 0, filter, dxt } }, b);
                }
            }
        }
        // combinations no BLP can represent: the conversion must fail
        for (ver, fmt, bits) in [("blp1", "dxt1", None), ("blp0", "raw3", None), ("blp2", "jpeg", Some(4u8)), ("blp2", "dxt1", Some(8))] {
            if thorough || i % 3 == 0 {
                push(&mut v, Job::ImageToBlp { opts: BlpOpts { version: s(ver), format: s(fmt), alpha_bits: bits, no_mipmaps: false, filter: None, dxt: None } }, b);
            }
        }
    }
    v
}

pub fn conv_strategy() -> impl proptest::strategy::Strategy<Value = ConvCase> + use<> {
    use proptest::prelude::*;
    let grid = conv_grid(true);
    (any::<u16>(), prop_oneof![2 => Just(Damage::None), 5 => crate::damage::damage_strategy()], 0u8..4, prop_oneof![1 => Just(0u16), 1 => any::<u16>()], prop_oneof![2 => Just(0u8), 1 => 1u8..4]).prop_map(move |(gi, damage, prefill, order, verbosity)| {
        let mut c = grid[pick_idx(gi, grid.len())].clone();
        c.damage = damage;
        c.prefill = prefill;
        c.order = order;
        c.verbosity = verbosity;
        c.explicit_format = gi % 5 == 0;
        c
    })
}

pub const CONV_KINDS: [&str; 9] = ["m2:convert", "m2:skin-convert", "m2:anim-convert", "wmo:convert", "adt:convert", "wdt:convert", "wdl:convert", "blp:convert:to-image", "blp:convert:to-blp"];

// ==========================================================================================
// dbc: export / list / info / discover / analyze against the library's parsed records

#[derive(Clone, Debug, PartialEq, Eq, Serialize, Deserialize)]
pub struct FieldSpec {
    /// index into DBC_TYPES
    pub ty: u8,
    /// 0 = scalar, otherwise the element count of an array field
    pub array: u8,
}

pub const DBC_TYPES: [(&str, usize); 9] = [("UInt32", 4), ("Int32", 4), ("Float32", 4), ("String", 4), ("Bool", 4), ("UInt8", 1), ("Int8", 1), ("UInt16", 2), ("Int16", 2)];

#[derive(Clone, Debug, PartialEq, Eq, Serialize, Deserialize)]
pub struct DbcTable {
    pub fields: Vec<FieldSpec>,
    pub rows: u16,
    pub seed: u32,
    /// first field is a UInt32 key named ID
    pub key: bool,
}

const STRING_POOL: [&str; 12] = ["", "Alpha", "with space", "comma, inside", "quote\"inside", "semi;colon", "back\\slash", "Ünïcode", "0", "-1.5", " lead", "trail "];

impl DbcTable {
    pub fn names(&self) -> Vec<String> {
        self.fields
            .iter()
            .enumerate()
            .map(|(i, f)| if i == 0 && self.key { "ID".to_string() } else { format!("F{i}_{}", DBC_TYPES[f.ty as usize % DBC_TYPES.len()].0) })
            .collect()
    }
    fn norm(&self) -> Vec<FieldSpec> {
        let mut v: Vec<FieldSpec> = self.fields.iter().map(|f| FieldSpec { ty: f.ty % DBC_TYPES.len() as u8, array: f.array.min(4) }).collect();
        if v.is_empty() {
            v.push(FieldSpec { ty: 0, array: 0 });
        }
        if self.key {
            v[0] = FieldSpec { ty: 0, array: 0 };
        }
        v
    }
    pub fn yaml(&self) -> String {
        let mut y = String::from("name: Gen\n");
        if self.key {
            y.push_str("key_field: ID\n");
        }
        y.push_str("fields:\n");
        for (f, n) in self.norm().iter().zip(self.names()) {
            y.push_str(&format!("  - name: {n}\n    type_name: {}\n", DBC_TYPES[f.ty as usize].0));
            if f.array > 0 {
                y.push_str(&format!("    is_array: true\n    array_size: {}\n", f.array));
            }
        }
        y
    }
    pub fn schema(&self) -> wow_cdbc::Schema {
        use wow_cdbc::{FieldType as T, Schema, SchemaField};
        let mut s = Schema::new("Gen");
        for (f, n) in self.norm().iter().zip(self.names()) {
            let t = [T::UInt32, T::Int32, T::Float32, T::String, T::Bool, T::UInt8, T::Int8, T::UInt16, T::Int16][f.ty as usize];
            s.add_field(if f.array > 0 { SchemaField::new_array(n, t, f.array as usize) } else { SchemaField::new(n, t) });
        }
        if self.key {
            s.set_key_field("ID");
        }
        s
    }
    /// WDBC bytes: header, records (fields packed in schema order), string block
    pub fn bytes(&self) -> Vec<u8> {
        let fields = self.norm();
        let mut s = (self.seed as u64).wrapping_mul(0x9E37_79B9_7F4A_7C15) ^ 0x1234_5678_9ABC_DEF1;
        let mut r = move || {
            s = s.wrapping_mul(6364136223846793005).wrapping_add(1442695040888963407);
            (s >> 33) as u32
        };
        let mut block = vec![0u8];
        let mut offs = vec![0u32];
        for st in STRING_POOL.iter().skip(1) {
            offs.push(block.len() as u32);
            block.extend(st.as_bytes());
            block.push(0);
        }
        let floats = [0.0f32, -0.0, 1.5, -2.25, 3.1415927, 1.0e-7, 1.0e10, 123456.79, 0.1, -7.0e-3, 16777216.0];
        let mut recs = Vec::new();
        for row in 0..self.rows as u32 {
            for (i, f) in fields.iter().enumerate() {
                for _ in 0..f.array.max(1) {
                    match f.ty {
                        0 => {
                            let v = if i == 0 && self.key { 1 + row * 3 } else { [r() % 10, r() % 100000, r(), u32::MAX - r() % 3][(r() % 4) as usize] };
                            recs.extend(v.to_le_bytes());
                        }
                        1 => recs.extend((([r() % 10, r() % 100000, r(), 0x8000_0000 + r() % 3][(r() % 4) as usize]) as i32).to_le_bytes()),
                        2 => {
                            let v = if r() % 3 == 0 { (r() % 4096) as f32 / 16.0 - 128.0 } else { floats[(r() as usize) % floats.len()] };
                            recs.extend(v.to_le_bytes());
                        }
                        3 => recs.extend(offs[(r() as usize) % offs.len()].to_le_bytes()),
                        4 => recs.extend((r() % 2).to_le_bytes()),
                        5 | 6 => recs.push((r() & 0xFF) as u8),
                        _ => recs.extend(((r() & 0xFFFF) as u16).to_le_bytes()),
                    }
                }
            }
        }
        let record_size: usize = fields.iter().map(|f| DBC_TYPES[f.ty as usize].1 * f.array.max(1) as usize).sum();
        let field_count: usize = if fields.iter().any(|f| f.array > 0) { fields.iter().map(|f| f.array.max(1) as usize).sum() } else { fields.len() };
        let mut d = b"WDBC".to_vec();
        for v in [self.rows as u32, field_count as u32, record_size as u32, block.len() as u32] {
            d.extend(v.to_le_bytes());
        }
        d.extend(recs);
        d.extend(block);
        d
    }
    fn shape(&self) -> String {
        let f = self.norm();
        let mut tys: BTreeSet<&str> = BTreeSet::new();
        for x in &f {
            tys.insert(DBC_TYPES[x.ty as usize].0);
        }
        format!("rows{}:f{}:arr{}:key{}:{}", match self.rows { 0 => "0", 1 => "1", 2..=9 => "few", _ => "many" }, f.len().min(6), f.iter().any(|x| x.array > 0) as u8, self.key as u8, tys.into_iter().collect::<Vec<_>>().join("+"))
    }
}

#[derive(Clone, Debug, PartialEq, Eq, Serialize, Deserialize)]
pub enum DbcOp {
    ExportJson { to_file: bool },
    ExportCsv { to_file: bool },
    List { limit: u16, schema: bool },
    Info,
    /// -o: also write the schema file; yaml: -y
    Discover { output: bool, yaml: bool },
    Analyze { schema: bool },
}

#[derive(Clone, Debug, Serialize, Deserialize)]
pub struct DbcCase {
    pub table: DbcTable,
    pub op: DbcOp,
    /// the -o target already holds an earlier export of the same size with other values
    pub prefill: u8,
    pub order: u16,
}

fn dump_value(v: &wow_cdbc::Value, rs: &wow_cdbc::RecordSet) -> Value {
    use wow_cdbc::Value as V;
    match v {
        V::UInt32(x) => json!({"u": x}),
        V::Int32(x) => json!({"i": x}),
        V::Float32(x) => json!({"f": x.to_bits()}),
        V::StringRef(r) => match rs.get_string(*r) {
            Ok(s) => json!({"s": s}),
            Err(_) => json!({"bad": r.offset()}),
        },
        V::Bool(x) => json!({"b": x}),
        V::UInt8(x) => json!({"u": x, "narrow": 8}),
        V::Int8(x) => json!({"i": x, "narrow": 8}),
        V::UInt16(x) => json!({"u": x, "narrow": 16}),
        V::Int16(x) => json!({"i": x, "narrow": 16}),
        V::Array(a) => json!({"a": a.iter().map(|x| dump_value(x, rs)).collect::<Vec<_>>()}),
    }
}

fn dbc_dump(path: &Path, table: Option<&DbcTable>) -> Result<Value, String> {
    let mut r = std::io::BufReader::new(std::fs::File::open(path).map_err(es)?);
    let p = wow_cdbc::DbcParser::parse(&mut r).map_err(es)?;
    let h = p.header();
    let header = json!({"record_count": h.record_count, "field_count": h.field_count, "record_size": h.record_size, "string_block_size": h.string_block_size});
    let p = match table {
        Some(t) => p.with_schema(t.schema()).map_err(es)?,
        None => p,
    };
    let rs = p.parse_records().map_err(es)?;
    let mut recs = vec![];
    for rec in rs.records() {
        recs.push(Value::Array(rec.values().iter().map(|v| dump_value(v, &rs)).collect()));
    }
    Ok(json!({"header": header, "len": rs.len(), "records": recs}))
}

/// minimal RFC 4180 reader (quoted fields, doubled quotes, CRLF or LF)
pub fn read_csv(text: &str) -> Result<Vec<Vec<String>>, String> {
    let mut rows = vec![];
    let mut row: Vec<String> = vec![];
    let mut cell = String::new();
    let mut in_q = false;
    let mut any = false;
    let mut it = text.chars().peekable();
    while let Some(c) = it.next() {
        any = true;
        if in_q {
            if c == '"' {
                if it.peek() == Some(&'"') {
                    cell.push('"');
                    it.next();
                } else {
                    in_q = false;
                }
            } else {
                cell.push(c);
            }
        } else {
            match c {
                '"' if cell.is_empty() => in_q = true,
                ',' => row.push(std::mem::take(&mut cell)),
                '\r' if it.peek() == Some(&'\n') => {}
                '\n' => {
                    row.push(std::mem::take(&mut cell));
                    rows.push(std::mem::take(&mut row));
                    any = false;
                }
                c => cell.push(c),
            }
        }
    }
    if in_q {
        return Err("unterminated quoted field".into());
    }
    if any {
        row.push(cell);
        rows.push(row);
    }
    Ok(rows)
}

fn f32_of(bits: &Value) -> f32 {
    f32::from_bits(bits.as_u64().unwrap_or(0) as u32)
}

/// does a JSON export value state the library's value?
fn json_matches(got: &Value, want: &Value) -> bool {
    if let Some(u) = want.get("u") {
        return got.as_u64().is_some() && got.as_u64() == u.as_u64();
    }
    if let Some(i) = want.get("i") {
        return got.as_i64().is_some() && got.as_i64() == i.as_i64();
    }
    if let Some(f) = want.get("f") {
        let w = f32_of(f);
        return match got.as_f64() {
            Some(g) => (g as f32).to_bits() == w.to_bits() || (g as f32 == w && w == 0.0 && g.is_sign_negative() == w.is_sign_negative()),
            None => false,
        };
    }
    if let Some(s) = want.get("s") {
        return got.as_str().is_some() && got.as_str() == s.as_str();
    }
    if let Some(b) = want.get("b") {
        return got.as_bool().is_some() && got.as_bool() == b.as_bool();
    }
    if let Some(a) = want.get("a").and_then(|a| a.as_array()) {
        return match got.as_array() {
            Some(g) => g.len() == a.len() && g.iter().zip(a).all(|(x, y)| json_matches(x, y)),
            None => false,
        };
    }
    false
}

/// does a CSV cell state the library's value? (arrays: elements joined with '|')
fn csv_matches(got: &str, want: &Value) -> bool {
    if let Some(u) = want.get("u") {
        return got.parse::<u64>().ok() == u.as_u64();
    }
    if let Some(i) = want.get("i") {
        return got.parse::<i64>().ok() == i.as_i64();
    }
    if let Some(f) = want.get("f") {
        return got.parse::<f32>().map(|g| g.to_bits() == f32_of(f).to_bits()).unwrap_or(false);
    }
    if let Some(s) = want.get("s") {
        return Some(got) == s.as_str();
    }
    if let Some(b) = want.get("b") {
        return got.parse::<bool>().ok() == b.as_bool();
    }
    if let Some(a) = want.get("a").and_then(|a| a.as_array()) {
        let parts: Vec<&str> = got.split('|').collect();
        return parts.len() == a.len() && parts.iter().zip(a).all(|(x, y)| csv_matches(x, y));
    }
    false
}

/// the text `dbc list` prints for a value (None = wording not fixed by any documentation)
fn list_text(want: &Value) -> Option<String> {
    if let Some(u) = want.get("u") {
        return Some(u.to_string());
    }
    if let Some(i) = want.get("i") {
        return Some(i.to_string());
    }
    if let Some(f) = want.get("f") {
        return Some(format!("{:.4}", f32_of(f)));
    }
    if let Some(s) = want.get("s") {
        return Some(format!("\"{}\"", s.as_str().unwrap_or("")));
    }
    if let Some(b) = want.get("b") {
        return Some(b.to_string());
    }
    if let Some(a) = want.get("a").and_then(|a| a.as_array()) {
        let mut parts = vec![];
        for x in a {
            // --help does not say how elements of other types are printed
            if x.get("narrow").is_none() && (x.get("u").is_some() || x.get("i").is_some() || x.get("f").is_some()) {
                parts.push(list_text(x)?);
            } else {
                return None;
            }
        }
        return Some(format!("[{}]", parts.join(", ")));
    }
    None
}

fn labelled_u64(stdout: &str, label: &str) -> Option<u64> {
    for l in stdout.lines() {
        if let Some(r) = l.trim().strip_prefix(label) {
            let t = r.trim();
            let digits: String = t.chars().take_while(|c| c.is_ascii_digit()).collect();
            if !digits.is_empty() {
                return digits.parse().ok();
            }
        }
    }
    None
}

/// blocks of `dbc list`: record index → (label → text)
fn parse_list(stdout: &str) -> BTreeMap<usize, Vec<(String, String)>> {
    let mut m: BTreeMap<usize, Vec<(String, String)>> = BTreeMap::new();
    let mut cur: Option<usize> = None;
    for l in stdout.lines() {
        if let Some(r) = l.strip_prefix("Record ") {
            if let Some(n) = r.strip_suffix(':').and_then(|x| x.parse::<usize>().ok()) {
                cur = Some(n);
                m.entry(n).or_default();
                continue;
            }
        }
        if l.trim().is_empty() {
            cur = None;
            continue;
        }
        if let (Some(n), Some(body)) = (cur, l.strip_prefix("  ")) {
            if let Some((k, v)) = body.split_once(": ") {
                m.get_mut(&n).unwrap().push((k.to_string(), v.to_string()));
            } else if let Some(k) = body.strip_suffix(':') {
                m.get_mut(&n).unwrap().push((k.to_string(), String::new()));
            }
        }
    }
    m
}

fn schema_field_lines(text: &str) -> Option<Vec<String>> {
    // the lines of the last "Fields:" section: "  name: Type" (the key marker is not part of the field)
    let idx = text.rfind("Fields:\n")?;
    let mut v = vec![];
    for l in text[idx + "Fields:\n".len()..].lines() {
        if l.starts_with("    ") {
            continue;
        }
        let Some(b) = l.strip_prefix("  ") else { break };
        if b.trim().is_empty() {
            break;
        }
        v.push(b.trim_end().trim_end_matches(" (Key field)").to_string());
    }
    Some(v)
}

pub fn run_dbc(check: &Check, c: &DbcCase) -> Result<(), Fail> {
    let sb = Sandbox::new();
    let t = &c.table;
    sb.write("in/Gen.dbc", &t.bytes());
    sb.write("in/schema.yaml", t.yaml().as_bytes());
    let s = |x: &str| x.to_string();
    let (sub, pos, mut groups, with_schema, out): (&str, Vec<String>, Vec<Vec<String>>, bool, Option<&str>) = match &c.op {
        DbcOp::ExportJson { to_file } => ("export", vec![s("in/Gen.dbc")], vec![vec![s("-s"), s("in/schema.yaml")], vec![s("-f"), s("json")]], true, to_file.then_some("out/t.json")),
        DbcOp::ExportCsv { to_file } => ("export", vec![s("in/Gen.dbc")], vec![vec![s("-s"), s("in/schema.yaml")], vec![s("-f"), s("csv")]], true, to_file.then_some("out/t.csv")),
        DbcOp::List { limit, schema } => ("list", vec![s("in/Gen.dbc")], if *schema { vec![vec![s("-s"), s("in/schema.yaml")], vec![s("-l"), limit.to_string()]] } else { vec![vec![s("-l"), limit.to_string()]] }, *schema, None),
        DbcOp::Info => ("info", vec![s("in/Gen.dbc")], vec![], false, None),
        DbcOp::Discover { output, yaml } => ("discover", vec![s("in/Gen.dbc")], if *yaml { vec![vec![s("-m"), s("0")], vec![s("-y")]] } else { vec![vec![s("-m"), s("0")]] }, false, output.then_some(if *yaml { "out/schema.yaml" } else { "out/schema.txt" })),
        DbcOp::Analyze { schema } => ("analyze", vec![s("in/Gen.dbc")], if *schema { vec![vec![s("-s"), s("in/schema.yaml")]] } else { vec![] }, *schema, None),
    };
    if let Some(o) = out {
        groups.push(vec![s("-o"), s(o)]);
    }
    let cmd = format!("dbc:{sub}");
    let args = arrange(&[s("dbc"), s(sub)], &pos, &groups, c.order);
    let lib = ask(Ask::DbcDump { table: with_schema.then(|| t.clone()) }, &sb.path("in/Gen.dbc"));
    let lib_s = match &lib {
        Verdict::Ok(_) => "ok",
        Verdict::Rejects(_) => "err",
        Verdict::Crashed(_) => "crash",
    };
    // an earlier export of the same size: the tool's own output for the same table with one digit changed
    let mut stale: Option<Vec<u8>> = None;
    if let (Some(o), true) = (out, c.prefill != 0) {
        let first = sb.run(&args);
        if first.ok() {
            if let Some(mut b) = sb.read(o) {
                if c.prefill == 1 {
                    for x in b.iter_mut() {
                        if x.is_ascii_digit() {
                            *x = b'0' + (*x - b'0' + 1) % 10;
                        }
                    }
                } else if c.prefill == 2 {
                    b.extend(b"\n[\"left over\"]\n");
                } else {
                    b.truncate(b.len() / 2);
                }
                sb.write(o, &b);
                stale = Some(b);
            }
        }
    }
    let run = sb.run(&args);
    let exit0 = run.ok();
    let opk = match &c.op {
        DbcOp::ExportJson { to_file } => format!("export-json:{}", if *to_file { "file" } else { "stdout" }),
        DbcOp::ExportCsv { to_file } => format!("export-csv:{}", if *to_file { "file" } else { "stdout" }),
        DbcOp::List { limit, schema } => format!("list:limit{}:schema{}", if *limit as u32 >= t.rows as u32 { "≥rows" } else { "<rows" }, *schema as u8),
        DbcOp::Info => "info".into(),
        DbcOp::Discover { output, yaml } => format!("discover:o{}:y{}", *output as u8, *yaml as u8),
        DbcOp::Analyze { schema } => format!("analyze:schema{}", *schema as u8),
    };
    let class = format!("p3:dbc:{opk}:{}:stale{}:ord{}:lib-{lib_s}:exit{}", t.shape(), if stale.is_some() { c.prefill } else { 0 }, (c.order != 0) as u8, if exit0 { "0" } else { "nz" });
    let judged = exit0 && matches!(lib, Verdict::Ok(_));
    check.count(&class, judged);
    check.sample(&format!("p3:dbc:{opk}"), || json!({"part": "dbc", "case": c, "library": lib_s, "exit0": exit0}));
    let ctx = || format!("`{}` on a generated table ({}) → {}", cmdline(&args), t.shape(), show(&run));
    let mut fails: Vec<Fail> = vec![];
    let info = match (&lib, exit0) {
        (Verdict::Ok(i), true) => i.clone(),
        (Verdict::Rejects(e), true) => {
            fails.push(Fail::new(format!("exit0-on-rejected-input:{cmd}"), format!("{} — the library's parse (+schema) of the same table returns Err({})", ctx(), vcheck::engine::truncate(e, 200))));
            return crate::settle(check, fails);
        }
        (Verdict::Crashed(h), true) => {
            fails.push(Fail::new(format!("exit0-on-input-crashing-library:{cmd}"), format!("{} — the library died: {h}", ctx())));
            return crate::settle(check, fails);
        }
        (Verdict::Ok(_), false) => {
            check.bump(&format!("p3:cli-refuses-what-library-reads:{cmd}"), 1);
            if std::env::var("C20_P3_DEBUG").is_ok() {
                eprintln!("[p3 debug] {}", ctx());
            }
            return Ok(());
        }
        _ => return Ok(()),
    };
    check.bump(&format!("p3:judged:{cmd}"), 1);
    if stale.is_some() && c.prefill == 1 {
        check.bump("p3:over-same-size-result", 1);
    }
    let recs = info["records"].as_array().cloned().unwrap_or_default();
    let names = t.names();
    let hdr = &info["header"];
    let mut fail = |what: &str, msg: String| fails.push(Fail::new(format!("{what}:{cmd}"), format!("{} — {msg}", ctx())));
    match &c.op {
        DbcOp::ExportJson { .. } | DbcOp::ExportCsv { .. } => {
            let text: Option<String> = match out {
                Some(o) => sb.read(o).map(|b| String::from_utf8_lossy(&b).to_string()),
                None => Some(run.stdout.clone()),
            };
            let Some(text) = text else {
                fail("exit0-without-output", format!("{} was not written", out.unwrap_or("")));
                return crate::settle(check, fails);
            };
            if matches!(c.op, DbcOp::ExportJson { .. }) {
                match serde_json::from_str::<Value>(&text) {
                    Err(e) => fail("exit0-with-unparseable-output", format!("the export is not JSON: {e}")),
                    Ok(v) => match v.as_array() {
                        None => fail("export-differs-from-library", "the export is not a JSON array of records".into()),
                        Some(a) => {
                            if a.len() != recs.len() {
                                fail("export-record-count-differs-from-library", format!("{} records exported, parse_records has {}", a.len(), recs.len()));
                            } else {
                                'outer: for (i, (g, w)) in a.iter().zip(&recs).enumerate() {
                                    let Some(o) = g.as_object() else {
                                        fail("export-differs-from-library", format!("record {i} is not an object"));
                                        break;
                                    };
                                    if o.len() != names.len() {
                                        fail("export-field-count-differs-from-library", format!("record {i} has {} fields, the schema has {}", o.len(), names.len()));
                                        break;
                                    }
                                    for (j, n) in names.iter().enumerate() {
                                        match o.get(n) {
                                            None => {
                                                fail("export-field-count-differs-from-library", format!("record {i} lacks field {n}"));
                                                break 'outer;
                                            }
                                            Some(gv) => {
                                                if !json_matches(gv, &w[j]) {
                                                    fail("export-value-differs-from-library", format!("record {i} field {n}: exported {gv}, the library's record holds {}", w[j]));
                                                    break 'outer;
                                                }
                                            }
                                        }
                                    }
                                }
                            }
                        }
                    },
                }
            } else {
                match read_csv(&text) {
                    Err(e) => fail("exit0-with-unparseable-output", format!("the export is not CSV: {e}")),
                    Ok(rows) => {
                        if recs.is_empty() {
                            // an empty table: nothing, or the header line alone
                            if rows.len() > 1 {
                                fail("export-record-count-differs-from-library", format!("{} rows exported for an empty table", rows.len()));
                            }
                        } else if rows.is_empty() || rows[0] != names {
                            fail("export-field-count-differs-from-library", format!("header row {:?}, schema fields {:?}", rows.first(), names));
                        } else if rows.len() - 1 != recs.len() {
                            fail("export-record-count-differs-from-library", format!("{} records exported, parse_records has {}", rows.len() - 1, recs.len()));
                        } else {
                            'rows: for (i, (g, w)) in rows[1..].iter().zip(&recs).enumerate() {
                                if g.len() != names.len() {
                                    fail("export-field-count-differs-from-library", format!("record {i} has {} cells, the schema has {} fields", g.len(), names.len()));
                                    break;
                                }
                                for (j, n) in names.iter().enumerate() {
                                    if !csv_matches(&g[j], &w[j]) {
                                        fail("export-value-differs-from-library", format!("record {i} field {n}: exported {:?}, the library's record holds {}", g[j], w[j]));
                                        break 'rows;
                                    }
                                }
                            }
                        }
                    }
                }
            }
            if let Some(n) = labelled_u64(&run.stdout, "Exported") {
                if n != recs.len() as u64 {
                    fail("reported-record-count-differs-from-library", format!("'Exported {n} records', parse_records has {}", recs.len()));
                }
            }
        }
        DbcOp::List { limit, schema } => {
            if let Some(n) = labelled_u64(&run.stdout, "Total records:") {
                if n != recs.len() as u64 {
                    fail("reported-record-count-differs-from-library", format!("'Total records: {n}', parse_records has {}", recs.len()));
                }
            } else {
                fail("list-output-incomplete", "no 'Total records:' line".into());
            }
            let shown = parse_list(&run.stdout);
            let want_n = (*limit as usize).min(recs.len());
            if shown.len() != want_n || shown.keys().copied().ne(0..want_n) {
                fail("list-output-incomplete", format!("records shown: {:?}, expected the first {want_n} of {} (limit {limit})", shown.keys().collect::<Vec<_>>(), recs.len()));
            } else {
                'l: for (i, lines) in &shown {
                    let w = recs[*i].as_array().cloned().unwrap_or_default();
                    if lines.len() != w.len() {
                        fail("list-field-count-differs-from-library", format!("record {i}: {} fields listed, the library's record has {}", lines.len(), w.len()));
                        break;
                    }
                    for (j, (k, v)) in lines.iter().enumerate() {
                        let label = if *schema { names[j].clone() } else { format!("Field {j}") };
                        if *k != label {
                            fail("list-field-count-differs-from-library", format!("record {i}: label {k:?} where field {label:?} is expected"));
                            break 'l;
                        }
                        if let Some(t) = list_text(&w[j]) {
                            if *v != t {
                                fail("list-value-differs-from-library", format!("record {i} {label}: listed {v:?}, the library's record holds {} (printed as {t:?})", w[j]));
                                break 'l;
                            }
                        }
                    }
                }
            }
        }
        DbcOp::Info | DbcOp::Discover { .. } => {
            for (label, key) in [("Record Count:", "record_count"), ("Field Count:", "field_count"), ("Record Size:", "record_size"), ("String Block Size:", "string_block_size")] {
                match labelled_u64(&run.stdout, label) {
                    Some(n) if Some(n) == hdr[key].as_u64() => {}
                    Some(n) => fail("reported-header-differs-from-library", format!("'{label} {n}', the parsed header has {key} = {}", hdr[key])),
                    None => fail("info-output-incomplete", format!("no '{label}' line")),
                }
            }
            if matches!(c.op, DbcOp::Info) {
                if let Some(w) = recs.first().and_then(|r| r.as_array()) {
                    // "Sample Record (First Record - Raw Values)": "  Field  j:  v (Type)"
                    let mut seen = 0;
                    for l in run.stdout.lines() {
                        let Some(b) = l.trim().strip_prefix("Field") else { continue };
                        let Some((j, rest)) = b.split_once(':') else { continue };
                        let Ok(j) = j.trim().parse::<usize>() else { continue };
                        if !rest.contains('(') || j >= w.len() {
                            continue;
                        }
                        seen += 1;
                        let v = rest.trim().rsplit_once(" (").map(|x| x.0.trim()).unwrap_or("");
                        if let Some(u) = w[j].get("u") {
                            if v.parse::<u64>().ok() != u.as_u64() {
                                fail("info-value-differs-from-library", format!("sample record field {j}: printed {v:?}, the library's first raw record holds {u}"));
                                break;
                            }
                        }
                    }
                    if seen != w.len() {
                        fail("info-output-incomplete", format!("{seen} sample fields printed, the first raw record has {}", w.len()));
                    }
                }
            }
            if let DbcOp::Discover { yaml, .. } = &c.op {
                if let Some(o) = out {
                    match sb.read(o) {
                        None => fail("exit0-without-output", format!("{o} was not written")),
                        Some(b) if b.is_empty() => fail("exit0-without-output", format!("{o} is empty")),
                        Some(b) => {
                            let text = String::from_utf8_lossy(&b).to_string();
                            if *yaml {
                                // the same run without -o prints the YAML instead of writing it
                                let mut a2: Vec<String> = vec![];
                                let mut skip = false;
                                for a in &args {
                                    if skip {
                                        skip = false;
                                        continue;
                                    }
                                    if a == "-o" {
                                        skip = true;
                                        continue;
                                    }
                                    a2.push(a.clone());
                                }
                                let r2 = sb.run(&a2);
                                if let Some(i) = r2.stdout.find("Generated Schema (YAML):") {
                                    let printed: String = r2.stdout[i..].lines().skip(2).collect::<Vec<_>>().join("\n");
                                    if printed.trim() != text.trim() {
                                        fail("output-file-differs-from-stdout", format!("{o} ({} bytes) is not the schema the command prints without -o", b.len()));
                                    }
                                }
                            } else {
                                match (schema_field_lines(&run.stdout), schema_field_lines(&text)) {
                                    (Some(p), Some(f)) if p == f && !f.is_empty() => {}
                                    (p, f) => fail("output-file-differs-from-stdout", format!("{o} lists fields {:?}, stdout lists {:?}", f.map(|x| x.len()), p.map(|x| x.len()))),
                                }
                            }
                        }
                    }
                }
            }
        }
        DbcOp::Analyze { .. } => match labelled_u64(&run.stdout, "Total records:") {
            Some(n) if n == recs.len() as u64 => {}
            Some(n) => fail("reported-record-count-differs-from-library", format!("'Total records: {n}', parse_records has {}", recs.len())),
            None => fail("analyze-output-incomplete", "no 'Total records:' line".into()),
        },
    }
    // a wrong file that is byte for byte what was there before the run: the command did not write
    if let (Some(st), Some(o), false) = (&stale, out, fails.is_empty()) {
        if sb.read(o).as_deref() == Some(&st[..]) {
            let m = fails[0].message.clone();
            fails[0] = Fail::new(format!("stale-output-left-in-place:{cmd}"), format!("{m} — {o} still holds what was there before the run"));
        }
    }
    crate::settle(check, fails)
}

pub fn dbc_tables() -> Vec<DbcTable> {
    let f = |ty: u8, array: u8| FieldSpec { ty, array };
    vec![
        DbcTable { fields: vec![f(0, 0), f(3, 0), f(0, 0)], rows: 5, seed: 1, key: true },
        DbcTable { fields: vec![f(0, 0), f(1, 0), f(2, 0), f(3, 0), f(4, 0)], rows: 12, seed: 2, key: true },
        DbcTable { fields: vec![f(0, 0), f(2, 3), f(3, 2), f(1, 0)], rows: 7, seed: 3, key: true },
        DbcTable { fields: vec![f(0, 0), f(5, 0), f(6, 0), f(7, 0), f(8, 0), f(5, 2)], rows: 9, seed: 4, key: true },
        DbcTable { fields: vec![f(3, 0), f(3, 0)], rows: 4, seed: 5, key: false },
        DbcTable { fields: vec![f(0, 0), f(3, 0)], rows: 0, seed: 6, key: true },
        DbcTable { fields: vec![f(0, 0), f(2, 0)], rows: 1, seed: 7, key: true },
        DbcTable { fields: vec![f(0, 0), f(0, 4), f(4, 2), f(3, 0)], rows: 30, seed: 8, key: true },
        DbcTable { fields: vec![f(2, 0)], rows: 40, seed: 9, key: false },
    ]
}

pub fn dbc_ops(rows: u16) -> Vec<DbcOp> {
    vec![
        DbcOp::ExportJson { to_file: true },
        DbcOp::ExportJson { to_file: false },
        DbcOp::ExportCsv { to_file: true },
        DbcOp::ExportCsv { to_file: false },
        DbcOp::List { limit: 3, schema: true },
        DbcOp::List { limit: rows.saturating_add(5), schema: true },
        DbcOp::List { limit: 10, schema: false },
        DbcOp::List { limit: 0, schema: true },
        DbcOp::Info,
        DbcOp::Discover { output: false, yaml: false },
        DbcOp::Discover { output: true, yaml: false },
        DbcOp::Discover { output: true, yaml: true },
        DbcOp::Analyze { schema: true },
        DbcOp::Analyze { schema: false },
    ]
}

pub fn dbc_grid(thorough: bool) -> Vec<DbcCase> {
    let mut v = vec![];
    let mut k = 0usize;
    for (i, t) in dbc_tables().into_iter().enumerate() {
        for (j, op) in dbc_ops(t.rows).into_iter().enumerate() {
            k += 1;
            let to_file = matches!(op, DbcOp::ExportJson { to_file: true } | DbcOp::ExportCsv { to_file: true } | DbcOp::Discover { output: true, .. });
            if thorough {
                for prefill in if to_file { vec![0u8, 1, 2, 3] } else { vec![0u8] } {
                    v.push(DbcCase { table: t.clone(), op: op.clone(), prefill, order: if (k + prefill as usize) % 2 == 0 { k as u16 } else { 0 } });
                }
            } else if to_file || (i + j) % 2 == 0 {
                v.push(DbcCase { table: t.clone(), op, prefill: if to_file { (k % 4) as u8 } else { 0 }, order: if k % 3 == 0 { k as u16 } else { 0 } });
            }
        }
    }
    v
}

pub fn dbc_strategy() -> impl proptest::strategy::Strategy<Value = DbcCase> + use<> {
    use proptest::prelude::*;
    let field = (0u8..9, prop_oneof![3 => Just(0u8), 1 => 1u8..=4]).prop_map(|(ty, array)| FieldSpec { ty, array });
    let table = (proptest::collection::vec(field, 1..7), prop_oneof![1 => Just(0u16), 1 => Just(1u16), 4 => 2u16..40], any::<u32>(), any::<bool>()).prop_map(|(fields, rows, seed, key)| DbcTable { fields, rows, seed, key });
    (table, any::<u16>(), 0u8..4, prop_oneof![1 => Just(0u16), 1 => any::<u16>()], 0u16..50).prop_map(|(table, oi, prefill, order, limit)| {
        let mut ops = dbc_ops(table.rows);
        ops.push(DbcOp::List { limit, schema: true });
        let op = ops[pick_idx(oi, ops.len())].clone();
        DbcCase { table, op, prefill, order }
    })
}

// ==========================================================================================
// mpq: rebuild, compare, validate, info tables, patch-chain extraction, extract -f

use vcheck::gens::mpq::{self as g, ArchiveSpec};

#[derive(Clone, Debug, PartialEq, Eq, Serialize, Deserialize)]
pub struct RebuildOpts {
    pub upgrade_to: Option<u8>,
    pub preserve_format: bool,
    pub skip_encrypted: bool,
    pub skip_signatures: bool,
    pub verify: bool,
    /// index into part1::COMPRESSIONS
    pub compression: Option<u8>,
    pub block_size: Option<u8>,
    pub list_only: bool,
}

impl RebuildOpts {
    fn groups(&self) -> Vec<Vec<String>> {
        let s = |x: &str| x.to_string();
        let mut g = vec![];
        if self.preserve_format {
            g.push(vec![s("--preserve-format")]);
        }
        if let Some(v) = self.upgrade_to {
            g.push(vec![s("--upgrade-to"), format!("v{}", v.clamp(1, 4))]);
        }
        if self.skip_encrypted {
            g.push(vec![s("--skip-encrypted")]);
        }
        if self.skip_signatures {
            g.push(vec![s("--skip-signatures")]);
        }
        if self.verify {
            g.push(vec![s("--verify")]);
        }
        if let Some(c) = self.compression {
            g.push(vec![s("--compression"), s(crate::part1::COMPRESSIONS[c as usize % 4])]);
        }
        if let Some(b) = self.block_size {
            g.push(vec![s("--block-size"), b.to_string()]);
        }
        if self.list_only {
            g.push(vec![s("--list-only")]);
        }
        g
    }
    /// the library options the flags stand for (help text of `mpq rebuild`, field docs of RebuildOptions)
    fn to_lib(&self) -> wow_mpq::RebuildOptions {
        use wow_mpq::FormatVersion as F;
        wow_mpq::RebuildOptions {
            preserve_format: self.preserve_format,
            target_format: self.upgrade_to.map(|v| [F::V1, F::V2, F::V3, F::V4][(v.clamp(1, 4) - 1) as usize]),
            preserve_order: true,
            skip_encrypted: self.skip_encrypted,
            skip_signatures: self.skip_signatures,
            verify: self.verify,
            override_compression: self.compression.map(|c| [0u8, wow_mpq::compression::flags::ZLIB, wow_mpq::compression::flags::BZIP2, wow_mpq::compression::flags::LZMA][c as usize % 4]),
            override_block_size: self.block_size.map(|b| b as u16),
            list_only: self.list_only,
        }
    }
}

#[derive(Clone, Debug, Serialize, Deserialize)]
pub struct RebuildCase {
    pub spec: ArchiveSpec,
    pub opts: RebuildOpts,
    /// target path holds: 0 nothing, 1 another valid archive, 2 junk
    pub prefill: u8,
    pub order: u16,
}

const SPECIAL: [&str; 3] = ["(listfile)", "(attributes)", "(signature)"];

fn is_special(n: &str) -> bool {
    SPECIAL.iter().any(|s| s.eq_ignore_ascii_case(n))
}

fn fold(n: &str) -> String {
    n.replace('/', "\\").to_ascii_lowercase()
}

fn lib_tag(v: &Verdict) -> &'static str {
    match v {
        Verdict::Ok(_) => "ok",
        Verdict::Rejects(_) => "err",
        Verdict::Crashed(_) => "crash",
    }
}

fn spec_class(spec: &ArchiveSpec) -> String {
    format!("V{}:shift{}:n{}:enc{}", spec.version, spec.shift, spec.files.len().min(4), spec.files.iter().any(|f| f.enc != g::Enc::None) as u8)
}

fn build_into(sb: &Sandbox, spec: &ArchiveSpec, rel: &str) -> bool {
    fixtures::build_mpq(spec, &sb.path(rel)).is_ok()
}

pub fn run_rebuild(check: &Check, c: &RebuildCase) -> Result<(), Fail> {
    let sb = Sandbox::new();
    if !build_into(&sb, &c.spec, "in/a.mpq") {
        check.bump("p3:builder-refused", 1);
        check.count("p3:rebuild:builder-refused", false);
        return Ok(());
    }
    let s = |x: &str| x.to_string();
    match c.prefill {
        1 => {
            if let Ok(b) = fixtures::base("mpq:v1") {
                sb.write("out/rb.mpq", &b);
            }
        }
        2 => sb.write("out/rb.mpq", &stale_bytes(None, 2)),
        _ => {}
    }
    let args = arrange(&[s("mpq"), s("rebuild")], &[s("in/a.mpq"), s("out/rb.mpq")], &c.opts.groups(), c.order);
    let lib = ask(Ask::MpqRebuild { opts: c.opts.clone() }, &sb.path("in/a.mpq"));
    let run = sb.run(&args);
    let exit0 = run.ok();
    let o = &c.opts;
    let class = format!(
        "p3:rebuild:{}:up{}:pf{}:se{}:ss{}:vf{}:c{}:b{}:lo{}:stale{}:ord{}:lib-{}:exit{}",
        spec_class(&c.spec),
        o.upgrade_to.map(|v| v.to_string()).unwrap_or("-".into()),
        o.preserve_format as u8,
        o.skip_encrypted as u8,
        o.skip_signatures as u8,
        o.verify as u8,
        o.compression.map(|v| v.to_string()).unwrap_or("-".into()),
        o.block_size.map(|v| v.to_string()).unwrap_or("-".into()),
        o.list_only as u8,
        c.prefill,
        (c.order != 0) as u8,
        lib_tag(&lib),
        if exit0 { "0" } else { "nz" }
    );
    check.count(&class, exit0 && matches!(lib, Verdict::Ok(_)) && !o.list_only);
    check.sample(&format!("p3:rebuild:V{}", c.spec.version), || json!({"part": "rebuild", "case": c, "exit0": exit0}));
    let ctx = || format!("`{}` on {} → {}", cmdline(&args), c.spec.summary(), show(&run));
    let mut fails = vec![];
    if !exit0 {
        if matches!(lib, Verdict::Ok(_)) {
            check.bump("p3:cli-refuses-what-library-does:mpq:rebuild", 1);
        }
        return Ok(());
    }
    let info = match &lib {
        Verdict::Ok(i) => i.clone(),
        Verdict::Rejects(e) => {
            fails.push(Fail::new("exit0-on-rejected-input:mpq:rebuild", format!("{} — rebuild_archive with the same options returns Err({})", ctx(), vcheck::engine::truncate(e, 200))));
            return crate::settle(check, fails);
        }
        Verdict::Crashed(h) => {
            fails.push(Fail::new("exit0-on-input-crashing-library:mpq:rebuild", format!("{} — rebuild_archive died: {h}", ctx())));
            return crate::settle(check, fails);
        }
    };
    // the printed summary states the library's numbers
    for (label, key) in [("Source files:", "source_files"), ("Extracted files:", "extracted_files")] {
        if let Some(n) = labelled_u64(&run.stdout, label) {
            if Some(n) != info[key].as_u64() {
                fails.push(Fail::new("reported-count-differs-from-library:mpq:rebuild", format!("{} — '{label} {n}', rebuild_archive's summary has {key} = {}", ctx(), info[key])));
            }
        }
    }
    if o.list_only {
        check.bump("p3:judged:mpq:rebuild:list-only", 1);
        return crate::settle(check, fails);
    }
    if !sb.exists("out/rb.mpq") {
        fails.push(Fail::new("exit0-without-output:mpq:rebuild", format!("{} — out/rb.mpq was not written", ctx())));
        return crate::settle(check, fails);
    }
    let src = match oracle::ask(&Entry::MpqReadAll, &sb.path("in/a.mpq")) {
        Verdict::Ok(v) => v,
        _ => {
            check.bump("p3:source-unreadable", 1);
            return crate::settle(check, fails);
        }
    };
    let (dst, dst_info) = match (oracle::ask(&Entry::MpqReadAll, &sb.path("out/rb.mpq")), oracle::ask(&Entry::MpqTree, &sb.path("out/rb.mpq"))) {
        (Verdict::Ok(a), Verdict::Ok(b)) => (a, b),
        (a, b) => {
            let why = if matches!(a, Verdict::Ok(_)) { b.describe() } else { a.describe() };
            fails.push(Fail::new("exit0-with-unparseable-output:mpq:rebuild", format!("{} — the library cannot read out/rb.mpq: {why}", ctx())));
            return crate::settle(check, fails);
        }
    };
    check.bump("p3:judged:mpq:rebuild", 1);
    let enc: BTreeSet<String> = c.spec.files.iter().filter(|f| f.enc != g::Enc::None).map(|f| fold(&f.name)).collect();
    let dstm: BTreeMap<String, &Value> = dst["files"].as_object().map(|m| m.iter().map(|(k, v)| (fold(k), v)).collect()).unwrap_or_default();
    let srcm: BTreeMap<String, &Value> = src["files"].as_object().map(|m| m.iter().map(|(k, v)| (fold(k), v)).collect()).unwrap_or_default();
    let mut compared = 0;
    for (name, d) in &srcm {
        if is_special(name) || d.get("err").is_some() || (o.skip_encrypted && enc.contains(name)) {
            continue;
        }
        match dstm.get(name) {
            None => {
                fails.push(Fail::new("rebuild-loses-file:mpq:rebuild", format!("{} — {name:?} ({} bytes in the source) is not among the files the library lists in out/rb.mpq", ctx(), d["len"])));
                break;
            }
            Some(t) => {
                if t.get("err").is_some() || t["h"] != d["h"] || t["len"] != d["len"] {
                    fails.push(Fail::new("rebuild-changes-content:mpq:rebuild", format!("{} — {name:?}: source {d}, target {t}", ctx())));
                    break;
                }
                compared += 1;
            }
        }
    }
    if compared > 0 {
        check.bump("p3:rebuild:files-compared", compared);
    }
    for name in dstm.keys() {
        if !is_special(name) && !srcm.contains_key(name) {
            fails.push(Fail::new("rebuild-invents-file:mpq:rebuild", format!("{} — {name:?} is listed in out/rb.mpq but not in the source", ctx())));
            break;
        }
    }
    // documented effects of the options on the container
    let src_info = oracle::ask(&Entry::MpqTree, &sb.path("in/a.mpq"));
    if let Some(v) = o.upgrade_to {
        let want = format!("V{}", v.clamp(1, 4));
        if dst_info["format"].as_str() != Some(&want) {
            fails.push(Fail::new("rebuild-ignores-upgrade-to:mpq:rebuild", format!("{} — out/rb.mpq has format {}, --upgrade-to asked for {want}", ctx(), dst_info["format"])));
        }
    } else if o.preserve_format {
        if let Verdict::Ok(si) = &src_info {
            if dst_info["format"] != si["format"] {
                fails.push(Fail::new("rebuild-ignores-preserve-format:mpq:rebuild", format!("{} — source format {}, target format {}", ctx(), si["format"], dst_info["format"])));
            }
        }
    }
    if let Some(b) = o.block_size {
        if dst_info["sector_size"].as_u64() != Some(512u64 << b) {
            fails.push(Fail::new("rebuild-ignores-block-size:mpq:rebuild", format!("{} — out/rb.mpq has sector size {}, --block-size {b} means {}", ctx(), dst_info["sector_size"], 512u64 << b)));
        }
    }
    crate::settle(check, fails)
}

fn mpq_rebuild_lib(path: &Path, opts: &RebuildOpts) -> Result<Value, String> {
    let d = vcheck::engine::scratch("c20p3rb");
    let target = d.path().join("t.mpq");
    let s = wow_mpq::rebuild_archive(path, target.as_path(), opts.to_lib(), None).map_err(es)?;
    Ok(json!({"source_files": s.source_files, "extracted_files": s.extracted_files, "skipped_files": s.skipped_files, "target_format": format!("{:?}", s.target_format), "verified": s.verified}))
}

// ------------------------------------------------------------------------------------------

#[derive(Clone, Debug, Serialize, Deserialize)]
pub struct CompareCase {
    pub spec: ArchiveSpec,
    /// how the second archive differs: 0 same spec; 1 one file, same length, other bytes; 2 one
    /// file of another length; 3 one file more; 4 other format version; 5 one file fewer
    pub variant: u8,
    pub which: u16,
    pub detailed: bool,
    pub content_check: bool,
    pub metadata_only: bool,
    pub ignore_order: bool,
    /// 0 table, 1 summary, 2 json
    pub output: u8,
    pub filter: Option<String>,
    pub order: u16,
}

fn vary(spec: &ArchiveSpec, variant: u8, which: u16) -> ArchiveSpec {
    let mut b = spec.clone();
    let n = b.files.len();
    let i = pick_idx(which, n);
    match variant {
        1 if n > 0 => b.files[i].seed = b.files[i].seed.wrapping_add(0x5151),
        2 if n > 0 => b.files[i].len.delta = b.files[i].len.delta.wrapping_add(5),
        3 => {
            let mut f = if n > 0 { b.files[i].clone() } else { return b };
            f.name = "added_by_variant.dat".into();
            b.files.push(f);
        }
        4 => b.version = if b.version >= 4 { 1 } else { b.version + 1 },
        5 if n > 1 => {
            b.files.remove(i);
        }
        _ => {}
    }
    b
}

pub fn run_compare(check: &Check, c: &CompareCase) -> Result<(), Fail> {
    let sb = Sandbox::new();
    let b_spec = vary(&c.spec, c.variant, c.which);
    if !build_into(&sb, &c.spec, "in/a.mpq") || !build_into(&sb, &b_spec, "in/b.mpq") {
        check.bump("p3:builder-refused", 1);
        check.count("p3:compare:builder-refused", false);
        return Ok(());
    }
    let s = |x: &str| x.to_string();
    let mut groups: Vec<Vec<String>> = vec![];
    for (on, flag) in [(c.detailed, "--detailed"), (c.content_check, "--content-check"), (c.metadata_only, "--metadata-only"), (c.ignore_order, "--ignore-order")] {
        if on {
            groups.push(vec![s(flag)]);
        }
    }
    let fmt = ["table", "summary", "json"][c.output as usize % 3];
    if c.output % 3 != 0 || c.order % 2 == 1 {
        groups.push(vec![s("--output"), s(fmt)]);
    }
    if let Some(f) = &c.filter {
        groups.push(vec![s("--filter"), f.clone()]);
    }
    let args = arrange(&[s("mpq"), s("compare")], &[s("in/a.mpq"), s("in/b.mpq")], &groups, c.order);
    let lib = ask(
        Ask::MpqCompare { other: sb.path("in/b.mpq").to_string_lossy().to_string(), detailed: c.detailed, content_check: c.content_check, metadata_only: c.metadata_only, ignore_order: c.ignore_order, filter: c.filter.clone() },
        &sb.path("in/a.mpq"),
    );
    let run = sb.run(&args);
    let exit0 = run.ok();
    let class = format!(
        "p3:compare:{}:var{}:d{}:cc{}:mo{}:io{}:{fmt}:f{}:ord{}:lib-{}:exit{}",
        spec_class(&c.spec),
        c.variant,
        c.detailed as u8,
        c.content_check as u8,
        c.metadata_only as u8,
        c.ignore_order as u8,
        c.filter.is_some() as u8,
        (c.order != 0) as u8,
        lib_tag(&lib),
        if exit0 { "0" } else { "nz" }
    );
    check.count(&class, exit0 && matches!(lib, Verdict::Ok(_)));
    check.sample(&format!("p3:compare:var{}:{fmt}", c.variant), || json!({"part": "compare", "case": c, "exit0": exit0}));
    let ctx = || format!("`{}` ({} vs variant {}) → {}", cmdline(&args), c.spec.summary(), c.variant, show(&run));
    let mut fails = vec![];
    if !exit0 {
        if matches!(lib, Verdict::Ok(_)) {
            check.bump("p3:cli-refuses-what-library-does:mpq:compare", 1);
        }
        return Ok(());
    }
    let info = match &lib {
        Verdict::Ok(i) => i.clone(),
        Verdict::Rejects(e) => {
            fails.push(Fail::new("exit0-on-rejected-input:mpq:compare", format!("{} — compare_archives with the same options returns Err({})", ctx(), vcheck::engine::truncate(e, 200))));
            return crate::settle(check, fails);
        }
        Verdict::Crashed(h) => {
            fails.push(Fail::new("exit0-on-input-crashing-library:mpq:compare", format!("{} — compare_archives died: {h}", ctx())));
            return crate::settle(check, fails);
        }
    };
    let want = info["identical"].as_bool().unwrap_or(false);
    check.bump(if want { "p3:judged:mpq:compare:identical" } else { "p3:judged:mpq:compare:differing" }, 1);
    // ground truth the generator knows (observation only: the comparator itself is C07's business)
    let surely_differs = matches!(c.variant, 2 | 3 | 4 | 5) && b_spec != c.spec && c.filter.is_none() && !c.metadata_only;
    if surely_differs && want {
        check.bump("observation:compare_archives-calls-different-archives-identical", 1);
        if std::env::var("C20_P3_DEBUG").is_ok() {
            eprintln!("[p3 debug] compare_archives says identical: {} ; variant {} ; b = {}", ctx(), c.variant, b_spec.summary());
        }
    }
    let out = &run.stdout;
    let said: Option<bool> = match fmt {
        "json" => out.lines().find_map(|l| l.trim().strip_prefix("identical:").map(|r| r.trim().trim_end_matches(',') == "true")),
        "summary" => {
            if out.contains("✓ Archives are identical") {
                Some(true)
            } else if out.contains("✗ Archives differ") {
                Some(false)
            } else {
                None
            }
        }
        _ => {
            if out.contains("✓ Archives are identical") {
                Some(true)
            } else if out.contains("Summary:") {
                Some(false)
            } else {
                None
            }
        }
    };
    match said {
        None => fails.push(Fail::new("compare-output-incomplete:mpq:compare", format!("{} — the output states no verdict; compare_archives says identical = {want}", ctx()))),
        Some(v) if v != want => fails.push(Fail::new("compare-verdict-differs-from-library:mpq:compare", format!("{} — the output says identical = {v}, compare_archives with the same options says {want}", ctx()))),
        Some(false) => {
            let sum = &info["summary"];
            if fmt == "table" {
                for (suffix, key) in [("files identical", "identical_files"), ("files different", "different_files"), ("files only in source", "source_only_count"), ("files only in target", "target_only_count")] {
                    let got = out.lines().rev().find_map(|l| l.trim().strip_suffix(suffix).and_then(|n| n.trim().parse::<u64>().ok()));
                    if got != sum[key].as_u64() {
                        fails.push(Fail::new("compare-counts-differ-from-library:mpq:compare", format!("{} — '{:?} {suffix}', compare_archives' summary has {key} = {}", ctx(), got, sum[key])));
                        break;
                    }
                }
            } else if fmt == "summary" {
                let total = sum["different_files"].as_u64().unwrap_or(0) + sum["source_only_count"].as_u64().unwrap_or(0) + sum["target_only_count"].as_u64().unwrap_or(0);
                let got = out.lines().rev().find_map(|l| l.trim().strip_prefix("Summary:").and_then(|r| r.trim().strip_suffix("total differences")).and_then(|n| n.trim().parse::<u64>().ok()));
                if got != Some(total) {
                    fails.push(Fail::new("compare-counts-differ-from-library:mpq:compare", format!("{} — 'Summary: {:?} total differences', compare_archives' summary adds up to {total}", ctx(), got)));
                }
            }
        }
        Some(true) => {}
    }
    crate::settle(check, fails)
}

// ------------------------------------------------------------------------------------------

#[derive(Clone, Debug, Serialize, Deserialize)]
pub struct ValidateCase {
    pub spec: ArchiveSpec,
    /// (file selector, position selector inside its stored bytes): invert 8 stored bytes
    pub corrupt: Option<(u16, u16)>,
    pub check_checksums: bool,
    pub threads: Option<u8>,
    /// 0 none, 1 -v, 2 -q, 3 -vv
    pub verbosity: u8,
    pub order: u16,
}

fn verbosity_group(v: u8) -> Option<Vec<String>> {
    match v % 4 {
        1 => Some(vec!["-v".to_string()]),
        2 => Some(vec!["-q".to_string()]),
        3 => Some(vec!["-vv".to_string()]),
        _ => None,
    }
}

/// invert 8 bytes inside the stored (compressed) bytes of one file; returns the file's name
fn corrupt_one(path: &Path, spec: &ArchiveSpec, sel: (u16, u16)) -> Option<String> {
    let names: Vec<String> = spec.files.iter().map(|f| f.name.clone()).collect();
    let p = path.to_path_buf();
    let infos = vcheck::engine::guard("find_file", move || {
        let mut v = vec![];
        if let Ok(a) = wow_mpq::Archive::open(&p) {
            for n in &names {
                if let Ok(Some(fi)) = a.find_file(n) {
                    if fi.compressed_size >= 16 {
                        v.push((n.clone(), fi.file_pos, fi.compressed_size));
                    }
                }
            }
        }
        v
    })
    .ok()?;
    if infos.is_empty() {
        return None;
    }
    let (name, pos, csize) = infos[pick_idx(sel.0, infos.len())].clone();
    let mut bytes = std::fs::read(path).ok()?;
    let at = pos as usize + pick_idx(sel.1, csize as usize - 8);
    if at + 8 > bytes.len() {
        return None;
    }
    for b in &mut bytes[at..at + 8] {
        *b = !*b;
    }
    std::fs::write(path, bytes).ok()?;
    Some(name)
}

pub fn run_validate(check: &Check, c: &ValidateCase) -> Result<(), Fail> {
    let sb = Sandbox::new();
    if !build_into(&sb, &c.spec, "in/a.mpq") {
        check.bump("p3:builder-refused", 1);
        check.count("p3:validate:builder-refused", false);
        return Ok(());
    }
    let hit = c.corrupt.and_then(|sel| corrupt_one(&sb.path("in/a.mpq"), &c.spec, sel));
    let s = |x: &str| x.to_string();
    let mut groups: Vec<Vec<String>> = vec![];
    if c.check_checksums {
        groups.push(vec![s("--check-checksums")]);
    }
    if let Some(t) = c.threads {
        groups.push(vec![s("--threads"), t.max(1).to_string()]);
    }
    groups.extend(verbosity_group(c.verbosity));
    let args = arrange(&[s("mpq"), s("validate")], &[s("in/a.mpq")], &groups, c.order);
    let lib = oracle::ask(&Entry::MpqValidate, &sb.path("in/a.mpq"));
    let run = sb.run(&args);
    let exit0 = run.ok();
    let errs = match &lib {
        Verdict::Ok(i) => i["read_errors"].as_u64().unwrap_or(0),
        _ => 0,
    };
    let state = match (&lib, hit.is_some(), errs) {
        (Verdict::Ok(_), false, 0) => "intact",
        (Verdict::Ok(_), true, 0) => "damage-not-noticed-by-library",
        (Verdict::Ok(_), _, _) => "file-unreadable",
        _ => "archive-unreadable",
    };
    let class = format!("p3:validate:{}:{state}:cc{}:thr{}:v{}:ord{}:exit{}", spec_class(&c.spec), c.check_checksums as u8, c.threads.map(|t| t.to_string()).unwrap_or("-".into()), c.verbosity % 4, (c.order != 0) as u8, if exit0 { "0" } else { "nz" });
    check.count(&class, state != "damage-not-noticed-by-library");
    check.bump(&format!("p3:validate:{state}"), 1);
    check.sample(&format!("p3:validate:{state}"), || json!({"part": "validate", "case": c, "exit0": exit0}));
    let ctx = || format!("`{}` on {} ({state}{}) → {}", cmdline(&args), c.spec.summary(), hit.as_ref().map(|n| format!(", 8 stored bytes of {n:?} inverted")).unwrap_or_default(), show(&run));
    let mut fails = vec![];
    match (&lib, exit0) {
        (Verdict::Ok(i), true) if errs > 0 => fails.push(Fail::new("exit0-on-failed-validation:mpq:validate", format!("{} — the library fails to read {errs} of the listed files: {}", ctx(), vcheck::engine::truncate(&i["files"].to_string(), 300)))),
        (Verdict::Rejects(e), true) => fails.push(Fail::new("exit0-on-rejected-input:mpq:validate", format!("{} — the library cannot open the archive: {}", ctx(), vcheck::engine::truncate(e, 200)))),
        (Verdict::Crashed(h), true) => fails.push(Fail::new("exit0-on-input-crashing-library:mpq:validate", format!("{} — the library died: {h}", ctx()))),
        (Verdict::Ok(_), false) if state == "intact" => fails.push(Fail::new("validate-fails-on-intact-archive:mpq:validate", format!("{} — the archive was just built and the library reads every listed file", ctx()))),
        _ => {}
    }
    crate::settle(check, fails)
}

// ------------------------------------------------------------------------------------------

#[derive(Clone, Debug, Serialize, Deserialize)]
pub struct TablesCase {
    pub spec: ArchiveSpec,
    pub hash: bool,
    pub block: bool,
    pub verbosity: u8,
    pub order: u16,
}

/// data rows (first cell a number) of the table printed under the heading that contains `title`
fn table_rows(stdout: &str, title: &str, stop: &[&str]) -> Option<Option<u64>> {
    let mut inside = false;
    let mut n = 0u64;
    let mut absent = false;
    for l in stdout.lines() {
        if !inside {
            if l.contains(title) {
                inside = true;
            }
            continue;
        }
        if stop.iter().any(|s| l.contains(s)) {
            break;
        }
        if l.contains("No hash table found") || l.contains("No block table found") {
            absent = true;
        }
        if let Some(cell) = l.strip_prefix("| ").and_then(|r| r.split('|').next()) {
            if cell.trim().parse::<u64>().is_ok() {
                n += 1;
            }
        }
    }
    if !inside {
        None
    } else if absent {
        Some(None)
    } else {
        Some(Some(n))
    }
}

pub fn run_tables(check: &Check, c: &TablesCase) -> Result<(), Fail> {
    let sb = Sandbox::new();
    if !build_into(&sb, &c.spec, "in/a.mpq") {
        check.bump("p3:builder-refused", 1);
        check.count("p3:tables:builder-refused", false);
        return Ok(());
    }
    let s = |x: &str| x.to_string();
    let mut groups: Vec<Vec<String>> = vec![];
    if c.hash {
        groups.push(vec![s("--show-hash-table")]);
    }
    if c.block {
        groups.push(vec![s("--show-block-table")]);
    }
    groups.extend(verbosity_group(c.verbosity));
    let args = arrange(&[s("mpq"), s("info")], &[s("in/a.mpq")], &groups, c.order);
    let lib = ask(Ask::MpqTables, &sb.path("in/a.mpq"));
    let run = sb.run(&args);
    let exit0 = run.ok();
    let quiet = c.verbosity % 4 == 2;
    let class = format!("p3:tables:{}:h{}:b{}:v{}:ord{}:lib-{}:exit{}", spec_class(&c.spec), c.hash as u8, c.block as u8, c.verbosity % 4, (c.order != 0) as u8, lib_tag(&lib), if exit0 { "0" } else { "nz" });
    check.count(&class, exit0 && matches!(lib, Verdict::Ok(_)) && (c.hash || c.block));
    check.sample(&format!("p3:tables:h{}:b{}", c.hash as u8, c.block as u8), || json!({"part": "tables", "case": c, "exit0": exit0}));
    let ctx = || format!("`{}` on {} → {}", cmdline(&args), c.spec.summary(), show(&run));
    let mut fails = vec![];
    let info = match (&lib, exit0) {
        (Verdict::Ok(i), true) => i.clone(),
        (Verdict::Rejects(e), true) => {
            fails.push(Fail::new("exit0-on-rejected-input:mpq:info", format!("{} — the library: {}", ctx(), vcheck::engine::truncate(e, 200))));
            return crate::settle(check, fails);
        }
        (Verdict::Ok(_), false) => {
            fails.push(Fail::new("info-fails-on-readable-archive:tables", ctx()));
            return crate::settle(check, fails);
        }
        _ => return Ok(()),
    };
    check.bump("p3:judged:mpq:info", 1);
    let out = &run.stdout;
    if !quiet || !out.trim().is_empty() {
        let (fmt, n) = crate::part1::parse_info(out);
        if let Some(f) = fmt {
            if Some(f.as_str()) != info["format"].as_str() {
                fails.push(Fail::new("info-format-version-differs-from-library:tables", format!("{} — says {f}, get_info says {}", ctx(), info["format"])));
            }
        }
        if let Some(n) = n {
            if Some(n) != info["file_count"].as_u64() {
                fails.push(Fail::new("info-file-count-differs-from-library:tables", format!("{} — says {n}, get_info().file_count is {}", ctx(), info["file_count"])));
            }
        }
        for (on, title, key, stop) in [(c.hash, "Hash Table", "hash_table_size", &["Block Table"][..]), (c.block, "Block Table", "block_table_size", &["HET Table", "BET Table"][..])] {
            if !on {
                continue;
            }
            match table_rows(out, title, stop) {
                None => fails.push(Fail::new("info-table-missing:mpq:info", format!("{} — no '{title}' section although the option asks for it", ctx()))),
                Some(None) => {
                    if !info[key].is_null() && info[&format!("{key}_loaded")].as_bool() == Some(true) {
                        fails.push(Fail::new("info-table-missing:mpq:info", format!("{} — '{title}' reported as absent, get_info has {} entries", ctx(), info[key])));
                    }
                }
                Some(Some(n)) => {
                    check.bump("p3:tables:rows-compared", 1);
                    if Some(n) != info[key].as_u64() {
                        fails.push(Fail::new("info-table-rows-differ-from-library:mpq:info", format!("{} — the {title} section has {n} rows, get_info().{key} is {}", ctx(), info[key])));
                    }
                }
            }
        }
    }
    crate::settle(check, fails)
}

fn mpq_tables_lib(path: &Path) -> Result<Value, String> {
    let mut a = wow_mpq::Archive::open(path).map_err(es)?;
    let i = a.get_info().map_err(es)?;
    Ok(json!({
        "format": format!("{:?}", i.format_version),
        "file_count": i.file_count,
        "hash_table_size": i.hash_table_info.size,
        "block_table_size": i.block_table_info.size,
        "hash_table_size_loaded": a.hash_table().is_some(),
        "block_table_size_loaded": a.block_table().is_some(),
    }))
}

// ------------------------------------------------------------------------------------------

#[derive(Clone, Debug, Serialize, Deserialize)]
pub struct PatchCase {
    pub base: ArchiveSpec,
    /// how many of the base's files the patch archive overrides (other bytes, other length)
    pub overrides: u8,
    /// a second patch overrides the first overridden file once more
    pub second: bool,
    /// None = everything the chain lists; Some = selectors (≥ 60000: a name in no archive)
    pub names: Option<Vec<u16>>,
    pub preserve: bool,
    pub skip_errors: bool,
    /// stale files at the targets: 0 none, 1 same length, 2 longer, 3 shorter
    pub prefill: u8,
    pub order: u16,
}

fn patch_of(base: &ArchiveSpec, overrides: u8, level: u32) -> ArchiveSpec {
    let mut p = base.clone();
    let k = (overrides as usize).min(p.files.len());
    p.files.truncate(k.max(1).min(p.files.len()));
    for f in p.files.iter_mut() {
        f.seed = f.seed.wrapping_add(1000 * level);
        f.len.delta = f.len.delta.wrapping_add(3 * level as i16);
    }
    if let Some(mut f) = p.files.first().cloned() {
        f.name = format!("patch_only_{level}.dat");
        p.files.push(f);
    }
    p.listfile = true;
    p
}

pub fn run_patch(check: &Check, c: &PatchCase) -> Result<(), Fail> {
    let sb = Sandbox::new();
    let p1 = patch_of(&c.base, c.overrides, 1);
    let mut p2 = patch_of(&c.base, 1, 2);
    p2.version = if c.base.version >= 4 { 1 } else { c.base.version + 1 };
    if !build_into(&sb, &c.base, "in/base.mpq") || !build_into(&sb, &p1, "in/patch-1.mpq") || (c.second && !build_into(&sb, &p2, "in/patch-2.mpq")) {
        check.bump("p3:builder-refused", 1);
        check.count("p3:patch:builder-refused", false);
        return Ok(());
    }
    let s = |x: &str| x.to_string();
    let mut present: Vec<String> = c.base.files.iter().map(|f| f.name.clone()).collect();
    present.push("patch_only_1.dat".into());
    if c.second {
        present.push("patch_only_2.dat".into());
    }
    let mut req: Vec<String> = vec![];
    let mut n_missing = 0;
    if let Some(sel) = &c.names {
        for x in sel {
            let n = if *x >= 60000 {
                n_missing += 1;
                format!("no_such_file_{}.xyz", x % 4)
            } else {
                present[pick_idx((*x as u32 * 65536 / 60000) as u16, present.len())].clone()
            };
            if !req.contains(&n) {
                req.push(n);
            }
        }
    }
    let mut others = vec![sb.path("in/patch-1.mpq").to_string_lossy().to_string()];
    let mut groups: Vec<Vec<String>> = vec![vec![s("-o"), s("out/x")], vec![s("--patch"), s("in/patch-1.mpq")]];
    if c.second {
        // priority follows the order of the --patch options: keep them one group
        groups[1].extend([s("--patch"), s("in/patch-2.mpq")]);
        others.push(sb.path("in/patch-2.mpq").to_string_lossy().to_string());
    }
    if c.preserve {
        groups.push(vec![s("--preserve-paths")]);
    }
    if c.skip_errors {
        groups.push(vec![s("--skip-errors")]);
    }
    // the file names are trailing positionals: the archive first, the names last, options anywhere before
    let mut args = arrange(&[s("mpq"), s("extract")], &[s("in/base.mpq")], &groups, c.order);
    if !req.is_empty() {
        args.push(s("--"));
        args.extend(req.iter().cloned());
    }
    let lib = ask(Ask::MpqChainRead { others, names: c.names.as_ref().map(|_| req.clone()) }, &sb.path("in/base.mpq"));
    if let (Verdict::Ok(i), true) = (&lib, c.prefill != 0) {
        if let Some(m) = i["files"].as_object() {
            for (name, d) in m {
                if let Some(len) = d["len"].as_u64() {
                    let stale_len = match c.prefill {
                        1 => len as usize,
                        2 => len as usize + 3,
                        _ => len as usize / 2,
                    };
                    if c.prefill == 1 && len == 0 {
                        continue;
                    }
                    sb.write(&crate::part2::extract_target("out/x", name, c.preserve), &stale_bytes(None, 2)[..1].repeat(stale_len));
                }
            }
        }
    }
    let run = sb.run(&args);
    let exit0 = run.ok();
    let class = format!(
        "p3:patch:{}:ov{}:second{}:{}:missing{}:pp{}:skip{}:stale{}:ord{}:lib-{}:exit{}",
        spec_class(&c.base),
        c.overrides.min(3),
        c.second as u8,
        if c.names.is_some() { "named" } else { "all" },
        n_missing.min(2),
        c.preserve as u8,
        c.skip_errors as u8,
        c.prefill,
        (c.order != 0) as u8,
        lib_tag(&lib),
        if exit0 { "0" } else { "nz" }
    );
    check.count(&class, matches!(lib, Verdict::Ok(_)));
    check.sample(&format!("p3:patch:{}:second{}", if c.names.is_some() { "named" } else { "all" }, c.second as u8), || json!({"part": "patch", "case": c, "exit0": exit0}));
    let ctx = || format!("`{}` (base {}) → {}", cmdline(&args), c.base.summary(), show(&run));
    let mut fails = vec![];
    let info = match &lib {
        Verdict::Ok(i) => i.clone(),
        Verdict::Rejects(e) => {
            if exit0 {
                fails.push(Fail::new("exit0-on-rejected-input:mpq:extract", format!("{} — the library's PatchChain: {}", ctx(), vcheck::engine::truncate(e, 200))));
            }
            return crate::settle(check, fails);
        }
        Verdict::Crashed(_) => return Ok(()),
    };
    let errs = info["read_errors"].as_u64().unwrap_or(0);
    if errs > 0 && !c.skip_errors {
        if exit0 {
            let sig = if errs == n_missing as u64 { "exit0-on-missing-name:mpq:extract" } else { "exit0-on-failed-extraction:mpq:extract" };
            fails.push(Fail::new(sig, format!("{} — PatchChain::read_file fails for {errs} requested name(s) and --skip-errors was not given", ctx())));
        }
        return crate::settle(check, fails);
    }
    if errs == 0 && !exit0 {
        check.bump("p3:cli-refuses-what-library-does:mpq:extract-patch", 1);
        return Ok(());
    }
    check.bump("p3:judged:mpq:extract-patch", 1);
    match crate::part2::check_extracted(&sb, &info["files"], "out/x", c.preserve, None) {
        Ok(n) => check.bump("p3:patch:files-compared", n as u64),
        Err(m) => fails.push(Fail::new("patch-chain-extraction-differs-from-library:mpq:extract", format!("{} — {m} (PatchChain::read_file is the reference)", ctx()))),
    }
    crate::settle(check, fails)
}

fn chain_read(path: &Path, others: &[String], names: Option<&[String]>) -> Result<Value, String> {
    let mut c = wow_mpq::PatchChain::new();
    c.add_archive(path, 0).map_err(es)?;
    for (i, o) in others.iter().enumerate() {
        // "Patch archives to apply (in order of priority)"
        c.add_archive(Path::new(o), ((i + 1) * 100) as i32).map_err(es)?;
    }
    let names: Vec<String> = match names {
        Some(n) => n.to_vec(),
        None => c.list().map_err(es)?.into_iter().map(|e| e.name).collect(),
    };
    let mut m = serde_json::Map::new();
    let mut errs = 0;
    for n in &names {
        match c.read_file(n) {
            Ok(d) => {
                m.insert(n.clone(), json!({"len": d.len(), "h": format!("{:016x}", fnv(&d))}));
            }
            Err(e) => {
                errs += 1;
                m.insert(n.clone(), json!({"err": e.to_string()}));
            }
        }
    }
    Ok(json!({"files": Value::Object(m), "read_errors": errs, "names": names}))
}

// ------------------------------------------------------------------------------------------

#[derive(Clone, Debug, Serialize, Deserialize)]
pub struct FileTypeCase {
    pub spec: ArchiveSpec,
    pub file_type: String,
    pub preserve: bool,
    pub order: u16,
}

pub fn run_filetype(check: &Check, c: &FileTypeCase) -> Result<(), Fail> {
    let sb = Sandbox::new();
    if !build_into(&sb, &c.spec, "in/a.mpq") {
        check.bump("p3:builder-refused", 1);
        check.count("p3:filetype:builder-refused", false);
        return Ok(());
    }
    let s = |x: &str| x.to_string();
    let mut groups: Vec<Vec<String>> = vec![vec![s("-o"), s("out/x")], vec![s("-f"), c.file_type.clone()]];
    if c.preserve {
        groups.push(vec![s("-p")]);
    }
    let args = arrange(&[s("mpq"), s("extract")], &[s("in/a.mpq")], &groups, c.order);
    let lib = oracle::ask(&Entry::MpqReadAll, &sb.path("in/a.mpq"));
    let run = sb.run(&args);
    let exit0 = run.ok();
    let Verdict::Ok(info) = &lib else {
        check.count("p3:filetype:source-unreadable", false);
        return Ok(());
    };
    // "File types to extract (e.g. ".txt", "jpg"). Case-insensitive."
    let ty = c.file_type.to_lowercase();
    let all: Vec<String> = info["names"].as_array().map(|a| a.iter().filter_map(|x| x.as_str().map(|s| s.to_string())).collect()).unwrap_or_default();
    let want: Vec<String> = all.iter().filter(|n| n.to_lowercase().ends_with(&ty)).cloned().collect();
    let errs = want.iter().filter(|n| info["files"][n.as_str()].get("err").is_some()).count();
    let class = format!("p3:filetype:{}:sel{}of{}:pp{}:ord{}:exit{}", spec_class(&c.spec), want.len().min(3), all.len().min(4), c.preserve as u8, (c.order != 0) as u8, if exit0 { "0" } else { "nz" });
    check.count(&class, !want.is_empty() && want.len() < all.len());
    check.sample(&format!("p3:filetype:sel{}", want.len().min(2)), || json!({"part": "filetype", "case": c, "exit0": exit0}));
    let ctx = || format!("`{}` on {} → {}", cmdline(&args), c.spec.summary(), show(&run));
    let mut fails = vec![];
    if errs > 0 {
        if exit0 {
            fails.push(Fail::new("exit0-on-failed-extraction:mpq:extract", format!("{} — the library cannot read {errs} of the selected files", ctx())));
        }
        return crate::settle(check, fails);
    }
    if !exit0 {
        check.bump("p3:cli-refuses-what-library-does:mpq:extract-type", 1);
        if std::env::var("C20_P3_DEBUG").is_ok() {
            eprintln!("[p3 debug] extract -f refused: {} ; selected {:?} of {:?}", ctx(), want, all);
        }
        return Ok(());
    }
    check.bump("p3:judged:mpq:extract-type", 1);
    if let Err(m) = crate::part2::check_extracted(&sb, &info["files"], "out/x", c.preserve, Some(&want)) {
        fails.push(Fail::new("file-type-extraction-incomplete:mpq:extract", format!("{} — {m}; -f {:?} selects {:?}", ctx(), c.file_type, want)));
    }
    let want_targets: BTreeSet<String> = want.iter().map(|n| crate::part2::extract_target("out/x", n, c.preserve)).collect();
    for n in &all {
        let t = crate::part2::extract_target("out/x", n, c.preserve);
        if !want.contains(n) && !want_targets.contains(&t) && sb.exists(&t) {
            fails.push(Fail::new("file-type-filter-ignored:mpq:extract", format!("{} — {n:?} does not end with {:?} but was extracted to {t}", ctx(), c.file_type)));
            break;
        }
    }
    crate::settle(check, fails)
}

// ------------------------------------------------------------------------------------------
// wdt tiles

#[derive(Clone, Debug, Serialize, Deserialize)]
pub struct TilesCase {
    pub base: String,
    pub version: String,
    /// 0 text, 1 csv, 2 json
    pub format: u8,
    pub verbosity: u8,
    pub order: u16,
}

fn wdt_tiles_lib(path: &Path, version: &str) -> Result<Value, String> {
    let v = wow_wdt::version::WowVersion::from_expansion_name(version).map_err(es)?;
    let mut rd = wow_wdt::WdtReader::new(std::io::BufReader::new(std::fs::File::open(path).map_err(es)?), v);
    let w = rd.read().map_err(es)?;
    let mut tiles = vec![];
    for y in 0..64usize {
        for x in 0..64usize {
            if let Some(t) = w.get_tile(x, y) {
                if t.has_adt {
                    tiles.push(json!([x, y, t.area_id]));
                }
            }
        }
    }
    Ok(json!({"tiles": tiles, "count": w.count_existing_tiles()}))
}

pub fn run_tiles(check: &Check, c: &TilesCase) -> Result<(), Fail> {
    let sb = Sandbox::new();
    let base = fixtures::base(&c.base).map_err(|e| Fail::new("harness:fixture-failed", format!("{}: {e}", c.base)))?;
    sb.write("in/map.wdt", &base);
    let s = |x: &str| x.to_string();
    let fmt = ["text", "csv", "json"][c.format as usize % 3];
    let mut groups: Vec<Vec<String>> = vec![vec![s("--version"), c.version.clone()]];
    if fmt != "text" || c.order % 2 == 1 {
        groups.push(vec![s("-f"), s(fmt)]);
    }
    let quiet = c.verbosity % 4 == 2;
    groups.extend(verbosity_group(c.verbosity));
    let args = arrange(&[s("wdt"), s("tiles")], &[s("in/map.wdt")], &groups, c.order);
    let lib = ask(Ask::WdtTiles { version: c.version.clone() }, &sb.path("in/map.wdt"));
    let run = sb.run(&args);
    let exit0 = run.ok();
    let class = format!("p3:tiles:{}:{}:{fmt}:v{}:ord{}:lib-{}:exit{}", c.base.split(':').next().unwrap_or(""), c.version.to_lowercase(), c.verbosity % 4, (c.order != 0) as u8, lib_tag(&lib), if exit0 { "0" } else { "nz" });
    check.count(&class, exit0 && matches!(lib, Verdict::Ok(_)));
    check.sample(&format!("p3:tiles:{fmt}"), || json!({"part": "tiles", "case": c, "exit0": exit0}));
    let ctx = || format!("`{}` on {} → {}", cmdline(&args), c.base, show(&run));
    let mut fails = vec![];
    let info = match (&lib, exit0) {
        (Verdict::Ok(i), true) => i.clone(),
        (Verdict::Rejects(e), true) => {
            fails.push(Fail::new("exit0-on-rejected-input:wdt:tiles", format!("{} — WdtReader::read returns Err({})", ctx(), vcheck::engine::truncate(e, 200))));
            return crate::settle(check, fails);
        }
        _ => return Ok(()),
    };
    let want: BTreeSet<(u64, u64, u64)> = info["tiles"].as_array().map(|a| a.iter().map(|t| (t[0].as_u64().unwrap_or(0), t[1].as_u64().unwrap_or(0), t[2].as_u64().unwrap_or(0))).collect()).unwrap_or_default();
    if quiet && run.stdout.trim().is_empty() {
        return Ok(());
    }
    check.bump("p3:judged:wdt:tiles", 1);
    let out = &run.stdout;
    let got: Result<BTreeSet<(u64, u64, u64)>, String> = match fmt {
        "csv" => read_csv(out).and_then(|rows| {
            if rows.first().map(|r| r.join(",")) != Some("x,y,area_id".to_string()) {
                return Err(format!("header row {:?}", rows.first()));
            }
            rows[1..].iter().map(|r| if r.len() == 3 { Ok((r[0].parse().map_err(es)?, r[1].parse().map_err(es)?, r[2].parse().map_err(es)?)) } else { Err(format!("row {r:?}")) }).collect()
        }),
        "json" => serde_json::from_str::<Value>(out).map_err(es).and_then(|v| {
            v.as_array().ok_or("not an array".to_string())?.iter().map(|t| Ok((t["x"].as_u64().ok_or("x")?, t["y"].as_u64().ok_or("y")?, t["area_id"].as_u64().ok_or("area_id")?))).collect()
        }),
        _ => {
            let mut set = BTreeSet::new();
            for l in out.lines() {
                // "  [ x, y] - Area ID: a"
                if let Some((pos, area)) = l.trim().strip_prefix('[').and_then(|r| r.split_once("] - Area ID:")) {
                    if let Some((x, y)) = pos.split_once(',') {
                        if let (Ok(x), Ok(y), Ok(a)) = (x.trim().parse(), y.trim().parse(), area.trim().parse()) {
                            set.insert((x, y, a));
                        }
                    }
                }
            }
            if let Some(n) = labelled_u64(out, "Total:") {
                if n != want.len() as u64 {
                    fails.push(Fail::new("tiles-count-differs-from-library:wdt:tiles", format!("{} — 'Total: {n} tiles', the library finds {}", ctx(), want.len())));
                }
            }
            Ok(set)
        }
    };
    match got {
        Err(e) => fails.push(Fail::new("exit0-with-unparseable-output:wdt:tiles", format!("{} — the {fmt} output does not parse: {e}", ctx()))),
        Ok(g) if g != want => {
            let missing: Vec<_> = want.difference(&g).take(3).collect();
            let extra: Vec<_> = g.difference(&want).take(3).collect();
            fails.push(Fail::new("tiles-differ-from-library:wdt:tiles", format!("{} — {} tiles printed, WdtFile::get_tile has {} with ADT data; not printed {:?}, only printed {:?}", ctx(), g.len(), want.len(), missing, extra)));
        }
        Ok(_) => {}
    }
    crate::settle(check, fails)
}

// ------------------------------------------------------------------------------------------
// mpq grids and strategies

fn grid_specs() -> Vec<ArchiveSpec> {
    ["v1", "v2", "v3", "v4"].iter().filter_map(|id| fixtures::mpq_spec(id)).collect()
}

fn spec_strategy() -> impl proptest::strategy::Strategy<Value = ArchiveSpec> + use<> {
    use proptest::prelude::*;
    crate::part1::lib_strategy().prop_map(|c| c.spec)
}

pub fn rebuild_grid(thorough: bool) -> Vec<RebuildCase> {
    let d = RebuildOpts { upgrade_to: None, preserve_format: false, skip_encrypted: false, skip_signatures: false, verify: false, compression: None, block_size: None, list_only: false };
    let mut sets = vec![
        d.clone(),
        RebuildOpts { preserve_format: true, ..d.clone() },
        RebuildOpts { skip_encrypted: true, verify: true, ..d.clone() },
        RebuildOpts { skip_signatures: true, compression: Some(2), ..d.clone() },
        RebuildOpts { block_size: Some(5), compression: Some(0), ..d.clone() },
        RebuildOpts { list_only: true, ..d.clone() },
        RebuildOpts { preserve_format: true, skip_encrypted: true, skip_signatures: true, verify: true, compression: Some(1), block_size: Some(2), ..d.clone() },
    ];
    for v in 1..=4u8 {
        sets.push(RebuildOpts { upgrade_to: Some(v), verify: v % 2 == 0, compression: if v == 3 { Some(3) } else { None }, ..d.clone() });
    }
    let mut out = vec![];
    let mut k = 0usize;
    for (i, spec) in grid_specs().into_iter().enumerate() {
        for (j, o) in sets.iter().enumerate() {
            k += 1;
            if thorough || (i + j) % 2 == 0 {
                out.push(RebuildCase { spec: spec.clone(), opts: o.clone(), prefill: (k % 3) as u8, order: if k % 2 == 0 { k as u16 } else { 0 } });
            }
        }
    }
    out
}

pub fn rebuild_strategy() -> impl proptest::strategy::Strategy<Value = RebuildCase> + use<> {
    use proptest::prelude::*;
    let opts = (proptest::option::weighted(0.4, 1u8..=4), any::<bool>(), any::<bool>(), any::<bool>(), any::<bool>(), proptest::option::weighted(0.4, 0u8..4), proptest::option::weighted(0.3, 0u8..7), prop_oneof![6 => Just(false), 1 => Just(true)])
        .prop_map(|(upgrade_to, preserve_format, skip_encrypted, skip_signatures, verify, compression, block_size, list_only)| RebuildOpts { upgrade_to, preserve_format, skip_encrypted, skip_signatures, verify, compression, block_size, list_only });
    (spec_strategy(), opts, 0u8..3, prop_oneof![1 => Just(0u16), 1 => any::<u16>()]).prop_map(|(spec, opts, prefill, order)| RebuildCase { spec, opts, prefill, order })
}

pub fn compare_grid(thorough: bool) -> Vec<CompareCase> {
    let mut out = vec![];
    let mut k = 0usize;
    for (i, spec) in grid_specs().into_iter().enumerate() {
        for variant in 0..6u8 {
            for output in 0..3u8 {
                k += 1;
                if thorough || (i + variant as usize + output as usize) % 2 == 0 {
                    out.push(CompareCase {
                        spec: spec.clone(),
                        variant,
                        which: (k * 9973 % 65536) as u16,
                        detailed: k % 2 == 0,
                        content_check: k % 3 != 0,
                        metadata_only: k % 7 == 0,
                        ignore_order: k % 5 == 0,
                        output,
                        filter: if k % 4 == 0 { Some(["*.txt", "Data*", "*blob*"][k % 3].to_string()) } else { None },
                        order: if k % 2 == 1 { k as u16 } else { 0 },
                    });
                }
            }
        }
    }
    out
}

pub fn compare_strategy() -> impl proptest::strategy::Strategy<Value = CompareCase> + use<> {
    use proptest::prelude::*;
    (spec_strategy(), 0u8..6, any::<u16>(), proptest::collection::vec(any::<bool>(), 4), 0u8..3, proptest::option::weighted(0.25, prop_oneof![Just("*.txt".to_string()), Just("*a*".to_string()), Just("*".to_string())]), prop_oneof![1 => Just(0u16), 1 => any::<u16>()]).prop_map(
        |(spec, variant, which, b, output, filter, order)| CompareCase { spec, variant, which, detailed: b[0], content_check: b[1], metadata_only: b[2] && b[3], ignore_order: b[3], output, filter, order },
    )
}

pub fn validate_grid(thorough: bool) -> Vec<ValidateCase> {
    let mut out = vec![];
    let mut k = 0usize;
    for spec in grid_specs() {
        for corrupt in [None, Some((0u16, 30000u16)), Some((30000, 100)), Some((50000, 60000)), Some((65535, 20000))] {
            for verbosity in 0..4u8 {
                k += 1;
                if thorough || corrupt.is_none() || verbosity as usize % 2 == (k / 4) % 2 {
                    out.push(ValidateCase { spec: spec.clone(), corrupt, check_checksums: k % 2 == 0, threads: if k % 3 == 0 { Some(2) } else { None }, verbosity, order: if k % 2 == 1 { k as u16 } else { 0 } });
                }
            }
        }
    }
    out
}

pub fn validate_strategy() -> impl proptest::strategy::Strategy<Value = ValidateCase> + use<> {
    use proptest::prelude::*;
    (spec_strategy(), proptest::option::weighted(0.7, (any::<u16>(), any::<u16>())), any::<bool>(), proptest::option::weighted(0.3, 1u8..5), 0u8..4, prop_oneof![1 => Just(0u16), 1 => any::<u16>()])
        .prop_map(|(spec, corrupt, check_checksums, threads, verbosity, order)| ValidateCase { spec, corrupt, check_checksums, threads, verbosity, order })
}

pub fn tables_grid() -> Vec<TablesCase> {
    let mut out = vec![];
    let mut k = 0usize;
    let mut specs = grid_specs();
    specs.extend(fixtures::mpq_spec("v1-nolist"));
    for spec in specs {
        for (hash, block) in [(false, false), (true, false), (false, true), (true, true)] {
            k += 1;
            out.push(TablesCase { spec: spec.clone(), hash, block, verbosity: (k % 4) as u8, order: if k % 2 == 0 { k as u16 } else { 0 } });
        }
    }
    out
}

pub fn tables_strategy() -> impl proptest::strategy::Strategy<Value = TablesCase> + use<> {
    use proptest::prelude::*;
    (spec_strategy(), any::<bool>(), any::<bool>(), 0u8..4, any::<u16>()).prop_map(|(spec, hash, block, verbosity, order)| TablesCase { spec, hash, block, verbosity, order })
}

pub fn patch_grid(thorough: bool) -> Vec<PatchCase> {
    let mut out = vec![];
    let mut k = 0usize;
    for spec in grid_specs() {
        for overrides in [0u8, 1, 3] {
            for (names, skip_errors) in [(None, false), (Some(vec![0u16, 20000, 59999]), false), (Some(vec![10000, 65000]), false), (Some(vec![65001, 40000, 59999]), true)] {
                k += 1;
                if thorough || k % 2 == 0 {
                    out.push(PatchCase { base: spec.clone(), overrides, second: k % 3 == 0, names, preserve: k % 2 == 0, skip_errors, prefill: (k % 4) as u8, order: if k % 3 == 1 { k as u16 } else { 0 } });
                }
            }
        }
    }
    out
}

pub fn patch_strategy() -> impl proptest::strategy::Strategy<Value = PatchCase> + use<> {
    use proptest::prelude::*;
    (spec_strategy(), 0u8..4, any::<bool>(), proptest::option::weighted(0.6, proptest::collection::vec(prop_oneof![5 => 0u16..60000, 1 => 60000u16..=65535], 1..5)), any::<bool>(), any::<bool>(), 0u8..4, prop_oneof![1 => Just(0u16), 1 => any::<u16>()])
        .prop_map(|(base, overrides, second, names, preserve, skip_errors, prefill, order)| PatchCase { base, overrides, second, names, preserve, skip_errors, prefill, order })
}

const FILE_TYPES: [&str; 8] = [".txt", "TXT", "bin", ".dbc", ".BLP", "nomatch", "t", ".dat"];

pub fn filetype_grid(thorough: bool) -> Vec<FileTypeCase> {
    let mut out = vec![];
    let mut k = 0usize;
    for spec in grid_specs() {
        for t in FILE_TYPES {
            k += 1;
            if thorough || k % 2 == 0 {
                out.push(FileTypeCase { spec: spec.clone(), file_type: t.to_string(), preserve: k % 3 == 0, order: if k % 4 == 0 { k as u16 } else { 0 } });
            }
        }
    }
    out
}

pub fn filetype_strategy() -> impl proptest::strategy::Strategy<Value = FileTypeCase> + use<> {
    use proptest::prelude::*;
    (spec_strategy(), any::<u16>(), any::<u16>(), any::<bool>(), any::<u16>()).prop_map(|(spec, fi, cut, preserve, order)| {
        // a suffix of one of the archive's own names (or of a fixed list), in upper or lower case
        let file_type = if spec.files.is_empty() || cut % 5 == 0 {
            FILE_TYPES[pick_idx(fi, FILE_TYPES.len())].to_string()
        } else {
            let n: Vec<char> = spec.files[pick_idx(fi, spec.files.len())].name.chars().collect();
            let k = 1 + pick_idx(cut, n.len().min(6));
            let t: String = n[n.len() - k.min(n.len())..].iter().collect();
            // a value that starts with '-' is an option to the argument parser
            let t = t.trim_start_matches('-').to_string();
            let t = if t.is_empty() { ".dat".to_string() } else { t };
            if cut % 2 == 0 { t.to_uppercase() } else { t }
        };
        FileTypeCase { spec, file_type, preserve, order }
    })
}

pub fn tiles_grid(thorough: bool) -> Vec<TilesCase> {
    let mut out = vec![];
    let mut k = 0usize;
    for (b, own) in WDT_BASES {
        for format in 0..3u8 {
            for version in [own, "WotLK", "1.12.1"] {
                k += 1;
                if thorough || k % 2 == 0 {
                    out.push(TilesCase { base: b.to_string(), version: version.to_string(), format, verbosity: (k % 4) as u8, order: if k % 3 == 0 { k as u16 } else { 0 } });
                }
            }
        }
    }
    out
}

// ==========================================================================================
// flags: display flags never change the verdict; the order of flags never changes anything

pub struct FlagCmd {
    /// family:sub
    pub key: &'static str,
    pub input: &'static str,
    /// valid inputs plus inputs the command is known to find fault with
    pub bases: &'static [&'static str],
    pub aux: &'static [(&'static str, &'static str)],
    pub extra_pos: &'static [&'static str],
    /// option groups that are always given
    pub fixed: &'static [&'static [&'static str]],
    /// boolean flags that only change what is shown ("Show ...", "Verbosity", "Suppress all output",
    /// "Disable colored output", "Compact ..." in --help)
    pub display: &'static [&'static str],
    /// boolean flags that change what is done; used for order permutations only
    pub other: &'static [&'static str],
}

const F_MPQS: &[&str] = &["mpq:v1", "mpq:v2", "mpq:v3", "mpq:v4", "mpq:v1-nolist"];
const F_M2S: &[&str] = &["m2:vanilla", "m2:tbc", "m2:wotlk", "m2:cata", "m2:no-vertices"];
const F_BLPS: &[&str] = &["blp:test_simple_without_alpha.blp", "blp:test_rect_with_alpha.blp", "blp:test_simple_jpg.blp", "blp:raw3", "blp:dxt1:6x6", "blp:dxt1:2x2", "blp:dxt5:12x20:mips", "blp:dxt3:5x8", "blp:dxt1:24x12"];
const F_WMOS: &[&str] = &["wmo:root-wotlk", "wmo:root-mop", "wmo:root-classic", "wmo:group"];
const F_ADTS: &[&str] = &["adt:vanilla-early", "adt:vanilla-late", "adt:wotlk"];
const F_WDTS: &[&str] = &["wdt:terrain-wotlk", "wdt:wmo-wotlk", "wdt:terrain-cata"];
const F_WDLS: &[&str] = &["wdl:wotlk", "wdl:vanilla", "wdl:legion"];
const F_DBCS: &[&str] = &["dbc:five", "dbc:one", "dbc:empty"];
const VQ: [&str; 2] = ["-v", "-q"];

pub fn flag_cmds() -> Vec<FlagCmd> {
    let schema: &'static [(&'static str, &'static str)] = &[("in/schema.yaml", "yaml:dbc-schema")];
    let c = |key, input, bases, display: &'static [&'static str], other: &'static [&'static str]| FlagCmd { key, input, bases, aux: &[], extra_pos: &[], fixed: &[], display, other };
    vec![
        c("mpq:info", "in/a.mpq", F_MPQS, &["--show-hash-table", "--show-block-table", "-v", "-q"], &[]),
        FlagCmd { fixed: &[&["--threads", "2"]], ..c("mpq:validate", "in/a.mpq", F_MPQS, &VQ, &["--check-checksums"]) },
        c("mpq:list", "in/a.mpq", F_MPQS, &VQ, &["-l", "--show-patches"]),
        c("mpq:tree", "in/a.mpq", F_MPQS, &["--no-color", "--compact", "--no-external-refs", "-v", "-q"], &[]),
        c("mpq:patch-chain", "in/a.mpq", F_MPQS, &VQ, &["-d"]),
        FlagCmd { aux: &[("in/b.mpq", "mpq:v2")], extra_pos: &["in/b.mpq"], ..c("mpq:compare", "in/a.mpq", F_MPQS, &VQ, &["--detailed", "--content-check", "--metadata-only", "--ignore-order"]) },
        c("dbc:info", "in/Test.dbc", F_DBCS, &VQ, &[]),
        FlagCmd { aux: schema, fixed: &[&["-s", "in/schema.yaml"]], ..c("dbc:analyze", "in/Test.dbc", F_DBCS, &VQ, &["--cache-strings", "--sorted-keys"]) },
        FlagCmd { fixed: &[&["-m", "0"]], ..c("dbc:discover", "in/Test.dbc", F_DBCS, &VQ, &["--validate-strings", "--detect-arrays", "--detect-key"]) },
        FlagCmd { aux: schema, fixed: &[&["-s", "in/schema.yaml"]], ..c("dbc:validate", "in/Test.dbc", F_DBCS, &VQ, &[]) },
        c("blp:info", "in/tex.blp", F_BLPS, &["--mipmaps", "--raw", "--compression", "--size", "--all", "-v", "-q"], &[]),
        c("blp:validate", "in/tex.blp", F_BLPS, &VQ, &["--strict"]),
        c("m2:info", "in/model.m2", F_M2S, &["-d", "-v", "-q"], &[]),
        c("m2:validate", "in/model.m2", F_M2S, &["-w", "-v", "-q"], &[]),
        c("m2:tree", "in/model.m2", F_M2S, &["-s", "-r", "-v", "-q"], &[]),
        c("m2:skin-info", "in/model00.skin", &["skin:old", "skin:new"], &["-d", "-v", "-q"], &[]),
        c("m2:anim-info", "in/a.anim", &["anim:modern", "anim:legacy"], &["-d", "-v", "-q"], &[]),
        c("m2:blp-info", "in/tex.blp", F_BLPS, &["-d", "-v", "-q"], &[]),
        c("wmo:info", "in/obj.wmo", F_WMOS, &["-d", "-v", "-q"], &[]),
        c("wmo:validate", "in/obj.wmo", F_WMOS, &["-w", "-d", "-v", "-q"], &[]),
        c("wmo:tree", "in/obj.wmo", F_WMOS, &["--show-refs", "--no-color", "--no-metadata", "--compact", "--detailed", "-v", "-q"], &[]),
        c("adt:info", "in/tile.adt", F_ADTS, &["-d", "-v", "-q"], &[]),
        FlagCmd { fixed: &[&["-l", "strict"]], ..c("adt:validate", "in/tile.adt", F_ADTS, &["-w", "-v", "-q"], &[]) },
        c("adt:tree", "in/tile.adt", F_ADTS, &["--show-refs", "--no-color", "--no-metadata", "--compact", "-v", "-q"], &[]),
        c("wdt:info", "in/map.wdt", F_WDTS, &["-d", "-v", "-q"], &[]),
        c("wdt:validate", "in/map.wdt", F_WDTS, &["-w", "-v", "-q"], &[]),
        c("wdt:tree", "in/map.wdt", F_WDTS, &["--no-external-refs", "--no-color", "--compact", "-v", "-q"], &[]),
        c("wdl:info", "in/map.wdl", F_WDLS, &VQ, &[]),
        c("wdl:validate", "in/map.wdl", F_WDLS, &VQ, &[]),
        c("wdl:tree", "in/map.wdl", F_WDLS, &["--no-external-refs", "--no-color", "--compact", "-v", "-q"], &[]),
    ]
}

#[derive(Clone, Debug, Serialize, Deserialize)]
pub struct FlagsCase {
    pub cmd: String,
    pub base: String,
    pub damage: Damage,
    pub display: Vec<String>,
    pub other: Vec<String>,
    pub order_a: u16,
    pub order_b: u16,
}

/// What a run printed, as a sorted bag of tokens: line order, tree drawing, the order of inline
/// `[key:value, key:value]` lists (hash-map order in the tool) and durations are not content.
fn untimed(s: &str) -> Vec<String> {
    let is_duration = |t: &str| {
        let digits = t.trim_end_matches(|c: char| c.is_alphabetic() || c == 'µ');
        let unit = &t[digits.len()..];
        !digits.is_empty() && digits.chars().all(|c| c.is_ascii_digit() || c == '.') && matches!(unit, "ns" | "µs" | "us" | "ms" | "s")
    };
    let mut v: Vec<String> = s.split(|c: char| c.is_whitespace() || "[],│├└─".contains(c)).filter(|t| !t.is_empty() && !is_duration(t)).map(|t| t.to_string()).collect();
    v.sort();
    v
}

pub fn run_flags(check: &Check, c: &FlagsCase) -> Result<(), Fail> {
    let cmds = flag_cmds();
    let Some(fc) = cmds.iter().find(|f| f.key == c.cmd) else {
        return Err(Fail::new("harness:unknown-flag-command", c.cmd.clone()));
    };
    let sb = Sandbox::new();
    for (p, id) in fc.aux {
        let b = fixtures::base(id).map_err(|e| Fail::new("harness:fixture-failed", format!("{id}: {e}")))?;
        sb.write(p, &b);
    }
    let base = fixtures::base(&c.base).map_err(|e| Fail::new("harness:fixture-failed", format!("{}: {e}", c.base)))?;
    if let Some(b) = c.damage.apply(&base) {
        sb.write(fc.input, &b);
    }
    let s = |x: &str| x.to_string();
    let (fam, sub) = fc.key.split_once(':').unwrap();
    let words = [s(fam), s(sub)];
    let mut pos = vec![s(fc.input)];
    pos.extend(fc.extra_pos.iter().map(|x| s(x)));
    let display: Vec<String> = c.display.iter().filter(|f| fc.display.contains(&f.as_str())).cloned().collect();
    let other: Vec<String> = c.other.iter().filter(|f| fc.other.contains(&f.as_str())).cloned().collect();
    let mut g0: Vec<Vec<String>> = fc.fixed.iter().map(|g| g.iter().map(|x| s(x)).collect()).collect();
    g0.extend(other.iter().map(|f| vec![f.clone()]));
    let mut g1 = g0.clone();
    g1.extend(display.iter().map(|f| vec![f.clone()]));
    let a0 = arrange(&words, &pos, &g0, 0);
    let aa = arrange(&words, &pos, &g1, c.order_a);
    let ab = arrange(&words, &pos, &g1, if c.order_b == c.order_a { c.order_a.wrapping_add(1) } else { c.order_b });
    let r0 = sb.run(&a0);
    let ra = sb.run(&aa);
    let rb = sb.run(&ab);
    let st = |r: &RunOut| if r.ok() { "0" } else { "nz" };
    let class = format!("p3:flags:{}:{}:{}:d{}:o{}:plain-{}:flags-{}", fc.key, c.base.split(':').take(2).collect::<Vec<_>>().join(":"), c.damage.kind(), display.len().min(3), other.len().min(3), st(&r0), st(&ra));
    let nontrivial = (!r0.ok() && !display.is_empty()) || display.len() + other.len() >= 2;
    check.count(&class, nontrivial);
    check.sample(&format!("p3:flags:{}:{}", fc.key, st(&r0)), || json!({"part": "flags", "case": c, "plain": st(&r0), "with_flags": st(&ra)}));
    if !r0.ok() && !display.is_empty() {
        check.bump("p3:flags:display-flags-on-failing-input", 1);
        check.bump(&format!("p3:flags:failing:{}", fc.key), 1);
    }
    if display.len() + other.len() >= 2 {
        check.bump("p3:flags:order-permutations", 1);
    }
    let mut fails = vec![];
    if ra.ok() != rb.ok() {
        fails.push(Fail::new(format!("exit-status-depends-on-flag-order:{}", fc.key), format!("`{}` → {}; `{}` → {} (input {}, {})", cmdline(&aa), show(&ra), cmdline(&ab), show(&rb), c.base, c.damage.kind())));
    } else if untimed(&ra.stdout) != untimed(&rb.stdout) {
        // is the output a function of the command line at all? each arrangement twice more
        let (ra2, ra3, rb2, rb3) = (sb.run(&aa), sb.run(&aa), sb.run(&ab), sb.run(&ab));
        let (x, y) = (untimed(&ra.stdout), untimed(&rb.stdout));
        if untimed(&ra2.stdout) == x && untimed(&ra3.stdout) == x && untimed(&rb2.stdout) == y && untimed(&rb3.stdout) == y {
            let only_a: Vec<&String> = x.iter().filter(|t| y.binary_search(t).is_err()).take(6).collect();
            let only_b: Vec<&String> = y.iter().filter(|t| x.binary_search(t).is_err()).take(6).collect();
            fails.push(Fail::new(
                format!("output-depends-on-flag-order:{}", fc.key),
                format!("`{}` and `{}` (input {}, {}) print different content ({} vs {} tokens; only in the first: {:?}; only in the second: {:?})", cmdline(&aa), cmdline(&ab), c.base, c.damage.kind(), x.len(), y.len(), only_a, only_b),
            ));
        } else {
            check.bump(&format!("p3:flags:nondeterministic-stdout:{}", fc.key), 1);
        }
    }
    if !display.is_empty() {
        if !r0.ok() && ra.ok() {
            fails.push(Fail::new(
                format!("exit-status-depends-on-display-flags:{}", fc.key),
                format!("`{}` → {}, but with display flags only `{}` → {} (input {}, {})", cmdline(&a0), show(&r0), cmdline(&aa), show(&ra), c.base, c.damage.kind()),
            ));
        } else if r0.ok() && !ra.ok() {
            if matches!(c.damage, Damage::None) {
                fails.push(Fail::new(
                    format!("exit-status-depends-on-display-flags:{}", fc.key),
                    format!("`{}` → {} on a valid input, but with display flags only `{}` → {} (input {})", cmdline(&a0), show(&r0), cmdline(&aa), show(&ra), c.base),
                ));
            } else {
                check.bump(&format!("p3:flags:more-output-fails-on-damaged-input:{}", fc.key), 1);
            }
        }
    }
    crate::settle(check, fails)
}

/// every command × every base valid and damaged × (each display flag alone, all of them, all of
/// everything) — the failing inputs are the damaged ones plus the fixtures the validators reject
pub fn flags_grid(thorough: bool) -> Vec<FlagsCase> {
    let mut out = vec![];
    let mut k = 0usize;
    let damages = [Damage::None, Damage::Truncate { sel: 30000 }, Damage::Garbage { len: 300, seed: 7, keep: 0 }, Damage::Empty, Damage::Missing, Damage::Garbage { len: 300, seed: 9, keep: 8 }];
    for fc in flag_cmds() {
        let all_d: Vec<String> = fc.display.iter().map(|x| x.to_string()).collect();
        let all_o: Vec<String> = fc.other.iter().map(|x| x.to_string()).collect();
        // -v and -q together are refused by nobody, but "quiet and verbose" has no documented meaning
        let no_q: Vec<String> = all_d.iter().filter(|x| *x != "-q").cloned().collect();
        let mut sets: Vec<(Vec<String>, Vec<String>)> = vec![(no_q.clone(), all_o.clone()), (no_q.clone(), vec![])];
        for d in &all_d {
            sets.push((vec![d.clone()], vec![]));
        }
        if !all_o.is_empty() {
            sets.push((vec![], all_o.clone()));
            sets.push((vec!["-q".into()], all_o.clone()));
        }
        // by construction: every command sees every display flag on an input it cannot read
        // (alone and all together), whatever the sampling below keeps
        out.push(FlagsCase { cmd: fc.key.to_string(), base: fc.bases[0].to_string(), damage: Damage::Empty, display: no_q.clone(), other: vec![], order_a: 3, order_b: 7 });
        for (i, d) in all_d.iter().enumerate() {
            let dmg = if i % 2 == 0 { Damage::Garbage { len: 200, seed: 11 + i as u32, keep: 0 } } else { Damage::Truncate { sel: 9000 } };
            out.push(FlagsCase { cmd: fc.key.to_string(), base: fc.bases[i % fc.bases.len()].to_string(), damage: dmg, display: vec![d.clone()], other: vec![], order_a: 1 + i as u16, order_b: 50 + i as u16 });
        }
        for (bi, b) in fc.bases.iter().enumerate() {
            for (di, dmg) in damages.iter().enumerate() {
                for (si, (d, o)) in sets.iter().enumerate() {
                    k += 1;
                    if thorough || (bi + di + si) % 10 == k % 10 && (di < 2 || (bi + si) % 3 == 0) {
                        out.push(FlagsCase { cmd: fc.key.to_string(), base: b.to_string(), damage: dmg.clone(), display: d.clone(), other: o.clone(), order_a: (k % 97) as u16 + 1, order_b: (k % 89) as u16 + 100 });
                    }
                }
            }
        }
    }
    out
}

pub fn flags_strategy() -> impl proptest::strategy::Strategy<Value = FlagsCase> + use<> {
    use proptest::prelude::*;
    let n = flag_cmds().len();
    (0..n, any::<u16>(), prop_oneof![2 => Just(Damage::None), 3 => crate::damage::damage_strategy()], any::<u16>(), any::<u16>(), any::<u16>(), any::<u16>()).prop_map(|(ci, bi, damage, dmask, omask, order_a, order_b)| {
        let cmds = flag_cmds();
        let fc = &cmds[ci];
        let mut display: Vec<String> = fc.display.iter().enumerate().filter(|(i, _)| dmask >> i & 1 == 1).map(|(_, x)| x.to_string()).collect();
        if display.contains(&"-v".to_string()) && display.contains(&"-q".to_string()) {
            display.retain(|x| x != "-q");
        }
        let other: Vec<String> = fc.other.iter().enumerate().filter(|(i, _)| omask >> i & 1 == 1).map(|(_, x)| x.to_string()).collect();
        FlagsCase { cmd: fc.key.to_string(), base: fc.bases[pick_idx(bi, fc.bases.len())].to_string(), damage, display, other, order_a, order_b }
    })
}

// ==========================================================================================
// driver

/// How the content of what each sub-command produces is judged by part 3 (None = not judged, with
/// the reason). A sub-command that `--help` lists and this table does not know fails the check.
pub const CONTENT: [(&str, &str, Option<&str>, &str); 50] = [
    ("mpq", "info", Some("tables"), "format, file count and hash/block table row counts vs get_info"),
    ("mpq", "validate", Some("validate"), "exit status both ways on intact archives and archives with one corrupted file"),
    ("mpq", "list", Some("part1"), "set of printed names (and --filter subsets) vs Archive::list (part 1)"),
    ("mpq", "extract", Some("patch"), "extracted bytes vs Archive::read_file (part 1), PatchChain::read_file (--patch), -f selection"),
    ("mpq", "create", Some("part1"), "create → extract round trip against the input files (part 1)"),
    ("mpq", "rebuild", Some("rebuild"), "file set and contents of the target vs the source, format / sector size options, summary counts"),
    ("mpq", "compare", Some("compare"), "verdict and difference counts vs compare_archives with the same options"),
    ("mpq", "tree", None, "a drawing; only 'sector_size:' is read (part 1); flag invariance is judged"),
    ("mpq", "debug", None, "free-form dump of internal tables; no library function states the same facts"),
    ("mpq", "patch-chain", None, "a visualisation; the chain's content is judged through `mpq extract --patch`"),
    ("mpq", "db", None, "excluded: manages a per-user database (DESIGN §4 C20)"),
    ("dbc", "info", Some("dbc"), "header numbers and the raw sample record vs DbcParser"),
    ("dbc", "validate", None, "a verdict only: its exit status is judged by part 2 (schema fit) and the flags clause"),
    ("dbc", "list", Some("dbc"), "record count, shown records, every value vs parse_records"),
    ("dbc", "export", Some("dbc"), "record count, field count, every value of the JSON / CSV export vs parse_records"),
    ("dbc", "analyze", Some("dbc"), "'Total records' vs parse_records (timings are not content)"),
    ("dbc", "discover", Some("dbc"), "header numbers vs DbcParser; -o file vs stdout (the guessed types are heuristics, not judged)"),
    ("dbd", "convert", None, "no in-process oracle: wow-cdbc's 'cli' feature (dbd parser) is not built into the harness"),
    ("blp", "info", None, "free-form text"),
    ("blp", "validate", None, "a verdict only: exit status judged by part 2 and the flags clause"),
    ("blp", "convert", Some("conv"), "BLP→image: decoded pixels vs blp_to_image(level); image→BLP: bytes vs image_to_blp + encode_blp with the same options"),
    ("m2", "info", None, "free-form text"),
    ("m2", "validate", None, "a verdict only: exit status judged by part 2 and the flags clause"),
    ("m2", "convert", Some("conv"), "bytes vs M2Converter::convert + M2Model::write for every version name"),
    ("m2", "tree", None, "a drawing"),
    ("m2", "skin-info", None, "free-form text"),
    ("m2", "skin-convert", Some("conv"), "bytes vs SkinFile::convert + write"),
    ("m2", "anim-info", None, "free-form text"),
    ("m2", "anim-convert", Some("conv"), "bytes vs AnimFile::convert + write"),
    ("m2", "blp-info", None, "free-form text"),
    ("wmo", "info", None, "free-form text"),
    ("wmo", "validate", None, "a verdict only"),
    ("wmo", "convert", Some("conv"), "bytes vs WmoConverter::convert_root + WmoWriter::write_root"),
    ("wmo", "export", None, "unimplemented on this tree (always exits non-zero; part 2 notices when that changes)"),
    ("wmo", "list", None, "unimplemented on this tree"),
    ("wmo", "extract-groups", None, "unimplemented on this tree"),
    ("wmo", "tree", None, "a drawing"),
    ("adt", "info", None, "free-form text"),
    ("adt", "validate", None, "a verdict only"),
    ("adt", "convert", Some("conv"), "bytes vs BuiltAdt::from_root_adt(root, target) + to_bytes"),
    ("adt", "tree", None, "a drawing"),
    ("wdt", "info", None, "free-form text"),
    ("wdt", "validate", None, "a verdict only"),
    ("wdt", "convert", Some("conv"), "bytes vs convert_wdt + WdtWriter::write"),
    ("wdt", "tiles", Some("tiles"), "text / csv / json tile list vs WdtFile::get_tile"),
    ("wdt", "tree", None, "a drawing"),
    ("wdl", "info", None, "free-form text"),
    ("wdl", "validate", None, "a verdict only"),
    ("wdl", "convert", Some("conv"), "bytes vs convert_wdl_file + WdlParser::write"),
    ("wdl", "tree", None, "a drawing"),
];

pub const PARTS: [&str; 10] = ["conv", "dbc", "rebuild", "compare", "validate", "tables", "patch", "filetype", "tiles", "flags"];

pub fn replay(check: &Check, part: &str, case: &Value) -> vcheck::engine::CaseResult {
    match part {
        "conv" => run_conv(check, &serde_json::from_value::<ConvCase>(case.clone()).expect("conv case")),
        "dbc" => run_dbc(check, &serde_json::from_value::<DbcCase>(case.clone()).expect("dbc case")),
        "rebuild" => run_rebuild(check, &serde_json::from_value::<RebuildCase>(case.clone()).expect("rebuild case")),
        "compare" => run_compare(check, &serde_json::from_value::<CompareCase>(case.clone()).expect("compare case")),
        "validate" => run_validate(check, &serde_json::from_value::<ValidateCase>(case.clone()).expect("validate case")),
        "tables" => run_tables(check, &serde_json::from_value::<TablesCase>(case.clone()).expect("tables case")),
        "patch" => run_patch(check, &serde_json::from_value::<PatchCase>(case.clone()).expect("patch case")),
        "filetype" => run_filetype(check, &serde_json::from_value::<FileTypeCase>(case.clone()).expect("filetype case")),
        "tiles" => run_tiles(check, &serde_json::from_value::<TilesCase>(case.clone()).expect("tiles case")),
        "flags" => run_flags(check, &serde_json::from_value::<FlagsCase>(case.clone()).expect("flags case")),
        _ => unreachable!(),
    }
}

fn guarded<T: Serialize + Sync>(check: &Check, part: &'static str, items: &[T], f: impl Fn(&T) -> Result<(), Fail> + Sync) {
    crate::parallel_for(items, |c| {
        let r = vcheck::engine::guard(part, || f(c)).and_then(|x| x);
        if let Err(fl) = r {
            check.fail(&fl, json!({"part": part, "case": c}));
        }
    });
}

pub fn run_all(check: &Check, _tps: &[crate::part2::Template]) {
    use vcheck::engine::pt;
    let thorough = check.tier == vcheck::engine::Tier::Thorough;
    let opts = || pt::Opts { max_shrink_iters: 40, ..pt::Opts::default() };
    // development aid: C20_P3_PARTS=compare,filetype restricts part 3 to the named case types
    let only: Option<Vec<String>> = std::env::var("C20_P3_PARTS").ok().map(|s| s.split(',').map(|x| x.to_string()).collect());
    let on = |p: &str| only.as_ref().map(|o| o.iter().any(|x| x == p)).unwrap_or(true);
    // every sub-command the binary announces has a stated way its content is (or is not) judged
    if let Ok(map) = crate::help::enumerate() {
        let mut rows = vec![];
        for (fam, subs) in &map {
            for sub in subs {
                if sub.is_empty() {
                    // `completions <shell>`: a generated shell script, nothing to compare it with
                    check.bump(&format!("content-not-judged:{fam}"), 1);
                    rows.push(json!({"command": fam, "judged": false, "how": "generated shell script"}));
                    continue;
                }
                match CONTENT.iter().find(|(f, s, _, _)| f == fam && s == sub) {
                    None => crate::inc(check, &format!("sub-command `{fam} {sub}` appears in --help but part 3 does not say how its output content is judged (part3.rs CONTENT)")),
                    Some((_, _, how, text)) => {
                        if how.is_none() {
                            check.bump(&format!("content-not-judged:{fam}:{sub}"), 1);
                        }
                        rows.push(json!({"command": format!("{fam} {sub}"), "judged": how.is_some(), "how": text}));
                    }
                }
            }
        }
        check.set_extra("part3_content_judgement", json!(rows));
    }
    let t0 = std::time::Instant::now();
    let lap = |what: &str| {
        if std::env::var("C20_P3_DEBUG").is_ok() {
            eprintln!("[p3 debug] {what} done at {:.1}s", t0.elapsed().as_secs_f32());
        }
    };
    let grid = conv_grid(thorough);
    check.set_extra("part3_conv_grid", json!(grid.len()));
    if on("conv") {
        guarded(check, "conv", &grid, |c| run_conv(check, c));
    }
    if on("conv") {
        pt::run(check, "conv-random", check.tier.pick(96, 6000), opts(), conv_strategy, |c| json!({"part": "conv", "case": c}), |c| run_conv(check, c));
    }
    lap("conv");
    let grid = dbc_grid(thorough);
    check.set_extra("part3_dbc_grid", json!(grid.len()));
    if on("dbc") {
        guarded(check, "dbc", &grid, |c| run_dbc(check, c));
    }
    if on("dbc") {
        pt::run(check, "dbc-random", check.tier.pick(64, 4000), opts(), dbc_strategy, |c| json!({"part": "dbc", "case": c}), |c| run_dbc(check, c));
    }
    for k in ["dbc:export", "dbc:list", "dbc:info", "dbc:discover", "dbc:analyze"] {
        if check.counter(&format!("p3:judged:{k}")) == 0 {
            crate::inc(check, &format!("part 3: no run of {k} exited 0 with a library result to compare with"));
        }
    }
    lap("dbc");
    if on("rebuild") {
        guarded(check, "rebuild", &rebuild_grid(thorough), |c| run_rebuild(check, c));
    }
    if on("compare") {
        guarded(check, "compare", &compare_grid(thorough), |c| run_compare(check, c));
    }
    if on("validate") {
        guarded(check, "validate", &validate_grid(thorough), |c| run_validate(check, c));
    }
    if on("tables") {
        guarded(check, "tables", &tables_grid(), |c| run_tables(check, c));
    }
    if on("patch") {
        guarded(check, "patch", &patch_grid(thorough), |c| run_patch(check, c));
    }
    if on("filetype") {
        guarded(check, "filetype", &filetype_grid(thorough), |c| run_filetype(check, c));
    }
    if on("tiles") {
        guarded(check, "tiles", &tiles_grid(thorough), |c| run_tiles(check, c));
    }
    if on("rebuild") {
        pt::run(check, "rebuild-random", check.tier.pick(16, 1000), opts(), rebuild_strategy, |c| json!({"part": "rebuild", "case": c}), |c| run_rebuild(check, c));
    }
    if on("compare") {
        pt::run(check, "compare-random", check.tier.pick(16, 1000), opts(), compare_strategy, |c| json!({"part": "compare", "case": c}), |c| run_compare(check, c));
    }
    if on("validate") {
        pt::run(check, "validate-random", check.tier.pick(16, 1000), opts(), validate_strategy, |c| json!({"part": "validate", "case": c}), |c| run_validate(check, c));
    }
    if on("tables") {
        pt::run(check, "tables-random", check.tier.pick(16, 800), opts(), tables_strategy, |c| json!({"part": "tables", "case": c}), |c| run_tables(check, c));
    }
    if on("patch") {
        pt::run(check, "patch-random", check.tier.pick(16, 1000), opts(), patch_strategy, |c| json!({"part": "patch", "case": c}), |c| run_patch(check, c));
    }
    if on("filetype") {
        pt::run(check, "filetype-random", check.tier.pick(16, 800), opts(), filetype_strategy, |c| json!({"part": "filetype", "case": c}), |c| run_filetype(check, c));
    }
    lap("mpq+tiles");
    let fg = flags_grid(thorough);
    check.set_extra("part3_flags_grid", json!(fg.len()));
    if on("flags") {
        guarded(check, "flags", &fg, |c| run_flags(check, c));
    }
    if on("flags") {
        pt::run(check, "flags-random", check.tier.pick(48, 3000), opts(), flags_strategy, |c| json!({"part": "flags", "case": c}), |c| run_flags(check, c));
    }
    lap("flags");
    for fc in flag_cmds() {
        if fc.key.ends_with(":validate") && check.counter(&format!("p3:flags:failing:{}", fc.key)) == 0 {
            crate::inc(check, &format!("part 3: {} was never run with display flags on an input it fails on", fc.key));
        }
    }
    for k in ["p3:flags:display-flags-on-failing-input", "p3:flags:order-permutations", "p3:judged:mpq:rebuild", "p3:rebuild:files-compared", "p3:judged:mpq:compare:identical", "p3:judged:mpq:compare:differing", "p3:validate:intact", "p3:validate:file-unreadable", "p3:tables:rows-compared", "p3:judged:mpq:extract-patch", "p3:patch:files-compared", "p3:judged:mpq:extract-type", "p3:judged:wdt:tiles"] {
        if check.counter(k) == 0 {
            crate::inc(check, &format!("part 3: essential class {k} is empty"));
        }
    }
    for k in CONV_KINDS {
        if check.counter(&format!("p3:judged-valid:{k}")) == 0 {
            crate::inc(check, &format!("part 3: no valid input of {k} exited 0 with a library result to compare with (content clause never judged)"));
        }
    }
    if on("conv") && check.counter("p3:judged:blp:convert:explicit-format") == 0 {
        crate::inc(check, "part 3: no blp conversion with --input-format/--output-format was judged");
    }
    if check.counter("p3:over-same-size-result") == 0 {
        crate::inc(check, "part 3: no conversion ran over an earlier result of the same size");
    }
}
