//! Part 3 — output-content differential: what a sub-command wrote (or printed in a
//! machine-checkable form) with exit 0 must be what the *library* produces in-process for the
//! same input and the same options.
//!
//! The expected value is always computed by the library itself (in the supervised oracle
//! worker, `Entry::P3(Ask)`), with the options derived from the command line the way `--help` /
//! CHANGELOG document them — never from the tool's source.
//!
//! conv     m2 convert / skin-convert / anim-convert, wmo / adt / wdt / wdl convert, blp convert
//!          both directions: output bytes (decoded pixels for image outputs) == library result
//! dbc      export json/csv (file and stdout), list, info, discover, analyze vs parse_records
//! rebuild  mpq rebuild: files and contents of the target == source's (through the library)
//! compare  mpq compare verdict and counts == compare_archives with the same options
//! validate mpq validate on intact archives and archives with one corrupted file, all flags
//! tables   mpq info --show-hash-table/--show-block-table row counts == get_info table sizes
//! patch    mpq extract --patch contents == PatchChain::read_file; mpq extract -f <type>
//! tiles    wdt tiles csv/json/text == WdtFile::get_tile
//! flags    display flags (-v -q -w -d --no-color ...) in every order and position never change
//!          exit status or written files; the same flag set in two orders prints the same

use crate::damage::Damage;
use crate::fixtures;
use crate::oracle::{self, Entry, Verdict};
use crate::sandbox::{RunOut, Sandbox};
use serde::{Deserialize, Serialize};
use serde_json::{Value, json};
use std::collections::{BTreeMap, BTreeSet};
use std::io::Cursor;
use std::path::Path;
use vcheck::engine::pt::pick_idx;
use vcheck::engine::{Check, Fail, fnv};

// ==========================================================================================
// jobs: one converting command line + the library call sequence that must give the same bytes

#[derive(Clone, Debug, PartialEq, Eq, Serialize, Deserialize)]
pub struct BlpOpts {
    /// blp0 | blp1 | blp2
    pub version: String,
    /// raw1 | raw3 | jpeg | dxt1 | dxt3 | dxt5
    pub format: String,
    pub alpha_bits: Option<u8>,
    pub no_mipmaps: bool,
    /// nearest | triangle | catmull-rom | gaussian | lanczos3 (None = the documented default lanczos3)
    pub filter: Option<String>,
    /// fastest | medium | finest (None = the documented default medium)
    pub dxt: Option<String>,
}

#[derive(Clone, Debug, PartialEq, Eq, Serialize, Deserialize)]
pub enum Job {
    M2Convert { version: String },
    SkinConvert { version: String },
    AnimConvert { version: String },
    WmoConvert { version: String },
    AdtConvert { to: String },
    WdtConvert { from: String, to: String },
    WdlConvert { from: Option<String>, to: String },
    /// BLP → png/bmp/tga at a mip level
    BlpToImage { level: u32, ext: String },
    /// png → BLP
    ImageToBlp { opts: BlpOpts },
}

impl Job {
    pub fn cmd(&self) -> &'static str {
        match self {
            Job::M2Convert { .. } => "m2:convert",
            Job::SkinConvert { .. } => "m2:skin-convert",
            Job::AnimConvert { .. } => "m2:anim-convert",
            Job::WmoConvert { .. } => "wmo:convert",
            Job::AdtConvert { .. } => "adt:convert",
            Job::WdtConvert { .. } => "wdt:convert",
            Job::WdlConvert { .. } => "wdl:convert",
            Job::BlpToImage { .. } => "blp:convert",
            Job::ImageToBlp { .. } => "blp:convert",
        }
    }
    /// finer key for vacuity accounting
    pub fn kind(&self) -> &'static str {
        match self {
            Job::BlpToImage { .. } => "blp:convert:to-image",
            Job::ImageToBlp { .. } => "blp:convert:to-blp",
            j => j.cmd(),
        }
    }
    pub fn input_rel(&self) -> &'static str {
        match self {
            Job::M2Convert { .. } => "in/model.m2",
            Job::SkinConvert { .. } => "in/model00.skin",
            Job::AnimConvert { .. } => "in/a.anim",
            Job::WmoConvert { .. } => "in/obj.wmo",
            Job::AdtConvert { .. } => "in/tile.adt",
            Job::WdtConvert { .. } => "in/map.wdt",
            Job::WdlConvert { .. } => "in/map.wdl",
            Job::BlpToImage { .. } => "in/tex.blp",
            Job::ImageToBlp { .. } => "in/img.png",
        }
    }
    pub fn output_rel(&self) -> String {
        match self {
            Job::M2Convert { .. } => "out/conv.m2".into(),
            Job::SkinConvert { .. } => "out/conv.skin".into(),
            Job::AnimConvert { .. } => "out/conv.anim".into(),
            Job::WmoConvert { .. } => "out/conv.wmo".into(),
            Job::AdtConvert { .. } => "out/conv.adt".into(),
            Job::WdtConvert { .. } => "out/conv.wdt".into(),
            Job::WdlConvert { .. } => "out/conv.wdl".into(),
            Job::BlpToImage { ext, .. } => format!("out/tex.{ext}"),
            Job::ImageToBlp { .. } => "out/img.blp".into(),
        }
    }
    /// (sub-command words, positional arguments, option groups)
    fn parts(&self) -> (Vec<String>, Vec<String>, Vec<Vec<String>>) {
        let s = |x: &str| x.to_string();
        let (fam, sub) = self.cmd().split_once(':').unwrap();
        let words = vec![s(fam), s(sub)];
        let pos = vec![s(self.input_rel()), self.output_rel()];
        let groups: Vec<Vec<String>> = match self {
            Job::M2Convert { version } | Job::SkinConvert { version } | Job::AnimConvert { version } | Job::WmoConvert { version } => vec![vec![s("--version"), version.clone()]],
            Job::AdtConvert { to } => vec![vec![s("--to"), to.clone()]],
            Job::WdtConvert { from, to } => vec![vec![s("-f"), from.clone()], vec![s("-t"), to.clone()]],
            Job::WdlConvert { from, to } => {
                let mut g = vec![];
                if let Some(f) = from {
                    g.push(vec![s("--from"), f.clone()]);
                }
                g.push(vec![s("--to"), to.clone()]);
                g
            }
            Job::BlpToImage { level, .. } => {
                if *level == 0 {
                    vec![]
                } else {
                    vec![vec![s("--mipmap-level"), level.to_string()]]
                }
            }
            Job::ImageToBlp { opts } => {
                let mut g = vec![vec![s("--blp-version"), opts.version.clone()], vec![s("--blp-format"), opts.format.clone()]];
                if let Some(a) = opts.alpha_bits {
                    g.push(vec![s("--alpha-bits"), a.to_string()]);
                }
                if opts.no_mipmaps {
                    g.push(vec![s("--no-mipmaps")]);
                }
                if let Some(f) = &opts.filter {
                    g.push(vec![s("--mipmap-filter"), f.clone()]);
                }
                if let Some(d) = &opts.dxt {
                    g.push(vec![s("--dxt-compression"), d.clone()]);
                }
                g
            }
        };
        (words, pos, groups)
    }
    pub fn args(&self, order: u16) -> Vec<String> {
        let (w, p, g) = self.parts();
        arrange(&w, &p, &g, order)
    }
    fn describe(&self) -> String {
        match self {
            Job::M2Convert { version } | Job::SkinConvert { version } | Job::AnimConvert { version } | Job::WmoConvert { version } => format!("to-{}", version.to_lowercase()),
            Job::AdtConvert { to } => format!("to-{}", to.to_lowercase()),
            Job::WdtConvert { from, to } => format!("{}-to-{}", from.to_lowercase(), to.to_lowercase()),
            Job::WdlConvert { from, to } => format!("{}-to-{}", from.as_deref().unwrap_or("auto").to_lowercase(), to.to_lowercase()),
            Job::BlpToImage { level, ext } => format!("{ext}:level{}", (*level).min(9)),
            Job::ImageToBlp { opts } => format!(
                "{}:{}:a{}:{}:{}:{}",
                opts.version,
                opts.format,
                opts.alpha_bits.map(|a| a.to_string()).unwrap_or("auto".into()),
                if opts.no_mipmaps { "nomips" } else { "mips" },
                opts.filter.as_deref().unwrap_or("default"),
                opts.dxt.as_deref().unwrap_or("default")
            ),
        }
    }
}

/// Deterministic arrangement of a command line: `order` 0 is the canonical one (positionals,
/// then options as listed); any other value permutes the option groups and moves the
/// positionals between them (clap accepts options anywhere after the sub-command).
pub fn arrange(words: &[String], positionals: &[String], groups: &[Vec<String>], order: u16) -> Vec<String> {
    let mut out: Vec<String> = words.to_vec();
    if order == 0 {
        out.extend(positionals.iter().cloned());
        for g in groups {
            out.extend(g.iter().cloned());
        }
        return out;
    }
    let mut idx: Vec<usize> = (0..groups.len()).collect();
    let mut s = order as u64 * 0x9E37_79B9 + 12345;
    let mut next = || {
        s = s.wrapping_mul(6364136223846793005).wrapping_add(1442695040888963407);
        (s >> 33) as usize
    };
    for i in (1..idx.len()).rev() {
        let j = next() % (i + 1);
        idx.swap(i, j);
    }
    // positions (0..=groups) at which the positionals are inserted, in order
    let mut slots: Vec<usize> = positionals.iter().map(|_| next() % (groups.len() + 1)).collect();
    slots.sort();
    let mut pi = 0;
    for (k, gi) in idx.iter().enumerate() {
        while pi < positionals.len() && slots[pi] <= k {
            out.push(positionals[pi].clone());
            pi += 1;
        }
        out.extend(groups[*gi].iter().cloned());
    }
    while pi < positionals.len() {
        out.push(positionals[pi].clone());
        pi += 1;
    }
    out
}

// ==========================================================================================
// worker side: the library's result

#[derive(Clone, Debug, PartialEq, Eq, Serialize, Deserialize)]
pub enum Ask {
    /// run the library call sequence of `job` on the file; write the bytes the library's writer
    /// gives to `out` (image outputs: width, height, RGBA8 pixels)
    Produce { job: Job, out: String },
    /// DbcParser::parse (+ with_schema) + parse_records: header facts and every value
    DbcDump { table: Option<DbcTable> },
}

fn es(e: impl std::fmt::Display) -> String {
    e.to_string()
}

fn blp_target(o: &BlpOpts, img_has_alpha: bool) -> Result<wow_blp::convert::BlpTarget, String> {
    use wow_blp::convert::{AlphaBits, Blp2Format, BlpOldFormat, BlpTarget, DxtAlgorithm};
    // `--alpha-bits`: "Auto-detected from input if not specified"; CHANGELOG 0.6.0: DXT1 → 1 bit for
    // images with an alpha channel, 0 otherwise; DXT3/DXT5/JPEG/Raw → 8 bits, 0 otherwise
    let bits = o.alpha_bits.unwrap_or(match (o.format.as_str(), img_has_alpha) {
        (_, false) => 0,
        ("dxt1", true) => 1,
        (_, true) => 8,
    });
    let ab = |b: u8| -> Result<AlphaBits, String> {
        Ok(match b {
            0 => AlphaBits::NoAlpha,
            1 => AlphaBits::Bit1,
            4 => AlphaBits::Bit4,
            8 => AlphaBits::Bit8,
            _ => return Err(format!("alpha bits {b} not representable")),
        })
    };
    let has = |yes: u8| -> Result<bool, String> {
        if bits == 0 {
            Ok(false)
        } else if bits == yes {
            Ok(true)
        } else {
            Err(format!("alpha bits {bits} not representable for {}", o.format))
        }
    };
    let algo = match o.dxt.as_deref() {
        None | Some("medium") => DxtAlgorithm::ClusterFit,
        Some("fastest") => DxtAlgorithm::RangeFit,
        Some("finest") => DxtAlgorithm::IterativeClusterFit,
        Some(x) => return Err(format!("unknown dxt compression {x}")),
    };
    let old = |f: &str| -> Result<BlpOldFormat, String> {
        match f {
            "raw1" => Ok(BlpOldFormat::Raw1 { alpha_bits: ab(bits)? }),
            "jpeg" => Ok(BlpOldFormat::Jpeg { has_alpha: has(8)? }),
            f => Err(format!("{} has no {f} encoding", o.version)),
        }
    };
    Ok(match o.version.as_str() {
        "blp0" => BlpTarget::Blp0(old(&o.format)?),
        "blp1" => BlpTarget::Blp1(old(&o.format)?),
        "blp2" => BlpTarget::Blp2(match o.format.as_str() {
            "raw1" => Blp2Format::Raw1 { alpha_bits: ab(bits)? },
            "raw3" => Blp2Format::Raw3,
            "jpeg" => Blp2Format::Jpeg { has_alpha: has(8)? },
            "dxt1" => Blp2Format::Dxt1 { has_alpha: has(1)?, compress_algorithm: algo },
            "dxt3" => Blp2Format::Dxt3 { has_alpha: has(8)?, compress_algorithm: algo },
            "dxt5" => Blp2Format::Dxt5 { has_alpha: has(8)?, compress_algorithm: algo },
            f => return Err(format!("unknown format {f}")),
        }),
        v => return Err(format!("unknown blp version {v}")),
    })
}

fn filter_type(name: Option<&str>) -> Result<wow_blp::convert::FilterType, String> {
    use wow_blp::convert::FilterType as F;
    Ok(match name {
        None | Some("lanczos3") => F::Lanczos3,
        Some("nearest") => F::Nearest,
        Some("triangle") => F::Triangle,
        Some("catmull-rom") => F::CatmullRom,
        Some("gaussian") => F::Gaussian,
        Some(x) => return Err(format!("unknown filter {x}")),
    })
}

fn has_alpha_channel(i: &image::DynamicImage) -> bool {
    i.color().has_alpha()
}

/// width, height, RGBA8 pixels
pub fn pixel_dump(i: &image::DynamicImage) -> Vec<u8> {
    let mut v = Vec::new();
    v.extend(i.width().to_le_bytes());
    v.extend(i.height().to_le_bytes());
    v.extend(i.to_rgba8().into_raw());
    v
}

/// The library's result for `job` on the file at `input`, written to `out`.
pub fn produce(job: &Job, input: &Path, out: &Path) -> Result<Value, String> {
    use std::fs::File;
    use std::io::BufReader;
    let wr = |b: &[u8]| std::fs::write(out, b).map_err(es);
    match job {
        Job::M2Convert { version } => {
            let f = wow_m2::M2Model::load(input).map_err(es)?;
            let tv = wow_m2::M2Version::from_expansion_name(version).map_err(es)?;
            let conv = wow_m2::M2Converter::new().convert(f.model(), tv).map_err(es)?;
            let mut c = Cursor::new(Vec::new());
            conv.write(&mut c).map_err(es)?;
            wr(c.get_ref())?;
            Ok(json!({"source_version": f.model().header.version, "target_version": conv.header.version}))
        }
        Job::SkinConvert { version } => {
            let s = wow_m2::SkinFile::load(input).map_err(es)?;
            let tv = wow_m2::M2Version::from_expansion_name(version).map_err(es)?;
            let conv = s.convert(tv).map_err(es)?;
            let mut c = Cursor::new(Vec::new());
            conv.write(&mut c).map_err(es)?;
            wr(c.get_ref())?;
            Ok(json!({"source_new": s.is_new_format(), "target_new": conv.is_new_format()}))
        }
        Job::AnimConvert { version } => {
            let a = wow_m2::AnimFile::load(input).map_err(es)?;
            let tv = wow_m2::M2Version::from_expansion_name(version).map_err(es)?;
            let conv = a.convert(tv);
            let mut c = Cursor::new(Vec::new());
            conv.write(&mut c).map_err(es)?;
            wr(c.get_ref())?;
            Ok(json!({"source_format": format!("{:?}", a.format), "target_format": format!("{:?}", conv.format)}))
        }
        Job::WmoConvert { version } => {
            let tv = wow_wmo::WmoVersion::from_expansion_name(version).ok_or("invalid target version")?;
            let mut r = BufReader::new(File::open(input).map_err(es)?);
            let d = wow_wmo::discover_wmo_chunks(&mut r).map_err(es)?;
            if !d.chunks.iter().any(|c| c.id.as_str() == "MOHD") {
                return Err("not a root file (no MOHD): the tool documents group conversion as unsupported".into());
            }
            let mut r = BufReader::new(File::open(input).map_err(es)?);
            let mut root = wow_wmo::WmoParser::new().parse_root(&mut r).map_err(es)?;
            let sv = root.version;
            wow_wmo::WmoConverter::new().convert_root(&mut root, tv).map_err(es)?;
            let mut c = Cursor::new(Vec::new());
            wow_wmo::WmoWriter::new().write_root(&mut c, &root, tv).map_err(es)?;
            wr(c.get_ref())?;
            Ok(json!({"source_version": format!("{sv:?}"), "target_version": format!("{tv:?}")}))
        }
        Job::AdtConvert { to } => {
            let tv = wow_adt::AdtVersion::from_expansion_name(to).ok_or("invalid target version")?;
            let mut r = BufReader::new(File::open(input).map_err(es)?);
            let (adt, meta) = wow_adt::parse_adt_with_metadata(&mut r).map_err(es)?;
            let wow_adt::ParsedAdt::Root(root) = adt else {
                return Err("not a root ADT: --help documents only root files as convertible".into());
            };
            let built = wow_adt::BuiltAdt::from_root_adt(*root, Some(tv));
            let b = built.to_bytes().map_err(es)?;
            wr(&b)?;
            Ok(json!({"source_version": format!("{:?}", meta.version), "target_version": format!("{tv:?}")}))
        }
        Job::WdtConvert { from, to } => {
            let fv = wow_wdt::version::WowVersion::from_expansion_name(from).map_err(es)?;
            let tv = wow_wdt::version::WowVersion::from_expansion_name(to).map_err(es)?;
            let mut rd = wow_wdt::WdtReader::new(BufReader::new(File::open(input).map_err(es)?), fv);
            let mut w = rd.read().map_err(es)?;
            wow_wdt::conversion::convert_wdt(&mut w, fv, tv).map_err(es)?;
            let mut buf = Vec::new();
            wow_wdt::WdtWriter::new(&mut buf).write(&w).map_err(es)?;
            wr(&buf)?;
            Ok(json!({"source_version": format!("{fv:?}"), "target_version": format!("{tv:?}")}))
        }
        Job::WdlConvert { from, to } => {
            let parser = match from {
                Some(s) => wow_wdl::parser::WdlParser::with_version(wdl_version(s).ok_or("invalid source version")?),
                None => wow_wdl::parser::WdlParser::new(),
            };
            let mut r = BufReader::new(File::open(input).map_err(es)?);
            let w = parser.parse(&mut r).map_err(es)?;
            let tv = wdl_version(to).ok_or("invalid target version")?;
            let conv = wow_wdl::conversion::convert_wdl_file(&w, tv).map_err(es)?;
            let mut c = Cursor::new(Vec::new());
            wow_wdl::parser::WdlParser::with_version(tv).write(&mut c, &conv).map_err(es)?;
            wr(c.get_ref())?;
            Ok(json!({"source_version": format!("{:?}", w.version), "target_version": format!("{tv:?}")}))
        }
        Job::BlpToImage { level, .. } => {
            let b = wow_blp::parser::load_blp(input).map_err(es)?;
            let i = wow_blp::convert::blp_to_image(&b, *level as usize).map_err(es)?;
            wr(&pixel_dump(&i))?;
            Ok(json!({"w": i.width(), "h": i.height(), "color": format!("{:?}", i.color()), "images": b.image_count()}))
        }
        Job::ImageToBlp { opts } => {
            // the tool reads the input by its extension (.png)
            let img = image::ImageReader::open(input).map_err(es)?.decode().map_err(es)?;
            let target = blp_target(opts, has_alpha_channel(&img))?;
            let filter = filter_type(opts.filter.as_deref())?;
            let (w, h) = (img.width(), img.height());
            let blp = wow_blp::convert::image_to_blp(img, !opts.no_mipmaps, target, filter).map_err(es)?;
            let n_images = blp.image_count();
            let mips = if opts.version == "blp0" {
                // "For BLP0 it will create mipmaps in the save directory with names like <root_name>.b<num>"
                let e = wow_blp::encode::encode_blp0(&blp).map_err(es)?;
                wr(&e.blp_bytes)?;
                for (k, m) in e.blp_mipmaps.iter().enumerate() {
                    let p = wow_blp::path::make_mipmap_path(out, k).ok_or("mipmap path")?;
                    std::fs::write(p, m).map_err(es)?;
                }
                e.blp_mipmaps.len()
            } else {
                wr(&wow_blp::encode::encode_blp(&blp).map_err(es)?)?;
                0
            };
            Ok(json!({"w": w, "h": h, "images": n_images, "external_mipmaps": mips}))
        }
    }
}

fn wdl_version(s: &str) -> Option<wow_wdl::version::WdlVersion> {
    use wow_wdl::version::WdlVersion as V;
    // expansion names that have exactly one WDL layout (the help text's examples); names whose
    // mapping is the tool's own choice ("tbc", numeric versions) are not used by the generator
    Some(match s.to_lowercase().as_str() {
        "vanilla" | "classic" => V::Vanilla,
        "wotlk" => V::Wotlk,
        "cata" | "cataclysm" => V::Cataclysm,
        "mop" => V::Mop,
        "wod" => V::Wod,
        "legion" => V::Legion,
        "bfa" => V::Bfa,
        "sl" | "shadowlands" => V::Shadowlands,
        "df" | "dragonflight" => V::Dragonflight,
        "latest" => V::Latest,
        _ => return None,
    })
}

pub fn eval_ask(ask: &Ask, path: &Path) -> Result<Value, String> {
    match ask {
        Ask::Produce { job, out } => produce(job, path, Path::new(out)),
        Ask::DbcDump { table } => dbc_dump(path, table.as_ref()),
    }
}

fn ask(a: Ask, path: &Path) -> Verdict {
    oracle::ask(&Entry::P3(a), path)
}

// ==========================================================================================
// conversion cases

#[derive(Clone, Debug, Serialize, Deserialize)]
pub struct ConvCase {
    pub job: Job,
    /// fixtures::base id of the input
    pub base: String,
    pub damage: Damage,
    /// what the output path holds before the run: 0 nothing; 1 a different result of the same
    /// size (the expected bytes with a stretch inverted); 2 a longer file; 3 a shorter one
    pub prefill: u8,
    /// command-line arrangement (0 = canonical)
    pub order: u16,
}

fn cmdline(args: &[String]) -> String {
    format!("warcraft-rs {}", args.join(" "))
}

fn show(run: &RunOut) -> String {
    format!("{}; {}", run.status_str(), run.tail())
}

fn first_diff(a: &[u8], b: &[u8]) -> usize {
    a.iter().zip(b.iter()).position(|(x, y)| x != y).unwrap_or(a.len().min(b.len()))
}

fn stale_bytes(expected: Option<&[u8]>, mode: u8) -> Vec<u8> {
    let junk = |n: usize| -> Vec<u8> { (0..n).map(|i| 0x5Au8 ^ (i as u8).wrapping_mul(29)).collect() };
    match (expected, mode) {
        (Some(e), 1) if !e.is_empty() => {
            // "an earlier result of the same command": same size, same head, a stretch in the middle differs
            let mut v = e.to_vec();
            let n = v.len();
            let (a, b) = (n / 3, (n / 3 + 1 + n / 4).min(n));
            for x in &mut v[a..b] {
                *x = !*x;
            }
            v
        }
        (Some(e), 2) => {
            let mut v = e.to_vec();
            v.extend(junk(1 + e.len() % 7));
            v
        }
        (Some(e), 3) => e[..e.len() / 2].to_vec(),
        (None, _) => junk(64),
        (Some(e), _) => junk(e.len().max(1)),
    }
}

pub fn run_conv(check: &Check, c: &ConvCase) -> Result<(), Fail> {
    let sb = Sandbox::new();
    std::fs::create_dir_all(sb.path("exp")).ok();
    let job = &c.job;
    let cmd = job.cmd();
    let base = fixtures::base(&c.base).map_err(|e| Fail::new("harness:fixture-failed", format!("{}: {e}", c.base)))?;
    let input = job.input_rel();
    match c.damage.apply(&base) {
        Some(b) => sb.write(input, &b),
        None => {}
    }
    let out_rel = job.output_rel();
    let exp_rel = out_rel.replacen("out/", "exp/", 1);
    let lib = if matches!(c.damage, Damage::Missing) { Verdict::Rejects("file does not exist".into()) } else { ask(Ask::Produce { job: job.clone(), out: sb.path(&exp_rel).to_string_lossy().to_string() }, &sb.path(input)) };
    let expected: Option<Vec<u8>> = match &lib {
        Verdict::Ok(_) => sb.read(&exp_rel),
        _ => None,
    };
    let is_image_out = matches!(job, Job::BlpToImage { .. });
    // what was there before
    let stale: Option<Vec<u8>> = if c.prefill == 0 {
        None
    } else if is_image_out {
        // a decodable image of the same dimensions with other pixels cannot be built without the
        // encoder the tool uses; a stale file of another size stands in
        Some(stale_bytes(None, c.prefill))
    } else {
        Some(stale_bytes(expected.as_deref(), c.prefill))
    };
    if let Some(s) = &stale {
        sb.write(&out_rel, s);
    }
    let args = job.args(c.order);
    let run = sb.run(&args);
    let exit0 = run.ok();
    let lib_s = match &lib {
        Verdict::Ok(_) => "ok",
        Verdict::Rejects(_) => "err",
        Verdict::Crashed(_) => "crash",
    };
    let fam = c.base.split(':').next().unwrap_or("");
    let class = format!("p3:conv:{}:{fam}:{}:{}:stale{}:ord{}:lib-{lib_s}:exit{}", job.kind(), job.describe(), c.damage.kind(), c.prefill, (c.order != 0) as u8, if exit0 { "0" } else { "nz" });
    let judged = exit0 && expected.is_some();
    check.count(&class, judged);
    check.sample(&format!("p3:conv:{}:{}", job.kind(), c.damage.kind()), || json!({"part": "conv", "case": c, "library": lib_s, "exit0": exit0}));
    let ctx = || format!("`{}` on {} ({}) → {}", cmdline(&args), c.base, c.damage.kind(), show(&run));
    let mut fails = vec![];
    if exit0 {
        match &lib {
            Verdict::Rejects(e) => {
                let sig = if matches!(c.damage, Damage::Missing) { format!("exit0-on-nonexistent-input:{cmd}") } else { format!("exit0-on-rejected-input:{cmd}") };
                fails.push(Fail::new(sig, format!("{} — the library's own conversion of the same bytes with the same options returns Err({})", ctx(), vcheck::engine::truncate(e, 200))));
            }
            Verdict::Crashed(h) => fails.push(Fail::new(format!("exit0-on-input-crashing-library:{cmd}"), format!("{} — the library's own conversion died: {h}", ctx()))),
            Verdict::Ok(info) => {
                check.bump(&format!("p3:judged:{}", job.kind()), 1);
                if matches!(c.damage, Damage::None) {
                    check.bump(&format!("p3:judged-valid:{}", job.kind()), 1);
                }
                if c.prefill == 1 && !is_image_out {
                    check.bump("p3:over-same-size-result", 1);
                }
                match (sb.read(&out_rel), &expected) {
                    (None, _) => fails.push(Fail::new(format!("exit0-without-output:{cmd}"), format!("{} — {out_rel} was not written", ctx()))),
                    (Some(got), Some(exp)) => {
                        if is_image_out {
                            match image::ImageReader::open(sb.path(&out_rel)).map_err(es).and_then(|r| r.with_guessed_format().map_err(es)).and_then(|r| r.decode().map_err(es)) {
                                Err(e) => {
                                    let sig = if stale.as_deref() == Some(&got[..]) { format!("stale-output-left-in-place:{cmd}") } else { format!("exit0-with-unparseable-output:{cmd}") };
                                    fails.push(Fail::new(sig, format!("{} — {out_rel} does not decode: {e}", ctx())));
                                }
                                Ok(img) => {
                                    let px = pixel_dump(&img);
                                    if &px != exp {
                                        let (gw, gh) = (img.width(), img.height());
                                        fails.push(Fail::new(
                                            format!("output-differs-from-library:{cmd}:to-image"),
                                            format!("{} — {out_rel} decodes to {gw}x{gh}, blp_to_image gives {}x{} ({}); first differing byte of the RGBA dump at {}", ctx(), info["w"], info["h"], info["color"], first_diff(&px, exp)),
                                        ));
                                    }
                                }
                            }
                        } else if &got != exp {
                            let sig = if stale.as_deref() == Some(&got[..]) { format!("stale-output-left-in-place:{cmd}") } else { format!("output-differs-from-library:{cmd}") };
                            fails.push(Fail::new(
                                sig,
                                format!("{} — {out_rel} has {} bytes, the library's conversion + writer give {} bytes; first difference at offset {} ({})", ctx(), got.len(), exp.len(), first_diff(&got, exp), info),
                            ));
                        }
                        // BLP0: external mip levels next to the output
                        if let Some(n) = info["external_mipmaps"].as_u64() {
                            for k in 0..n as usize {
                                let rel = |dir: &str| format!("{dir}/img.b{k:02}");
                                let (g, e) = (sb.read(&rel("out")), sb.read(&rel("exp")));
                                if g != e {
                                    fails.push(Fail::new(
                                        format!("output-differs-from-library:{cmd}:external-mipmap"),
                                        format!("{} — {} {} the library's level ({} bytes)", ctx(), rel("out"), if g.is_none() { "was not written; expected" } else { "differs from" }, e.map(|x| x.len()).unwrap_or(0)),
                                    ));
                                    break;
                                }
                            }
                        }
                    }
                    (Some(_), None) => {}
                }
            }
        }
    } else if matches!(lib, Verdict::Ok(_)) {
        check.bump(&format!("p3:cli-refuses-what-library-converts:{}", job.kind()), 1);
        if std::env::var("C20_P3_DEBUG").is_ok() {
            eprintln!("[p3 debug] {}", ctx());
        }
    }
    crate::settle(check, fails)
}

// ------------------------------------------------------------------------------------------
// conversion grid and strategy

const M2_VERSIONS: [&str; 17] = ["vanilla", "classic", "tbc", "wotlk", "cata", "mop", "wod", "legion", "bfa", "sl", "df", "tww", "3.3.5a", "1.12.1", "MoP", "WotLK", "4.3.4"];
const WMO_VERSIONS: [&str; 13] = ["classic", "tbc", "wotlk", "cata", "Cataclysm", "mop", "wod", "legion", "bfa", "sl", "df", "tww", "WotLK"];
const ADT_VERSIONS: [&str; 9] = ["classic", "vanilla", "vanilla_early", "tbc", "wotlk", "cataclysm", "cata", "mop", "WotLK"];
const WDT_VERSIONS: [&str; 10] = ["classic", "tbc", "wotlk", "cata", "mop", "wod", "legion", "bfa", "1.12.1", "3.3.5a"];
const WDL_VERSIONS: [&str; 11] = ["vanilla", "classic", "wotlk", "cata", "mop", "wod", "legion", "bfa", "sl", "df", "latest"];
const INVALID_VERSION: &str = "no-such-expansion";

const M2_BASES: [&str; 8] = ["m2:vanilla", "m2:tbc", "m2:wotlk", "m2:cata", "m2s:vanilla:7:1", "m2s:tbc:12:2", "m2s:wotlk:30:3", "m2s:cata:5:4"];
const SKIN_BASES: [&str; 5] = ["skin:old", "skin:new", "skins:old:12:1", "skins:new:30:2", "skins:new:9:3"];
const ANIM_BASES: [&str; 5] = ["anim:modern", "anim:legacy", "anims:modern:3:1", "anims:legacy:2:2", "anims:modern:6:3"];
const WMO_BASES: [&str; 6] = ["wmo:root-wotlk", "wmo:root-mop", "wmo:root-classic", "wmos:wotlk:1", "wmos:classic:2", "wmos:cata:3"];
const ADT_BASES: [&str; 7] = ["adt:vanilla-early", "adt:vanilla-late", "adt:wotlk", "adts:tbc:1", "adts:wotlk:2", "adts:cata:3", "adts:mop:4"];
const WDT_BASES: [(&str, &str); 8] = [
    ("wdt:terrain-wotlk", "wotlk"),
    ("wdt:wmo-wotlk", "wotlk"),
    ("wdt:terrain-cata", "cata"),
    ("wdts:classic:terrain:1", "classic"),
    ("wdts:tbc:wmo:2", "tbc"),
    ("wdts:wotlk:terrain:3", "wotlk"),
    ("wdts:cata:wmo:4", "cata"),
    ("wdts:mop:terrain:5", "mop"),
];
const WDL_BASES: [(&str, &str); 7] = [("wdl:wotlk", "wotlk"), ("wdl:vanilla", "vanilla"), ("wdl:legion", "legion"), ("wdls:vanilla:1", "vanilla"), ("wdls:wotlk:2", "wotlk"), ("wdls:mop:3", "mop"), ("wdls:legion:4", "legion")];
const BLP_BASES: [&str; 20] = [
    "blp:test_simple_without_alpha.blp",
    "blp:test_rect_with_alpha.blp",
    "blp:test_rect_without_alpha.blp",
    "blp:test_simple_jpg.blp",
    "blp:test_simple_with_alpha.blp",
    "blp:raw3",
    "blp:dxt5:12x20:mips",
    "blp:dxt1:24x12",
    "blps:blp1-jpeg:16x16:mips:1",
    "blps:blp1-jpeg-a:8x16:mips:2",
    "blps:blp1-raw1-a0:16x8:mips:3",
    "blps:blp1-raw1-a8:16x16:nomips:4",
    "blps:blp2-raw1-a1:16x16:mips:5",
    "blps:blp2-raw1-a4:8x8:mips:6",
    "blps:blp2-raw3:16x4:mips:7",
    "blps:blp2-jpeg:16x16:mips:8",
    "blps:blp2-dxt1:16x16:mips:9",
    "blps:blp2-dxt1-a:32x16:mips:10",
    "blps:blp2-dxt3:16x16:mips:11",
    "blps:blp2-dxt5:16x32:nomips:12",
];
const PNG_BASES: [&str; 9] = ["png:small", "png:rgba8", "png:rgb16", "pngs:16x16:rgb:1", "pngs:16x8:rgba:2", "pngs:8x8:luma:3", "pngs:4x16:lumaa:4", "pngs:16x16:rgba16:5", "pngs:12x20:rgba:6"];
const BLP_TARGETS: [(&str, &str); 10] = [("blp0", "raw1"), ("blp0", "jpeg"), ("blp1", "raw1"), ("blp1", "jpeg"), ("blp2", "raw1"), ("blp2", "raw3"), ("blp2", "jpeg"), ("blp2", "dxt1"), ("blp2", "dxt3"), ("blp2", "dxt5")];
const FILTERS: [&str; 5] = ["nearest", "triangle", "catmull-rom", "gaussian", "lanczos3"];
const DXTS: [&str; 3] = ["fastest", "medium", "finest"];
const IMG_EXTS: [&str; 3] = ["png", "bmp", "tga"];

fn valid_alpha(format: &str) -> &'static [u8] {
    match format {
        "raw1" | "raw3" => &[0, 1, 4, 8],
        "dxt1" => &[0, 1],
        _ => &[0, 8],
    }
}

/// every job family × every base × every version name (quick: a slice of it per seed-free rule)
pub fn conv_grid(thorough: bool) -> Vec<ConvCase> {
    let mut v: Vec<ConvCase> = vec![];
    let mut k = 0usize;
    let mut push = |v: &mut Vec<ConvCase>, job: Job, base: &str| {
        k += 1;
        // prefill and arrangement cycle independently of the other dimensions
        v.push(ConvCase { job, base: base.to_string(), damage: Damage::None, prefill: (k % 4) as u8, order: if k % 3 == 0 { (k % 251) as u16 + 1 } else { 0 } });
    };
    let s = |x: &str| x.to_string();
    let keep = |i: usize, j: usize, bases: usize| thorough || (i + j) % bases.max(1) == 0 || j == i % 3;
    for (i, b) in M2_BASES.iter().enumerate() {
        for (j, ver) in M2_VERSIONS.iter().chain([INVALID_VERSION].iter()).enumerate() {
            if keep(i, j, M2_BASES.len() / 2) {
                push(&mut v, Job::M2Convert { version: s(ver) }, b);
            }
        }
    }
    for (i, b) in SKIN_BASES.iter().enumerate() {
        for (j, ver) in M2_VERSIONS.iter().chain([INVALID_VERSION].iter()).enumerate() {
            if keep(i, j, 3) {
                push(&mut v, Job::SkinConvert { version: s(ver) }, b);
            }
        }
    }
    for (i, b) in ANIM_BASES.iter().enumerate() {
        for (j, ver) in M2_VERSIONS.iter().chain([INVALID_VERSION].iter()).enumerate() {
            if keep(i, j, 3) {
                push(&mut v, Job::AnimConvert { version: s(ver) }, b);
            }
        }
    }
    for (i, b) in WMO_BASES.iter().chain(["wmo:group"].iter()).enumerate() {
        for (j, ver) in WMO_VERSIONS.iter().chain([INVALID_VERSION].iter()).enumerate() {
            if keep(i, j, 3) {
                push(&mut v, Job::WmoConvert { version: s(ver) }, b);
            }
        }
    }
    for (i, b) in ADT_BASES.iter().enumerate() {
        for (j, ver) in ADT_VERSIONS.iter().chain([INVALID_VERSION].iter()).enumerate() {
            if keep(i, j, 3) {
                push(&mut v, Job::AdtConvert { to: s(ver) }, b);
            }
        }
    }
    for (i, (b, own)) in WDT_BASES.iter().enumerate() {
        for (j, to) in WDT_VERSIONS.iter().chain([INVALID_VERSION].iter()).enumerate() {
            if keep(i, j, 4) {
                push(&mut v, Job::WdtConvert { from: s(own), to: s(to) }, b);
            }
        }
        // read under another version than the one the file was written for
        for (j, from) in WDT_VERSIONS.iter().enumerate() {
            if thorough || j % 4 == i % 4 {
                push(&mut v, Job::WdtConvert { from: s(from), to: s(WDT_VERSIONS[(i + j) % WDT_VERSIONS.len()]) }, b);
            }
        }
    }
    for (i, (b, own)) in WDL_BASES.iter().enumerate() {
        for (j, to) in WDL_VERSIONS.iter().chain([INVALID_VERSION].iter()).enumerate() {
            if keep(i, j, 4) {
                push(&mut v, Job::WdlConvert { from: if (i + j) % 2 == 0 { None } else { Some(s(own)) }, to: s(to) }, b);
            }
        }
    }
    for (i, b) in BLP_BASES.iter().enumerate() {
        for (j, level) in [0u32, 1, 2, 3, 40].iter().enumerate() {
            for (e, ext) in IMG_EXTS.iter().enumerate() {
                if thorough || (i + j + e) % 3 == 0 {
                    push(&mut v, Job::BlpToImage { level: *level, ext: s(ext) }, b);
                }
            }
        }
    }
    for (i, b) in PNG_BASES.iter().enumerate() {
        for (j, (ver, fmt)) in BLP_TARGETS.iter().enumerate() {
            // auto alpha, default options
            if thorough || (i + j) % 2 == 0 {
                push(&mut v, Job::ImageToBlp { opts: BlpOpts { version: s(ver), format: s(fmt), alpha_bits: None, no_mipmaps: false, filter: None, dxt: None } }, b);
            }
            // explicit alpha bits (valid ones), mip options, filters, dxt quality
            for (a, bits) in valid_alpha(fmt).iter().enumerate() {
                if thorough || (i + j + a) % 5 == 0 {
                    let filter = if (i + a) % 2 == 0 { Some(s(FILTERS[(i + j + a) % FILTERS.len()])) } else { None };
                    let dxt = if fmt.starts_with("dxt") && (j + a) % 2 == 0 { Some(s(DXTS[(i + a) % DXTS.len()])) } else { None };
                    push(&mut v, Job::ImageToBlp { opts: BlpOpts { version: s(ver), format: s(fmt), alpha_bits: Some(*bits), no_mipmaps: (i + j + a) % 3 == 0, filter, dxt } }, b);
                }
            }
        }
        // combinations no BLP can represent: the conversion must fail
        for (ver, fmt, bits) in [("blp1", "dxt1", None), ("blp0", "raw3", None), ("blp2", "jpeg", Some(4u8)), ("blp2", "dxt1", Some(8))] {
            if thorough || i % 3 == 0 {
                push(&mut v, Job::ImageToBlp { opts: BlpOpts { version: s(ver), format: s(fmt), alpha_bits: bits, no_mipmaps: false, filter: None, dxt: None } }, b);
            }
        }
    }
    v
}

pub fn conv_strategy() -> impl proptest::strategy::Strategy<Value = ConvCase> + use<> {
    use proptest::prelude::*;
    let grid = conv_grid(true);
    (any::<u16>(), prop_oneof![2 => Just(Damage::None), 5 => crate::damage::damage_strategy()], 0u8..4, prop_oneof![1 => Just(0u16), 1 => any::<u16>()]).prop_map(move |(gi, damage, prefill, order)| {
        let mut c = grid[pick_idx(gi, grid.len())].clone();
        c.damage = damage;
        c.prefill = prefill;
        c.order = order;
        c
    })
}

pub const CONV_KINDS: [&str; 9] = ["m2:convert", "m2:skin-convert", "m2:anim-convert", "wmo:convert", "adt:convert", "wdt:convert", "wdl:convert", "blp:convert:to-image", "blp:convert:to-blp"];

#[allow(dead_code)]
fn _unused(_: &BTreeMap<u8, u8>, _: &BTreeSet<u8>) -> u64 {
    fnv(b"")
}

// ==========================================================================================
// dbc: export / list / info / discover / analyze against the library's parsed records

#[derive(Clone, Debug, PartialEq, Eq, Serialize, Deserialize)]
pub struct FieldSpec {
    /// index into DBC_TYPES
    pub ty: u8,
    /// 0 = scalar, otherwise the element count of an array field
    pub array: u8,
}

pub const DBC_TYPES: [(&str, usize); 9] = [("UInt32", 4), ("Int32", 4), ("Float32", 4), ("String", 4), ("Bool", 4), ("UInt8", 1), ("Int8", 1), ("UInt16", 2), ("Int16", 2)];

#[derive(Clone, Debug, PartialEq, Eq, Serialize, Deserialize)]
pub struct DbcTable {
    pub fields: Vec<FieldSpec>,
    pub rows: u16,
    pub seed: u32,
    /// first field is a UInt32 key named ID
    pub key: bool,
}

const STRING_POOL: [&str; 12] = ["", "Alpha", "with space", "comma, inside", "quote\"inside", "semi;colon", "back\\slash", "Ünïcode", "0", "-1.5", " lead", "trail "];

impl DbcTable {
    pub fn names(&self) -> Vec<String> {
        self.fields
            .iter()
            .enumerate()
            .map(|(i, f)| if i == 0 && self.key { "ID".to_string() } else { format!("F{i}_{}", DBC_TYPES[f.ty as usize % DBC_TYPES.len()].0) })
            .collect()
    }
    fn norm(&self) -> Vec<FieldSpec> {
        let mut v: Vec<FieldSpec> = self.fields.iter().map(|f| FieldSpec { ty: f.ty % DBC_TYPES.len() as u8, array: f.array.min(4) }).collect();
        if v.is_empty() {
            v.push(FieldSpec { ty: 0, array: 0 });
        }
        if self.key {
            v[0] = FieldSpec { ty: 0, array: 0 };
        }
        v
    }
    pub fn yaml(&self) -> String {
        let mut y = String::from("name: Gen\n");
        if self.key {
            y.push_str("key_field: ID\n");
        }
        y.push_str("fields:\n");
        for (f, n) in self.norm().iter().zip(self.names()) {
            y.push_str(&format!("  - name: {n}\n    type_name: {}\n", DBC_TYPES[f.ty as usize].0));
            if f.array > 0 {
                y.push_str(&format!("    is_array: true\n    array_size: {}\n", f.array));
            }
        }
        y
    }
    pub fn schema(&self) -> wow_cdbc::Schema {
        use wow_cdbc::{FieldType as T, Schema, SchemaField};
        let mut s = Schema::new("Gen");
        for (f, n) in self.norm().iter().zip(self.names()) {
            let t = [T::UInt32, T::Int32, T::Float32, T::String, T::Bool, T::UInt8, T::Int8, T::UInt16, T::Int16][f.ty as usize];
            s.add_field(if f.array > 0 { SchemaField::new_array(n, t, f.array as usize) } else { SchemaField::new(n, t) });
        }
        if self.key {
            s.set_key_field("ID");
        }
        s
    }
    /// WDBC bytes: header, records (fields packed in schema order), string block
    pub fn bytes(&self) -> Vec<u8> {
        let fields = self.norm();
        let mut s = (self.seed as u64).wrapping_mul(0x9E37_79B9_7F4A_7C15) ^ 0x1234_5678_9ABC_DEF1;
        let mut r = move || {
            s = s.wrapping_mul(6364136223846793005).wrapping_add(1442695040888963407);
            (s >> 33) as u32
        };
        let mut block = vec![0u8];
        let mut offs = vec![0u32];
        for st in STRING_POOL.iter().skip(1) {
            offs.push(block.len() as u32);
            block.extend(st.as_bytes());
            block.push(0);
        }
        let floats = [0.0f32, -0.0, 1.5, -2.25, 3.1415927, 1.0e-7, 1.0e10, 123456.79, 0.1, -7.0e-3, 16777216.0];
        let mut recs = Vec::new();
        for row in 0..self.rows as u32 {
            for (i, f) in fields.iter().enumerate() {
                for _ in 0..f.array.max(1) {
                    match f.ty {
                        0 => {
                            let v = if i == 0 && self.key { 1 + row * 3 } else { [r() % 10, r() % 100000, r(), u32::MAX - r() % 3][(r() % 4) as usize] };
                            recs.extend(v.to_le_bytes());
                        }
                        1 => recs.extend((([r() % 10, r() % 100000, r(), 0x8000_0000 + r() % 3][(r() % 4) as usize]) as i32).to_le_bytes()),
                        2 => {
                            let v = if r() % 3 == 0 { (r() % 4096) as f32 / 16.0 - 128.0 } else { floats[(r() as usize) % floats.len()] };
                            recs.extend(v.to_le_bytes());
                        }
                        3 => recs.extend(offs[(r() as usize) % offs.len()].to_le_bytes()),
                        4 => recs.extend((r() % 2).to_le_bytes()),
                        5 | 6 => recs.push((r() & 0xFF) as u8),
                        _ => recs.extend(((r() & 0xFFFF) as u16).to_le_bytes()),
                    }
                }
            }
        }
        let record_size: usize = fields.iter().map(|f| DBC_TYPES[f.ty as usize].1 * f.array.max(1) as usize).sum();
        let field_count: usize = if fields.iter().any(|f| f.array > 0) { fields.iter().map(|f| f.array.max(1) as usize).sum() } else { fields.len() };
        let mut d = b"WDBC".to_vec();
        for v in [self.rows as u32, field_count as u32, record_size as u32, block.len() as u32] {
            d.extend(v.to_le_bytes());
        }
        d.extend(recs);
        d.extend(block);
        d
    }
    fn shape(&self) -> String {
        let f = self.norm();
        let mut tys: BTreeSet<&str> = BTreeSet::new();
        for x in &f {
            tys.insert(DBC_TYPES[x.ty as usize].0);
        }
        format!("rows{}:f{}:arr{}:key{}:{}", match self.rows { 0 => "0", 1 => "1", 2..=9 => "few", _ => "many" }, f.len().min(6), f.iter().any(|x| x.array > 0) as u8, self.key as u8, tys.into_iter().collect::<Vec<_>>().join("+"))
    }
}

#[derive(Clone, Debug, PartialEq, Eq, Serialize, Deserialize)]
pub enum DbcOp {
    ExportJson { to_file: bool },
    ExportCsv { to_file: bool },
    List { limit: u16, schema: bool },
    Info,
    /// -o: also write the schema file; yaml: -y
    Discover { output: bool, yaml: bool },
    Analyze { schema: bool },
}

#[derive(Clone, Debug, Serialize, Deserialize)]
pub struct DbcCase {
    pub table: DbcTable,
    pub op: DbcOp,
    /// the -o target already holds an earlier export of the same size with other values
    pub prefill: u8,
    pub order: u16,
}

fn dump_value(v: &wow_cdbc::Value, rs: &wow_cdbc::RecordSet) -> Value {
    use wow_cdbc::Value as V;
    match v {
        V::UInt32(x) => json!({"u": x}),
        V::Int32(x) => json!({"i": x}),
        V::Float32(x) => json!({"f": x.to_bits()}),
        V::StringRef(r) => match rs.get_string(*r) {
            Ok(s) => json!({"s": s}),
            Err(_) => json!({"bad": r.offset()}),
        },
        V::Bool(x) => json!({"b": x}),
        V::UInt8(x) => json!({"u": x, "narrow": 8}),
        V::Int8(x) => json!({"i": x, "narrow": 8}),
        V::UInt16(x) => json!({"u": x, "narrow": 16}),
        V::Int16(x) => json!({"i": x, "narrow": 16}),
        V::Array(a) => json!({"a": a.iter().map(|x| dump_value(x, rs)).collect::<Vec<_>>()}),
    }
}

fn dbc_dump(path: &Path, table: Option<&DbcTable>) -> Result<Value, String> {
    let mut r = std::io::BufReader::new(std::fs::File::open(path).map_err(es)?);
    let p = wow_cdbc::DbcParser::parse(&mut r).map_err(es)?;
    let h = p.header();
    let header = json!({"record_count": h.record_count, "field_count": h.field_count, "record_size": h.record_size, "string_block_size": h.string_block_size});
    let p = match table {
        Some(t) => p.with_schema(t.schema()).map_err(es)?,
        None => p,
    };
    let rs = p.parse_records().map_err(es)?;
    let mut recs = vec![];
    for rec in rs.records() {
        recs.push(Value::Array(rec.values().iter().map(|v| dump_value(v, &rs)).collect()));
    }
    Ok(json!({"header": header, "len": rs.len(), "records": recs}))
}

/// minimal RFC 4180 reader (quoted fields, doubled quotes, CRLF or LF)
pub fn read_csv(text: &str) -> Result<Vec<Vec<String>>, String> {
    let mut rows = vec![];
    let mut row: Vec<String> = vec![];
    let mut cell = String::new();
    let mut in_q = false;
    let mut any = false;
    let mut it = text.chars().peekable();
    while let Some(c) = it.next() {
        any = true;
        if in_q {
            if c == '"' {
                if it.peek() == Some(&'"') {
                    cell.push('"');
                    it.next();
                } else {
                    in_q = false;
                }
            } else {
                cell.push(c);
            }
        } else {
            match c {
                '"' if cell.is_empty() => in_q = true,
                ',' => row.push(std::mem::take(&mut cell)),
                '\r' if it.peek() == Some(&'\n') => {}
                '\n' => {
                    row.push(std::mem::take(&mut cell));
                    rows.push(std::mem::take(&mut row));
                    any = false;
                }
                c => cell.push(c),
            }
        }
    }
    if in_q {
        return Err("unterminated quoted field".into());
    }
    if any {
        row.push(cell);
        rows.push(row);
    }
    Ok(rows)
}

fn f32_of(bits: &Value) -> f32 {
    f32::from_bits(bits.as_u64().unwrap_or(0) as u32)
}

/// does a JSON export value state the library's value?
fn json_matches(got: &Value, want: &Value) -> bool {
    if let Some(u) = want.get("u") {
        return got.as_u64().is_some() && got.as_u64() == u.as_u64();
    }
    if let Some(i) = want.get("i") {
        return got.as_i64().is_some() && got.as_i64() == i.as_i64();
    }
    if let Some(f) = want.get("f") {
        let w = f32_of(f);
        return match got.as_f64() {
            Some(g) => (g as f32).to_bits() == w.to_bits() || (g as f32 == w && w == 0.0 && g.is_sign_negative() == w.is_sign_negative()),
            None => false,
        };
    }
    if let Some(s) = want.get("s") {
        return got.as_str().is_some() && got.as_str() == s.as_str();
    }
    if let Some(b) = want.get("b") {
        return got.as_bool().is_some() && got.as_bool() == b.as_bool();
    }
    if let Some(a) = want.get("a").and_then(|a| a.as_array()) {
        return match got.as_array() {
            Some(g) => g.len() == a.len() && g.iter().zip(a).all(|(x, y)| json_matches(x, y)),
            None => false,
        };
    }
    false
}

/// does a CSV cell state the library's value? (arrays: elements joined with '|')
fn csv_matches(got: &str, want: &Value) -> bool {
    if let Some(u) = want.get("u") {
        return got.parse::<u64>().ok() == u.as_u64();
    }
    if let Some(i) = want.get("i") {
        return got.parse::<i64>().ok() == i.as_i64();
    }
    if let Some(f) = want.get("f") {
        return got.parse::<f32>().map(|g| g.to_bits() == f32_of(f).to_bits()).unwrap_or(false);
    }
    if let Some(s) = want.get("s") {
        return Some(got) == s.as_str();
    }
    if let Some(b) = want.get("b") {
        return got.parse::<bool>().ok() == b.as_bool();
    }
    if let Some(a) = want.get("a").and_then(|a| a.as_array()) {
        let parts: Vec<&str> = got.split('|').collect();
        return parts.len() == a.len() && parts.iter().zip(a).all(|(x, y)| csv_matches(x, y));
    }
    false
}

/// the text `dbc list` prints for a value (None = wording not fixed by any documentation)
fn list_text(want: &Value) -> Option<String> {
    if let Some(u) = want.get("u") {
        return Some(u.to_string());
    }
    if let Some(i) = want.get("i") {
        return Some(i.to_string());
    }
    if let Some(f) = want.get("f") {
        return Some(format!("{:.4}", f32_of(f)));
    }
    if let Some(s) = want.get("s") {
        return Some(format!("\"{}\"", s.as_str().unwrap_or("")));
    }
    if let Some(b) = want.get("b") {
        return Some(b.to_string());
    }
    if let Some(a) = want.get("a").and_then(|a| a.as_array()) {
        let mut parts = vec![];
        for x in a {
            // --help does not say how elements of other types are printed
            if x.get("narrow").is_none() && (x.get("u").is_some() || x.get("i").is_some() || x.get("f").is_some()) {
                parts.push(list_text(x)?);
            } else {
                return None;
            }
        }
        return Some(format!("[{}]", parts.join(", ")));
    }
    None
}

fn labelled_u64(stdout: &str, label: &str) -> Option<u64> {
    for l in stdout.lines() {
        if let Some(r) = l.trim().strip_prefix(label) {
            let t = r.trim();
            let digits: String = t.chars().take_while(|c| c.is_ascii_digit()).collect();
            if !digits.is_empty() {
                return digits.parse().ok();
            }
        }
    }
    None
}

/// blocks of `dbc list`: record index → (label → text)
fn parse_list(stdout: &str) -> BTreeMap<usize, Vec<(String, String)>> {
    let mut m: BTreeMap<usize, Vec<(String, String)>> = BTreeMap::new();
    let mut cur: Option<usize> = None;
    for l in stdout.lines() {
        if let Some(r) = l.strip_prefix("Record ") {
            if let Some(n) = r.strip_suffix(':').and_then(|x| x.parse::<usize>().ok()) {
                cur = Some(n);
                m.entry(n).or_default();
                continue;
            }
        }
        if l.trim().is_empty() {
            cur = None;
            continue;
        }
        if let (Some(n), Some(body)) = (cur, l.strip_prefix("  ")) {
            if let Some((k, v)) = body.split_once(": ") {
                m.get_mut(&n).unwrap().push((k.to_string(), v.to_string()));
            } else if let Some(k) = body.strip_suffix(':') {
                m.get_mut(&n).unwrap().push((k.to_string(), String::new()));
            }
        }
    }
    m
}

fn schema_field_lines(text: &str) -> Option<Vec<String>> {
    // the lines of the last "Fields:" section: "  name: Type" (the key marker is not part of the field)
    let idx = text.rfind("Fields:\n")?;
    let mut v = vec![];
    for l in text[idx + "Fields:\n".len()..].lines() {
        if l.starts_with("    ") {
            continue;
        }
        let Some(b) = l.strip_prefix("  ") else { break };
        if b.trim().is_empty() {
            break;
        }
        v.push(b.trim_end().trim_end_matches(" (Key field)").to_string());
    }
    Some(v)
}

pub fn run_dbc(check: &Check, c: &DbcCase) -> Result<(), Fail> {
    let sb = Sandbox::new();
    let t = &c.table;
    sb.write("in/Gen.dbc", &t.bytes());
    sb.write("in/schema.yaml", t.yaml().as_bytes());
    let s = |x: &str| x.to_string();
    let (sub, pos, mut groups, with_schema, out): (&str, Vec<String>, Vec<Vec<String>>, bool, Option<&str>) = match &c.op {
        DbcOp::ExportJson { to_file } => ("export", vec![s("in/Gen.dbc")], vec![vec![s("-s"), s("in/schema.yaml")], vec![s("-f"), s("json")]], true, to_file.then_some("out/t.json")),
        DbcOp::ExportCsv { to_file } => ("export", vec![s("in/Gen.dbc")], vec![vec![s("-s"), s("in/schema.yaml")], vec![s("-f"), s("csv")]], true, to_file.then_some("out/t.csv")),
        DbcOp::List { limit, schema } => ("list", vec![s("in/Gen.dbc")], if *schema { vec![vec![s("-s"), s("in/schema.yaml")], vec![s("-l"), limit.to_string()]] } else { vec![vec![s("-l"), limit.to_string()]] }, *schema, None),
        DbcOp::Info => ("info", vec![s("in/Gen.dbc")], vec![], false, None),
        DbcOp::Discover { output, yaml } => ("discover", vec![s("in/Gen.dbc")], if *yaml { vec![vec![s("-m"), s("0")], vec![s("-y")]] } else { vec![vec![s("-m"), s("0")]] }, false, output.then_some(if *yaml { "out/schema.yaml" } else { "out/schema.txt" })),
        DbcOp::Analyze { schema } => ("analyze", vec![s("in/Gen.dbc")], if *schema { vec![vec![s("-s"), s("in/schema.yaml")]] } else { vec![] }, *schema, None),
    };
    if let Some(o) = out {
        groups.push(vec![s("-o"), s(o)]);
    }
    let cmd = format!("dbc:{sub}");
    let args = arrange(&[s("dbc"), s(sub)], &pos, &groups, c.order);
    let lib = ask(Ask::DbcDump { table: with_schema.then(|| t.clone()) }, &sb.path("in/Gen.dbc"));
    let lib_s = match &lib {
        Verdict::Ok(_) => "ok",
        Verdict::Rejects(_) => "err",
        Verdict::Crashed(_) => "crash",
    };
    // an earlier export of the same size: the tool's own output for the same table with one digit changed
    let mut stale: Option<Vec<u8>> = None;
    if let (Some(o), true) = (out, c.prefill != 0) {
        let first = sb.run(&args);
        if first.ok() {
            if let Some(mut b) = sb.read(o) {
                if c.prefill == 1 {
                    for x in b.iter_mut() {
                        if x.is_ascii_digit() {
                            *x = b'0' + (*x - b'0' + 1) % 10;
                        }
                    }
                } else if c.prefill == 2 {
                    b.extend(b"\n[\"left over\"]\n");
                } else {
                    b.truncate(b.len() / 2);
                }
                sb.write(o, &b);
                stale = Some(b);
            }
        }
    }
    let run = sb.run(&args);
    let exit0 = run.ok();
    let opk = match &c.op {
        DbcOp::ExportJson { to_file } => format!("export-json:{}", if *to_file { "file" } else { "stdout" }),
        DbcOp::ExportCsv { to_file } => format!("export-csv:{}", if *to_file { "file" } else { "stdout" }),
        DbcOp::List { limit, schema } => format!("list:limit{}:schema{}", if *limit as u32 >= t.rows as u32 { "≥rows" } else { "<rows" }, *schema as u8),
        DbcOp::Info => "info".into(),
        DbcOp::Discover { output, yaml } => format!("discover:o{}:y{}", *output as u8, *yaml as u8),
        DbcOp::Analyze { schema } => format!("analyze:schema{}", *schema as u8),
    };
    let class = format!("p3:dbc:{opk}:{}:stale{}:ord{}:lib-{lib_s}:exit{}", t.shape(), if stale.is_some() { c.prefill } else { 0 }, (c.order != 0) as u8, if exit0 { "0" } else { "nz" });
    let judged = exit0 && matches!(lib, Verdict::Ok(_));
    check.count(&class, judged);
    check.sample(&format!("p3:dbc:{opk}"), || json!({"part": "dbc", "case": c, "library": lib_s, "exit0": exit0}));
    let ctx = || format!("`{}` on a generated table ({}) → {}", cmdline(&args), t.shape(), show(&run));
    let mut fails: Vec<Fail> = vec![];
    let info = match (&lib, exit0) {
        (Verdict::Ok(i), true) => i.clone(),
        (Verdict::Rejects(e), true) => {
            fails.push(Fail::new(format!("exit0-on-rejected-input:{cmd}"), format!("{} — the library's parse (+schema) of the same table returns Err({})", ctx(), vcheck::engine::truncate(e, 200))));
            return crate::settle(check, fails);
        }
        (Verdict::Crashed(h), true) => {
            fails.push(Fail::new(format!("exit0-on-input-crashing-library:{cmd}"), format!("{} — the library died: {h}", ctx())));
            return crate::settle(check, fails);
        }
        (Verdict::Ok(_), false) => {
            check.bump(&format!("p3:cli-refuses-what-library-reads:{cmd}"), 1);
            if std::env::var("C20_P3_DEBUG").is_ok() {
                eprintln!("[p3 debug] {}", ctx());
            }
            return Ok(());
        }
        _ => return Ok(()),
    };
    check.bump(&format!("p3:judged:{cmd}"), 1);
    if stale.is_some() && c.prefill == 1 {
        check.bump("p3:over-same-size-result", 1);
    }
    let recs = info["records"].as_array().cloned().unwrap_or_default();
    let names = t.names();
    let hdr = &info["header"];
    let mut fail = |what: &str, msg: String| fails.push(Fail::new(format!("{what}:{cmd}"), format!("{} — {msg}", ctx())));
    match &c.op {
        DbcOp::ExportJson { .. } | DbcOp::ExportCsv { .. } => {
            let text: Option<String> = match out {
                Some(o) => sb.read(o).map(|b| String::from_utf8_lossy(&b).to_string()),
                None => Some(run.stdout.clone()),
            };
            let Some(text) = text else {
                fail("exit0-without-output", format!("{} was not written", out.unwrap_or("")));
                return crate::settle(check, fails);
            };
            if matches!(c.op, DbcOp::ExportJson { .. }) {
                match serde_json::from_str::<Value>(&text) {
                    Err(e) => fail("exit0-with-unparseable-output", format!("the export is not JSON: {e}")),
                    Ok(v) => match v.as_array() {
                        None => fail("export-differs-from-library", "the export is not a JSON array of records".into()),
                        Some(a) => {
                            if a.len() != recs.len() {
                                fail("export-record-count-differs-from-library", format!("{} records exported, parse_records has {}", a.len(), recs.len()));
                            } else {
                                'outer: for (i, (g, w)) in a.iter().zip(&recs).enumerate() {
                                    let Some(o) = g.as_object() else {
                                        fail("export-differs-from-library", format!("record {i} is not an object"));
                                        break;
                                    };
                                    if o.len() != names.len() {
                                        fail("export-field-count-differs-from-library", format!("record {i} has {} fields, the schema has {}", o.len(), names.len()));
                                        break;
                                    }
                                    for (j, n) in names.iter().enumerate() {
                                        match o.get(n) {
                                            None => {
                                                fail("export-field-count-differs-from-library", format!("record {i} lacks field {n}"));
                                                break 'outer;
                                            }
                                            Some(gv) => {
                                                if !json_matches(gv, &w[j]) {
                                                    fail("export-value-differs-from-library", format!("record {i} field {n}: exported {gv}, the library's record holds {}", w[j]));
                                                    break 'outer;
                                                }
                                            }
                                        }
                                    }
                                }
                            }
                        }
                    },
                }
            } else {
                match read_csv(&text) {
                    Err(e) => fail("exit0-with-unparseable-output", format!("the export is not CSV: {e}")),
                    Ok(rows) => {
                        if recs.is_empty() {
                            // an empty table: nothing, or the header line alone
                            if rows.len() > 1 {
                                fail("export-record-count-differs-from-library", format!("{} rows exported for an empty table", rows.len()));
                            }
                        } else if rows.is_empty() || rows[0] != names {
                            fail("export-field-count-differs-from-library", format!("header row {:?}, schema fields {:?}", rows.first(), names));
                        } else if rows.len() - 1 != recs.len() {
                            fail("export-record-count-differs-from-library", format!("{} records exported, parse_records has {}", rows.len() - 1, recs.len()));
                        } else {
                            'rows: for (i, (g, w)) in rows[1..].iter().zip(&recs).enumerate() {
                                if g.len() != names.len() {
                                    fail("export-field-count-differs-from-library", format!("record {i} has {} cells, the schema has {} fields", g.len(), names.len()));
                                    break;
                                }
                                for (j, n) in names.iter().enumerate() {
                                    if !csv_matches(&g[j], &w[j]) {
                                        fail("export-value-differs-from-library", format!("record {i} field {n}: exported {:?}, the library's record holds {}", g[j], w[j]));
                                        break 'rows;
                                    }
                                }
                            }
                        }
                    }
                }
            }
            if let Some(n) = labelled_u64(&run.stdout, "Exported") {
                if n != recs.len() as u64 {
                    fail("reported-record-count-differs-from-library", format!("'Exported {n} records', parse_records has {}", recs.len()));
                }
            }
        }
        DbcOp::List { limit, schema } => {
            if let Some(n) = labelled_u64(&run.stdout, "Total records:") {
                if n != recs.len() as u64 {
                    fail("reported-record-count-differs-from-library", format!("'Total records: {n}', parse_records has {}", recs.len()));
                }
            } else {
                fail("list-output-incomplete", "no 'Total records:' line".into());
            }
            let shown = parse_list(&run.stdout);
            let want_n = (*limit as usize).min(recs.len());
            if shown.len() != want_n || shown.keys().copied().ne(0..want_n) {
                fail("list-output-incomplete", format!("records shown: {:?}, expected the first {want_n} of {} (limit {limit})", shown.keys().collect::<Vec<_>>(), recs.len()));
            } else {
                'l: for (i, lines) in &shown {
                    let w = recs[*i].as_array().cloned().unwrap_or_default();
                    if lines.len() != w.len() {
                        fail("list-field-count-differs-from-library", format!("record {i}: {} fields listed, the library's record has {}", lines.len(), w.len()));
                        break;
                    }
                    for (j, (k, v)) in lines.iter().enumerate() {
                        let label = if *schema { names[j].clone() } else { format!("Field {j}") };
                        if *k != label {
                            fail("list-field-count-differs-from-library", format!("record {i}: label {k:?} where field {label:?} is expected"));
                            break 'l;
                        }
                        if let Some(t) = list_text(&w[j]) {
                            if *v != t {
                                fail("list-value-differs-from-library", format!("record {i} {label}: listed {v:?}, the library's record holds {} (printed as {t:?})", w[j]));
                                break 'l;
                            }
                        }
                    }
                }
            }
        }
        DbcOp::Info | DbcOp::Discover { .. } => {
            for (label, key) in [("Record Count:", "record_count"), ("Field Count:", "field_count"), ("Record Size:", "record_size"), ("String Block Size:", "string_block_size")] {
                match labelled_u64(&run.stdout, label) {
                    Some(n) if Some(n) == hdr[key].as_u64() => {}
                    Some(n) => fail("reported-header-differs-from-library", format!("'{label} {n}', the parsed header has {key} = {}", hdr[key])),
                    None => fail("info-output-incomplete", format!("no '{label}' line")),
                }
            }
            if matches!(c.op, DbcOp::Info) {
                if let Some(w) = recs.first().and_then(|r| r.as_array()) {
                    // "Sample Record (First Record - Raw Values)": "  Field  j:  v (Type)"
                    let mut seen = 0;
                    for l in run.stdout.lines() {
                        let Some(b) = l.trim().strip_prefix("Field") else { continue };
                        let Some((j, rest)) = b.split_once(':') else { continue };
                        let Ok(j) = j.trim().parse::<usize>() else { continue };
                        if !rest.contains('(') || j >= w.len() {
                            continue;
                        }
                        seen += 1;
                        let v = rest.trim().rsplit_once(" (").map(|x| x.0.trim()).unwrap_or("");
                        if let Some(u) = w[j].get("u") {
                            if v.parse::<u64>().ok() != u.as_u64() {
                                fail("info-value-differs-from-library", format!("sample record field {j}: printed {v:?}, the library's first raw record holds {u}"));
                                break;
                            }
                        }
                    }
                    if seen != w.len() {
                        fail("info-output-incomplete", format!("{seen} sample fields printed, the first raw record has {}", w.len()));
                    }
                }
            }
            if let DbcOp::Discover { yaml, .. } = &c.op {
                if let Some(o) = out {
                    match sb.read(o) {
                        None => fail("exit0-without-output", format!("{o} was not written")),
                        Some(b) if b.is_empty() => fail("exit0-without-output", format!("{o} is empty")),
                        Some(b) => {
                            let text = String::from_utf8_lossy(&b).to_string();
                            if *yaml {
                                // the same run without -o prints the YAML instead of writing it
                                let mut a2: Vec<String> = vec![];
                                let mut skip = false;
                                for a in &args {
                                    if skip {
                                        skip = false;
                                        continue;
                                    }
                                    if a == "-o" {
                                        skip = true;
                                        continue;
                                    }
                                    a2.push(a.clone());
                                }
                                let r2 = sb.run(&a2);
                                if let Some(i) = r2.stdout.find("Generated Schema (YAML):") {
                                    let printed: String = r2.stdout[i..].lines().skip(2).collect::<Vec<_>>().join("\n");
                                    if printed.trim() != text.trim() {
                                        fail("output-file-differs-from-stdout", format!("{o} ({} bytes) is not the schema the command prints without -o", b.len()));
                                    }
                                }
                            } else {
                                match (schema_field_lines(&run.stdout), schema_field_lines(&text)) {
                                    (Some(p), Some(f)) if p == f && !f.is_empty() => {}
                                    (p, f) => fail("output-file-differs-from-stdout", format!("{o} lists fields {:?}, stdout lists {:?}", f.map(|x| x.len()), p.map(|x| x.len()))),
                                }
                            }
                        }
                    }
                }
            }
        }
        DbcOp::Analyze { .. } => match labelled_u64(&run.stdout, "Total records:") {
            Some(n) if n == recs.len() as u64 => {}
            Some(n) => fail("reported-record-count-differs-from-library", format!("'Total records: {n}', parse_records has {}", recs.len())),
            None => fail("analyze-output-incomplete", "no 'Total records:' line".into()),
        },
    }
    // a wrong file that is byte for byte what was there before the run: the command did not write
    if let (Some(st), Some(o), false) = (&stale, out, fails.is_empty()) {
        if sb.read(o).as_deref() == Some(&st[..]) {
            let m = fails[0].message.clone();
            fails[0] = Fail::new(format!("stale-output-left-in-place:{cmd}"), format!("{m} — {o} still holds what was there before the run"));
        }
    }
    crate::settle(check, fails)
}

pub fn dbc_tables() -> Vec<DbcTable> {
    let f = |ty: u8, array: u8| FieldSpec { ty, array };
    vec![
        DbcTable { fields: vec![f(0, 0), f(3, 0), f(0, 0)], rows: 5, seed: 1, key: true },
        DbcTable { fields: vec![f(0, 0), f(1, 0), f(2, 0), f(3, 0), f(4, 0)], rows: 12, seed: 2, key: true },
        DbcTable { fields: vec![f(0, 0), f(2, 3), f(3, 2), f(1, 0)], rows: 7, seed: 3, key: true },
        DbcTable { fields: vec![f(0, 0), f(5, 0), f(6, 0), f(7, 0), f(8, 0), f(5, 2)], rows: 9, seed: 4, key: true },
        DbcTable { fields: vec![f(3, 0), f(3, 0)], rows: 4, seed: 5, key: false },
        DbcTable { fields: vec![f(0, 0), f(3, 0)], rows: 0, seed: 6, key: true },
        DbcTable { fields: vec![f(0, 0), f(2, 0)], rows: 1, seed: 7, key: true },
        DbcTable { fields: vec![f(0, 0), f(0, 4), f(4, 2), f(3, 0)], rows: 30, seed: 8, key: true },
        DbcTable { fields: vec![f(2, 0)], rows: 40, seed: 9, key: false },
    ]
}

pub fn dbc_ops(rows: u16) -> Vec<DbcOp> {
    vec![
        DbcOp::ExportJson { to_file: true },
        DbcOp::ExportJson { to_file: false },
        DbcOp::ExportCsv { to_file: true },
        DbcOp::ExportCsv { to_file: false },
        DbcOp::List { limit: 3, schema: true },
        DbcOp::List { limit: rows.saturating_add(5), schema: true },
        DbcOp::List { limit: 10, schema: false },
        DbcOp::List { limit: 0, schema: true },
        DbcOp::Info,
        DbcOp::Discover { output: false, yaml: false },
        DbcOp::Discover { output: true, yaml: false },
        DbcOp::Discover { output: true, yaml: true },
        DbcOp::Analyze { schema: true },
        DbcOp::Analyze { schema: false },
    ]
}

pub fn dbc_grid(thorough: bool) -> Vec<DbcCase> {
    let mut v = vec![];
    let mut k = 0usize;
    for (i, t) in dbc_tables().into_iter().enumerate() {
        for (j, op) in dbc_ops(t.rows).into_iter().enumerate() {
            k += 1;
            let to_file = matches!(op, DbcOp::ExportJson { to_file: true } | DbcOp::ExportCsv { to_file: true } | DbcOp::Discover { output: true, .. });
            if thorough {
                for prefill in if to_file { vec![0u8, 1, 2, 3] } else { vec![0u8] } {
                    v.push(DbcCase { table: t.clone(), op: op.clone(), prefill, order: if (k + prefill as usize) % 2 == 0 { k as u16 } else { 0 } });
                }
            } else if to_file || (i + j) % 2 == 0 {
                v.push(DbcCase { table: t.clone(), op, prefill: if to_file { (k % 4) as u8 } else { 0 }, order: if k % 3 == 0 { k as u16 } else { 0 } });
            }
        }
    }
    v
}

pub fn dbc_strategy() -> impl proptest::strategy::Strategy<Value = DbcCase> + use<> {
    use proptest::prelude::*;
    let field = (0u8..9, prop_oneof![3 => Just(0u8), 1 => 1u8..=4]).prop_map(|(ty, array)| FieldSpec { ty, array });
    let table = (proptest::collection::vec(field, 1..7), prop_oneof![1 => Just(0u16), 1 => Just(1u16), 4 => 2u16..40], any::<u32>(), any::<bool>()).prop_map(|(fields, rows, seed, key)| DbcTable { fields, rows, seed, key });
    (table, any::<u16>(), 0u8..4, prop_oneof![1 => Just(0u16), 1 => any::<u16>()], 0u16..50).prop_map(|(table, oi, prefill, order, limit)| {
        let mut ops = dbc_ops(table.rows);
        ops.push(DbcOp::List { limit, schema: true });
        let op = ops[pick_idx(oi, ops.len())].clone();
        DbcCase { table, op, prefill, order }
    })
}

// ==========================================================================================
// driver

pub const PARTS: [&str; 2] = ["conv", "dbc"];

pub fn replay(check: &Check, part: &str, case: &Value) -> vcheck::engine::CaseResult {
    match part {
        "conv" => run_conv(check, &serde_json::from_value::<ConvCase>(case.clone()).expect("conv case")),
        "dbc" => run_dbc(check, &serde_json::from_value::<DbcCase>(case.clone()).expect("dbc case")),
        _ => unreachable!(),
    }
}

fn guarded<T: Serialize + Sync>(check: &Check, part: &'static str, items: &[T], f: impl Fn(&T) -> Result<(), Fail> + Sync) {
    crate::parallel_for(items, |c| {
        let r = vcheck::engine::guard(part, || f(c)).and_then(|x| x);
        if let Err(fl) = r {
            check.fail(&fl, json!({"part": part, "case": c}));
        }
    });
}

pub fn run_all(check: &Check, _tps: &[crate::part2::Template]) {
    use vcheck::engine::pt;
    let thorough = check.tier == vcheck::engine::Tier::Thorough;
    let opts = || pt::Opts { max_shrink_iters: 40, ..pt::Opts::default() };
    let grid = conv_grid(thorough);
    check.set_extra("part3_conv_grid", json!(grid.len()));
    guarded(check, "conv", &grid, |c| run_conv(check, c));
    pt::run(check, "conv-random", check.tier.pick(96, 6000), opts(), conv_strategy, |c| json!({"part": "conv", "case": c}), |c| run_conv(check, c));
    let grid = dbc_grid(thorough);
    check.set_extra("part3_dbc_grid", json!(grid.len()));
    guarded(check, "dbc", &grid, |c| run_dbc(check, c));
    pt::run(check, "dbc-random", check.tier.pick(64, 4000), opts(), dbc_strategy, |c| json!({"part": "dbc", "case": c}), |c| run_dbc(check, c));
    for k in ["dbc:export", "dbc:list", "dbc:info", "dbc:discover", "dbc:analyze"] {
        if check.counter(&format!("p3:judged:{k}")) == 0 {
            crate::inc(check, &format!("part 3: no run of {k} exited 0 with a library result to compare with"));
        }
    }
    for k in CONV_KINDS {
        if check.counter(&format!("p3:judged-valid:{k}")) == 0 {
            crate::inc(check, &format!("part 3: no valid input of {k} exited 0 with a library result to compare with (content clause never judged)"));
        }
    }
    if check.counter("p3:over-same-size-result") == 0 {
        crate::inc(check, "part 3: no conversion ran over an earlier result of the same size");
    }
}
