//! One fresh sandbox directory per case; every CLI run happens with cwd inside it, a cleared
//! environment and HOME / XDG_* / TMPDIR pointing into it.

use std::io::Read;
use std::os::unix::process::{CommandExt, ExitStatusExt};
use std::path::{Path, PathBuf};
use std::process::{Command, Stdio};
use std::sync::atomic::{AtomicU64, Ordering};
use std::time::{Duration, Instant};

pub static RUNS: AtomicU64 = AtomicU64::new(0);

pub fn cli_path() -> PathBuf {
    PathBuf::from(
        std::env::var("VERIF_CLI")
            .unwrap_or_else(|_| "/verif/target/repo/debug/warcraft-rs".to_string()),
    )
}

#[derive(Debug, Clone)]
pub struct RunOut {
    /// exit code; None when killed by a signal or by the safety timeout
    pub code: Option<i32>,
    pub signal: Option<i32>,
    pub timed_out: bool,
    pub stdout: String,
    pub stderr: String,
}

impl RunOut {
    pub fn ok(&self) -> bool {
        self.code == Some(0)
    }
    pub fn status_str(&self) -> String {
        if self.timed_out {
            "timeout".into()
        } else if let Some(c) = self.code {
            format!("exit {c}")
        } else {
            format!("signal {}", self.signal.unwrap_or(-1))
        }
    }
    pub fn tail(&self) -> String {
        let e = self.stderr.trim();
        let o = self.stdout.trim();
        let cut = |s: &str| -> String {
            let v: Vec<&str> = s.lines().collect();
            let n = v.len();
            v[n.saturating_sub(4)..].join(" | ")
        };
        vcheck::engine::truncate(&format!("stdout: {} ; stderr: {}", cut(o), cut(e)), 500)
    }
}

pub struct Sandbox {
    pub dir: tempfile::TempDir,
}

impl Sandbox {
    pub fn new() -> Sandbox {
        let dir = vcheck::engine::scratch("c20");
        for d in ["home", "home/.config", "home/.local/share", "home/.cache", "home/.local/state", "tmp", "in", "out"] {
            std::fs::create_dir_all(dir.path().join(d)).expect("sandbox dirs");
        }
        Sandbox { dir }
    }
    pub fn root(&self) -> &Path {
        self.dir.path()
    }
    pub fn path(&self, rel: &str) -> PathBuf {
        self.dir.path().join(rel)
    }
    pub fn write(&self, rel: &str, data: &[u8]) {
        let p = self.path(rel);
        if let Some(parent) = p.parent() {
            std::fs::create_dir_all(parent).expect("mkdir");
        }
        std::fs::write(&p, data).expect("write sandbox file");
    }
    pub fn exists(&self, rel: &str) -> bool {
        self.path(rel).exists()
    }
    pub fn read(&self, rel: &str) -> Option<Vec<u8>> {
        std::fs::read(self.path(rel)).ok()
    }

    /// Run the CLI with `args` (relative paths resolve against the sandbox root).
    pub fn run(&self, args: &[String]) -> RunOut {
        RUNS.fetch_add(1, Ordering::Relaxed);
        let root = self.root();
        let mut cmd = Command::new(cli_path());
        cmd.args(args)
            .current_dir(root)
            .env_clear()
            .env("PATH", "/usr/bin:/bin")
            .env("HOME", root.join("home"))
            .env("XDG_CONFIG_HOME", root.join("home/.config"))
            .env("XDG_DATA_HOME", root.join("home/.local/share"))
            .env("XDG_CACHE_HOME", root.join("home/.cache"))
            .env("XDG_STATE_HOME", root.join("home/.local/state"))
            .env("TMPDIR", root.join("tmp"))
            .env("RUST_BACKTRACE", "0")
            .env("NO_COLOR", "1")
            .env("TERM", "dumb")
            .stdin(Stdio::null())
            .stdout(Stdio::piped())
            .stderr(Stdio::piped());
        unsafe {
            cmd.pre_exec(|| {
                // damaged inputs may request absurd allocations: fail them instead of swapping
                let lim = libc::rlimit {
                    rlim_cur: 8 << 30,
                    rlim_max: 8 << 30,
                };
                libc::setrlimit(libc::RLIMIT_AS, &lim);
                let core = libc::rlimit {
                    rlim_cur: 0,
                    rlim_max: 0,
                };
                libc::setrlimit(libc::RLIMIT_CORE, &core);
                // CPU seconds: a spinning child is killed by the kernel (SIGXCPU), not by wall time
                let cpu = libc::rlimit {
                    rlim_cur: 120,
                    rlim_max: 125,
                };
                libc::setrlimit(libc::RLIMIT_CPU, &cpu);
                Ok(())
            });
        }
        let mut child = match cmd.spawn() {
            Ok(c) => c,
            Err(e) => {
                return RunOut {
                    code: None,
                    signal: None,
                    timed_out: false,
                    stdout: String::new(),
                    stderr: format!("spawn failed: {e}"),
                };
            }
        };
        let mut so = child.stdout.take().unwrap();
        let mut se = child.stderr.take().unwrap();
        let t_out = std::thread::spawn(move || {
            let mut v = Vec::new();
            let _ = so.read_to_end(&mut v);
            v
        });
        let t_err = std::thread::spawn(move || {
            let mut v = Vec::new();
            let _ = se.read_to_end(&mut v);
            v
        });
        // safety net only (a deadlocked child burns no CPU): never reached on a healthy tree
        let deadline = Instant::now() + Duration::from_secs(300);
        let mut timed_out = false;
        let status = loop {
            match child.try_wait() {
                Ok(Some(st)) => break Some(st),
                Ok(None) => {
                    if Instant::now() > deadline {
                        let _ = child.kill();
                        timed_out = true;
                        break child.wait().ok();
                    }
                    std::thread::sleep(Duration::from_millis(2));
                }
                Err(_) => break None,
            }
        };
        let stdout = String::from_utf8_lossy(&t_out.join().unwrap_or_default()).to_string();
        let stderr = String::from_utf8_lossy(&t_err.join().unwrap_or_default()).to_string();
        RunOut {
            code: if timed_out { None } else { status.and_then(|s| s.code()) },
            signal: status.and_then(|s| s.signal()),
            timed_out,
            stdout,
            stderr,
        }
    }
}

pub fn sv(args: &[&str]) -> Vec<String> {
    args.iter().map(|s| s.to_string()).collect()
}
