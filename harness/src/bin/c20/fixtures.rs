//! Valid base inputs per family, produced with the library's own writers (or a hand-rolled
//! WDBC table / the crate's BLP fixtures). Every base is identified by a short id string and is
//! rebuilt deterministically from it, so replay files only store the id.

use std::collections::HashMap;
use std::io::Cursor;
use vcheck::engine::guard;
use vcheck::gens::mpq::{ArchiveSpec, Attrs, ContentClass, Enc, FileSpec, LenSpec, M_BZIP2, M_NONE, M_ZLIB};

pub const DBC_SCHEMA_YAML: &str = "name: Test\nkey_field: ID\nfields:\n  - name: ID\n    type_name: UInt32\n  - name: Name\n    type_name: String\n  - name: Value\n    type_name: UInt32\n";

/// a schema that cannot fit the table (field count mismatch): `dbc validate` must refuse it
pub const DBC_SCHEMA_WRONG_YAML: &str = "name: Test\nkey_field: ID\nfields:\n  - name: ID\n    type_name: UInt32\n  - name: Name\n    type_name: String\n";

pub const DBD_TEXT: &str = "COLUMNS\nint ID\nlocstring Name_lang\nint Value\nfloat Scale\n\nBUILD 3.3.5.12340\n$id$ID<32>\nName_lang\nValue<32>\nScale\n\nBUILD 1.12.1.5875\n$id$ID<32>\nName_lang\nValue<32>\n";

pub fn dbc_schema() -> wow_cdbc::Schema {
    use wow_cdbc::{FieldType, Schema, SchemaField};
    let mut s = Schema::new("Test");
    s.add_field(SchemaField::new("ID", FieldType::UInt32));
    s.add_field(SchemaField::new("Name", FieldType::String));
    s.add_field(SchemaField::new("Value", FieldType::UInt32));
    s.set_key_field("ID");
    s
}

pub fn dbc_schema_wrong() -> wow_cdbc::Schema {
    use wow_cdbc::{FieldType, Schema, SchemaField};
    let mut s = Schema::new("Test");
    s.add_field(SchemaField::new("ID", FieldType::UInt32));
    s.add_field(SchemaField::new("Name", FieldType::String));
    s.set_key_field("ID");
    s
}

fn dbc_bytes(rows: u32) -> Vec<u8> {
    // WDBC, `rows` records of (ID u32, Name stringref, Value u32)
    let names: Vec<String> = (0..rows).map(|i| format!("Name{i}")).collect();
    let mut block = vec![0u8];
    let mut offs = vec![];
    for n in &names {
        offs.push(block.len() as u32);
        block.extend(n.as_bytes());
        block.push(0);
    }
    let mut d = b"WDBC".to_vec();
    for v in [rows, 3, 12, block.len() as u32] {
        d.extend(v.to_le_bytes());
    }
    for i in 0..rows {
        for v in [i + 1, offs[i as usize], 100 * (i + 1)] {
            d.extend(v.to_le_bytes());
        }
    }
    d.extend(block);
    d
}

fn m2_bytes(v: wow_m2::M2Version) -> Vec<u8> {
    m2_bytes_n(v, 3)
}

fn m2_bytes_n(v: wow_m2::M2Version, n_vertices: usize) -> Vec<u8> {
    use wow_m2::M2Model;
    use wow_m2::chunks::vertex::M2Vertex;
    use wow_m2::common::{C2Vector, C3Vector};
    use wow_m2::header::M2Header;
    use wow_m2::model::EmbeddedSkinRaw;
    let mut m = M2Model::default();
    m.header = M2Header::new(v);
    m.name = Some("Test".into());
    for i in 0..n_vertices {
        m.vertices.push(M2Vertex {
            position: C3Vector { x: i as f32, y: 0.0, z: 0.0 },
            bone_weights: [255, 0, 0, 0],
            bone_indices: [0; 4],
            normal: C3Vector { x: 0.0, y: 0.0, z: 1.0 },
            tex_coords: C2Vector { x: 0.0, y: 0.0 },
            tex_coords2: Some(C2Vector { x: 0.0, y: 0.0 }),
        });
    }
    if v.to_header_version() <= 263 {
        let mut mv = vec![0u8; 44];
        mv[40..44].copy_from_slice(&1u32.to_le_bytes());
        m.raw_data.embedded_skins.push(EmbeddedSkinRaw {
            model_view: mv,
            indices: [0u16, 1, 2].iter().flat_map(|x| x.to_le_bytes()).collect(),
            triangles: [0u16, 1, 2].iter().flat_map(|x| x.to_le_bytes()).collect(),
            ..Default::default()
        });
    } else {
        m.header.num_skin_profiles = Some(1);
    }
    let mut c = Cursor::new(Vec::new());
    m.write(&mut c).expect("m2 write");
    c.into_inner()
}

fn skin_bytes(new: bool) -> Vec<u8> {
    use wow_m2::skin::{OldSkin, OldSkinHeader, Skin, SkinFile, SkinHeader};
    let f = if new {
        let mut nh = SkinHeader::new(wow_m2::M2Version::Cataclysm);
        nh.vertex_count = 6;
        SkinFile::New(Skin {
            header: nh,
            indices: vec![0, 1, 2, 3, 4, 5],
            triangles: vec![0, 1, 2, 3, 4, 5],
            bone_indices: vec![0u8; 24],
            submeshes: vec![],
            batches: vec![],
        })
    } else {
        let mut h = OldSkinHeader::new();
        h.bone_count_max = 1;
        SkinFile::Old(OldSkin {
            header: h,
            indices: vec![0, 1, 2, 3, 4, 5],
            triangles: vec![0, 1, 2, 3, 4, 5],
            bone_indices: vec![0u8; 24],
            submeshes: vec![],
            batches: vec![],
        })
    };
    let mut c = Cursor::new(Vec::new());
    f.write(&mut c).expect("skin write");
    c.into_inner()
}

fn anim_bytes(modern: bool) -> Vec<u8> {
    use wow_m2::anim::*;
    let sections = vec![AnimSection {
        header: AnimSectionHeader { magic: *b"AFID", id: 1, start: 0, end: 100 },
        bone_animations: vec![],
    }];
    let f = if modern {
        AnimFile {
            format: AnimFormat::Modern,
            metadata: AnimMetadata::Modern {
                header: AnimHeader { magic: ANIM_MAGIC, version: 1, id_count: 1, unknown: 0, anim_entry_offset: 20 },
                entries: vec![AnimEntry { id: 1, offset: 0, size: 0 }],
            },
            sections,
        }
    } else {
        AnimFile {
            format: AnimFormat::Legacy,
            metadata: AnimMetadata::Legacy {
                file_size: 0,
                animation_count: 1,
                structure_hints: LegacyStructureHints { appears_valid: true, estimated_blocks: 1, has_timestamps: false },
            },
            sections,
        }
    };
    let mut c = Cursor::new(Vec::new());
    f.write(&mut c).expect("anim write");
    c.into_inner()
}

fn wmo_root_bytes(v: wow_wmo::WmoVersion) -> Vec<u8> {
    use wow_wmo::WmoWriter;
    use wow_wmo::types::{BoundingBox, Color, Vec3};
    use wow_wmo::wmo_group_types::WmoGroupFlags;
    use wow_wmo::wmo_types::{WmoFlags, WmoGroupInfo, WmoHeader, WmoRoot};
    let bb = BoundingBox { min: Vec3 { x: 0., y: 0., z: 0. }, max: Vec3 { x: 1., y: 1., z: 1. } };
    let root = WmoRoot {
        version: v,
        materials: vec![],
        groups: vec![WmoGroupInfo { flags: WmoGroupFlags::empty(), bounding_box: bb.clone(), name: "g".into() }],
        portals: vec![],
        portal_references: vec![],
        visible_block_lists: vec![],
        lights: vec![],
        doodad_defs: vec![],
        doodad_sets: vec![],
        bounding_box: bb,
        textures: vec!["t.blp".into()],
        texture_offset_index_map: HashMap::from([(0u32, 0u32)]),
        header: WmoHeader {
            n_materials: 0,
            n_groups: 1,
            n_portals: 0,
            n_lights: 0,
            n_doodad_names: 0,
            n_doodad_defs: 0,
            n_doodad_sets: 0,
            flags: WmoFlags::empty(),
            ambient_color: Color::default(),
        },
        skybox: None,
        convex_volume_planes: None,
    };
    let mut c = Cursor::new(Vec::new());
    WmoWriter::new().write_root(&mut c, &root, v).expect("wmo root write");
    c.into_inner()
}

fn wmo_group_bytes() -> Vec<u8> {
    use wow_wmo::types::{BoundingBox, Vec3};
    use wow_wmo::wmo_group_types::{TexCoord, WmoGroup, WmoGroupFlags, WmoGroupHeader};
    use wow_wmo::{WmoVersion, WmoWriter};
    let bb = BoundingBox { min: Vec3 { x: 0., y: 0., z: 0. }, max: Vec3 { x: 1., y: 1., z: 1. } };
    let group = WmoGroup {
        header: WmoGroupHeader { flags: WmoGroupFlags::empty(), bounding_box: bb, name_offset: 0, group_index: 0 },
        materials: vec![],
        vertices: vec![Vec3 { x: 0., y: 0., z: 0. }; 3],
        normals: vec![Vec3 { x: 0., y: 0., z: 1. }; 3],
        tex_coords: vec![TexCoord { u: 0., v: 0. }; 3],
        batches: vec![],
        indices: vec![0, 1, 2],
        vertex_colors: None,
        bsp_nodes: None,
        liquid: None,
        doodad_refs: None,
    };
    let mut c = Cursor::new(Vec::new());
    WmoWriter::new().write_group(&mut c, &group, WmoVersion::Wotlk).expect("wmo group write");
    c.into_inner()
}

fn adt_bytes(v: wow_adt::AdtVersion) -> Vec<u8> {
    use wow_adt::AdtBuilder;
    AdtBuilder::new()
        .with_version(v)
        .add_texture("terrain/grass.blp")
        .build()
        .expect("adt build")
        .to_bytes()
        .expect("adt bytes")
}

fn wdt_bytes(kind: &str) -> Vec<u8> {
    use wow_wdt::chunks::{ModfChunk, ModfEntry, MphdFlags, MwmoChunk};
    use wow_wdt::version::WowVersion;
    use wow_wdt::{WdtFile, WdtWriter};
    let mut w;
    match kind {
        "terrain-cata" => {
            w = WdtFile::new(WowVersion::Cataclysm);
            let t = w.main.get_mut(10, 20).unwrap();
            t.set_has_adt(true);
            t.area_id = 7;
        }
        "wmo-wotlk" => {
            w = WdtFile::new(WowVersion::WotLK);
            w.mphd.flags |= MphdFlags::WDT_USES_GLOBAL_MAP_OBJ;
            let mut mwmo = MwmoChunk::new();
            mwmo.add_filename("world/wmo/x.wmo".to_string());
            w.mwmo = Some(mwmo);
            let mut modf = ModfChunk::new();
            modf.add_entry(ModfEntry {
                id: 0,
                unique_id: 1,
                position: [1.0, 2.0, 3.0],
                rotation: [0.0, 0.0, 0.0],
                lower_bounds: [0.0; 3],
                upper_bounds: [1.0; 3],
                flags: 0,
                doodad_set: 0,
                name_set: 0,
                scale: 1024,
            });
            w.modf = Some(modf);
        }
        _ => {
            w = WdtFile::new(WowVersion::WotLK);
            w.mwmo = Some(MwmoChunk::new());
            for (x, y) in [(32, 32), (32, 33), (0, 63)] {
                let t = w.main.get_mut(x, y).unwrap();
                t.set_has_adt(true);
                t.area_id = 1 + x as u32;
            }
        }
    }
    let mut buf = Vec::new();
    WdtWriter::new(&mut buf).write(&w).expect("wdt write");
    buf
}

fn wdl_bytes(v: wow_wdl::version::WdlVersion) -> Vec<u8> {
    use wow_wdl::parser::WdlParser;
    use wow_wdl::types::{HeightMapTile, HolesData, WdlFile};
    let mut f = WdlFile::with_version(v);
    for (x, y) in [(32u32, 32u32), (1, 2)] {
        f.heightmap_tiles.insert((x, y), HeightMapTile::new());
        if v.has_maho_chunk() {
            f.holes_data.insert((x, y), HolesData::new());
        }
    }
    let mut c = Cursor::new(Vec::new());
    WdlParser::with_version(v).write(&mut c, &f).expect("wdl write");
    c.into_inner()
}

fn png_bytes(w: u32, h: u32, alpha: bool) -> Vec<u8> {
    use image::{DynamicImage, ImageFormat, RgbImage, RgbaImage};
    let img = if alpha {
        DynamicImage::ImageRgba8(RgbaImage::from_fn(w, h, |x, y| image::Rgba([(x * 16) as u8, (y * 16) as u8, 99, if (x + y) % 2 == 0 { 255 } else { 40 }])))
    } else {
        DynamicImage::ImageRgb8(RgbImage::from_fn(w, h, |x, y| image::Rgb([(x * 16) as u8, (y * 16) as u8, 77])))
    };
    let mut c = Cursor::new(Vec::new());
    img.write_to(&mut c, ImageFormat::Png).expect("png");
    c.into_inner()
}

fn blp_raw3() -> Vec<u8> {
    use image::{DynamicImage, RgbaImage};
    use wow_blp::convert::{Blp2Format, BlpTarget, FilterType, image_to_blp};
    use wow_blp::encode::encode_blp;
    let img = DynamicImage::ImageRgba8(RgbaImage::from_pixel(8, 8, image::Rgba([10, 20, 30, 255])));
    let blp = image_to_blp(img, false, BlpTarget::Blp2(Blp2Format::Raw3), FilterType::Nearest).expect("image_to_blp");
    encode_blp(&blp).expect("encode_blp")
}

/// `<1|3|5>:<w>x<h>[:mips]` — a BLP2 DXT texture of any size the encoder accepts (sizes that are
/// not multiples of 4 / powers of two are what `blp validate` has findings about)
fn blp_dxt(spec: &str) -> Result<Vec<u8>, String> {
    use image::{DynamicImage, RgbaImage};
    use wow_blp::convert::{Blp2Format, BlpTarget, DxtAlgorithm, FilterType, image_to_blp};
    use wow_blp::encode::encode_blp;
    let mut it = spec.split(':');
    let kind = it.next().unwrap_or("1");
    let (w, h) = it.next().and_then(|d| d.split_once('x')).and_then(|(w, h)| Some((w.parse::<u32>().ok()?, h.parse::<u32>().ok()?))).ok_or_else(|| format!("bad dxt spec {spec}"))?;
    let mips = it.next() == Some("mips");
    let img = DynamicImage::ImageRgba8(RgbaImage::from_fn(w, h, |x, y| image::Rgba([(x * 37) as u8, (y * 59) as u8, (x ^ y) as u8, 255])));
    let a = DxtAlgorithm::RangeFit;
    let f = match kind {
        "3" => Blp2Format::Dxt3 { has_alpha: true, compress_algorithm: a },
        "5" => Blp2Format::Dxt5 { has_alpha: true, compress_algorithm: a },
        _ => Blp2Format::Dxt1 { has_alpha: false, compress_algorithm: a },
    };
    let blp = guard("image_to_blp", || image_to_blp(img, mips, BlpTarget::Blp2(f), FilterType::Nearest)).map_err(|p| format!("image_to_blp panicked: {}", p.message))?.map_err(|e| format!("image_to_blp: {e}"))?;
    encode_blp(&blp).map_err(|e| format!("encode_blp: {e}"))
}

/// small library-built archives used as valid MPQ inputs of part 2
pub fn mpq_spec(id: &str) -> Option<ArchiveSpec> {
    let (version, listfile, compress_tables) = match id {
        "v1" => (1u8, true, false),
        "v2" => (2, true, false),
        "v3" => (3, true, false),
        "v4" => (4, true, true),
        "v1-nolist" => (1, false, false),
        _ => return None,
    };
    let f = |name: &str, class, halves, delta, seed, method, enc| FileSpec {
        name: name.to_string(),
        class,
        len: LenSpec { halves, delta },
        seed,
        method,
        enc,
    };
    Some(ArchiveSpec {
        version,
        shift: 0,
        crcs: false,
        attrs: if version >= 2 { Attrs::Crc32 } else { Attrs::None },
        listfile,
        compress_tables,
        table_method: M_ZLIB,
        files: vec![
            f("readme.txt", ContentClass::Text, 0, 120, 1, M_ZLIB, Enc::None),
            f("Data\\blob.bin", ContentClass::Random, 3, 17, 2, M_NONE, Enc::None),
            f("Data\\Sub\\table.dbc", ContentClass::LowEntropy, 5, -3, 3, M_BZIP2, if version == 2 { Enc::Key } else { Enc::None }),
            f("empty.dat", ContentClass::Constant, 0, 0, 4, M_ZLIB, Enc::None),
            f(&format!("Interface\\{}\\{}.blp", "GlueXML_".repeat(5), "LongFileName_".repeat(5)), ContentClass::Period, 1, 9, 5, M_ZLIB, Enc::None),
        ],
    })
}

pub fn build_mpq(spec: &ArchiveSpec, path: &std::path::Path) -> Result<(), String> {
    let s = spec.clone();
    let p = path.to_path_buf();
    match guard("ArchiveBuilder::build", move || s.builder().build(&p)) {
        Ok(Ok(())) => Ok(()),
        Ok(Err(e)) => Err(format!("builder error: {e}")),
        Err(f) => Err(f.message),
    }
}

fn mpq_bytes(id: &str) -> Result<Vec<u8>, String> {
    let spec = mpq_spec(id).ok_or_else(|| format!("unknown mpq base {id}"))?;
    let d = vcheck::engine::scratch("c20fx");
    let p = d.path().join("a.mpq");
    build_mpq(&spec, &p)?;
    std::fs::read(&p).map_err(|e| e.to_string())
}

fn build_uncached(id: &str) -> Result<Vec<u8>, String> {
    let (fam, rest) = id.split_once(':').unwrap_or((id, ""));
    let r: Result<Result<Vec<u8>, String>, vcheck::engine::Fail> = guard("fixture", || match fam {
        "mpq" => mpq_bytes(rest),
        "dbc" => Ok(dbc_bytes(match rest {
            "empty" => 0,
            "one" => 1,
            _ => 5,
        })),
        "dbd" => Ok(DBD_TEXT.as_bytes().to_vec()),
        "none" => Ok(Vec::new()),
        "yaml" => Ok(if rest == "dbc-wrong" { DBC_SCHEMA_WRONG_YAML } else { DBC_SCHEMA_YAML }.as_bytes().to_vec()),
        "blp" => {
            if rest == "raw3" {
                Ok(blp_raw3())
            } else if let Some(spec) = rest.strip_prefix("dxt") {
                blp_dxt(spec)
            } else {
                std::fs::read(format!("/repo/file-formats/graphics/wow-blp/test-data/{rest}")).map_err(|e| format!("{rest}: {e}"))
            }
        }
        "png" => Ok(match rest {
            "rgba8" => png_bytes(8, 8, true),
            "rgb16" => png_bytes(16, 16, false),
            _ => png_bytes(4, 4, false),
        }),
        "m2" if rest == "no-vertices" => Ok(m2_bytes_n(wow_m2::M2Version::WotLK, 0)),
        "m2" => Ok(m2_bytes(match rest {
            "vanilla" => wow_m2::M2Version::Vanilla,
            "tbc" => wow_m2::M2Version::TBC,
            "cata" => wow_m2::M2Version::Cataclysm,
            _ => wow_m2::M2Version::WotLK,
        })),
        "skin" => Ok(skin_bytes(rest == "new")),
        "anim" => Ok(anim_bytes(rest == "modern")),
        "wmo" => Ok(match rest {
            "group" => wmo_group_bytes(),
            "root-mop" => wmo_root_bytes(wow_wmo::WmoVersion::Mop),
            "root-classic" => wmo_root_bytes(wow_wmo::WmoVersion::Classic),
            _ => wmo_root_bytes(wow_wmo::WmoVersion::Wotlk),
        }),
        "adt" => Ok(adt_bytes(match rest {
            "vanilla-early" => wow_adt::AdtVersion::VanillaEarly,
            "vanilla-late" => wow_adt::AdtVersion::VanillaLate,
            _ => wow_adt::AdtVersion::WotLK,
        })),
        "wdt" => Ok(wdt_bytes(rest)),
        "wdl" => Ok(wdl_bytes(match rest {
            "vanilla" => wow_wdl::version::WdlVersion::Vanilla,
            "legion" => wow_wdl::version::WdlVersion::Legion,
            _ => wow_wdl::version::WdlVersion::Wotlk,
        })),
        _ => Err(format!("unknown base id {id}")),
    });
    match r {
        Ok(x) => x,
        Err(f) => Err(f.message),
    }
}

static CACHE: std::sync::Mutex<Option<HashMap<String, Result<std::sync::Arc<Vec<u8>>, String>>>> = std::sync::Mutex::new(None);

/// bytes of a valid base input (cached per process)
pub fn base(id: &str) -> Result<std::sync::Arc<Vec<u8>>, String> {
    {
        let g = CACHE.lock().unwrap();
        if let Some(m) = g.as_ref() {
            if let Some(v) = m.get(id) {
                return v.clone();
            }
        }
    }
    let v = build_uncached(id).map(std::sync::Arc::new);
    let mut g = CACHE.lock().unwrap();
    g.get_or_insert_with(HashMap::new).insert(id.to_string(), v.clone());
    v
}
