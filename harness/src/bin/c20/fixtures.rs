//! Valid base inputs per family, produced with the library's own writers (or a hand-rolled
//! WDBC table / the crate's BLP fixtures). Every base is identified by a short id string and is
//! rebuilt deterministically from it, so replay files only store the id.

use std::collections::HashMap;
use std::io::Cursor;
use vcheck::engine::guard;
use vcheck::gens::mpq::{ArchiveSpec, Attrs, ContentClass, Enc, FileSpec, LenSpec, M_BZIP2, M_NONE, M_ZLIB};

pub const DBC_SCHEMA_YAML: &str = "name: Test\nkey_field: ID\nfields:\n  - name: ID\n    type_name: UInt32\n  - name: Name\n    type_name: String\n  - name: Value\n    type_name: UInt32\n";

/// a schema that cannot fit the table (field count mismatch): `dbc validate` must refuse it
pub const DBC_SCHEMA_WRONG_YAML: &str = "name: Test\nkey_field: ID\nfields:\n  - name: ID\n    type_name: UInt32\n  - name: Name\n    type_name: String\n";

pub const DBD_TEXT: &str = "COLUMNS\nint ID\nlocstring Name_lang\nint Value\nfloat Scale\n\nBUILD 3.3.5.12340\n$id$ID<32>\nName_lang\nValue<32>\nScale\n\nBUILD 1.12.1.5875\n$id$ID<32>\nName_lang\nValue<32>\n";

pub fn dbc_schema() -> wow_cdbc::Schema {
    use wow_cdbc::{FieldType, Schema, SchemaField};
    let mut s = Schema::new("Test");
    s.add_field(SchemaField::new("ID", FieldType::UInt32));
    s.add_field(SchemaField::new("Name", FieldType::String));
    s.add_field(SchemaField::new("Value", FieldType::UInt32));
    s.set_key_field("ID");
    s
}

pub fn dbc_schema_wrong() -> wow_cdbc::Schema {
    use wow_cdbc::{FieldType, Schema, SchemaField};
    let mut s = Schema::new("Test");
    s.add_field(SchemaField::new("ID", FieldType::UInt32));
    s.add_field(SchemaField::new("Name", FieldType::String));
    s.set_key_field("ID");
    s
}

fn dbc_bytes(rows: u32) -> Vec<u8> {
    // WDBC, `rows` records of (ID u32, Name stringref, Value u32)
    let names: Vec<String> = (0..rows).map(|i| format!("Name{i}")).collect();
    let mut block = vec![0u8];
    let mut offs = vec![];
    for n in &names {
        offs.push(block.len() as u32);
        block.extend(n.as_bytes());
        block.push(0);
    }
    let mut d = b"WDBC".to_vec();
    for v in [rows, 3, 12, block.len() as u32] {
        d.extend(v.to_le_bytes());
    }
    for i in 0..rows {
        for v in [i + 1, offs[i as usize], 100 * (i + 1)] {
            d.extend(v.to_le_bytes());
        }
    }
    d.extend(block);
    d
}

fn m2_bytes(v: wow_m2::M2Version) -> Vec<u8> {
    m2_bytes_n(v, 3)
}

fn m2_bytes_n(v: wow_m2::M2Version, n_vertices: usize) -> Vec<u8> {
    use wow_m2::M2Model;
    use wow_m2::chunks::vertex::M2Vertex;
    use wow_m2::common::{C2Vector, C3Vector};
    use wow_m2::header::M2Header;
    use wow_m2::model::EmbeddedSkinRaw;
    let mut m = M2Model::default();
    m.header = M2Header::new(v);
    m.name = Some("Test".into());
    for i in 0..n_vertices {
        m.vertices.push(M2Vertex {
            position: C3Vector { x: i as f32, y: 0.0, z: 0.0 },
            bone_weights: [255, 0, 0, 0],
            bone_indices: [0; 4],
            normal: C3Vector { x: 0.0, y: 0.0, z: 1.0 },
            tex_coords: C2Vector { x: 0.0, y: 0.0 },
            tex_coords2: Some(C2Vector { x: 0.0, y: 0.0 }),
        });
    }
    if v.to_header_version() <= 263 {
        let mut mv = vec![0u8; 44];
        mv[40..44].copy_from_slice(&1u32.to_le_bytes());
        m.raw_data.embedded_skins.push(EmbeddedSkinRaw {
            model_view: mv,
            indices: [0u16, 1, 2].iter().flat_map(|x| x.to_le_bytes()).collect(),
            triangles: [0u16, 1, 2].iter().flat_map(|x| x.to_le_bytes()).collect(),
            ..Default::default()
        });
    } else {
        m.header.num_skin_profiles = Some(1);
    }
    let mut c = Cursor::new(Vec::new());
    m.write(&mut c).expect("m2 write");
    c.into_inner()
}

fn skin_bytes(new: bool) -> Vec<u8> {
    use wow_m2::skin::{OldSkin, OldSkinHeader, Skin, SkinFile, SkinHeader};
    let f = if new {
        let mut nh = SkinHeader::new(wow_m2::M2Version::Cataclysm);
        nh.vertex_count = 6;
        SkinFile::New(Skin {
            header: nh,
            indices: vec![0, 1, 2, 3, 4, 5],
            triangles: vec![0, 1, 2, 3, 4, 5],
            bone_indices: vec![0u8; 24],
            submeshes: vec![],
            batches: vec![],
        })
    } else {
        let mut h = OldSkinHeader::new();
        h.bone_count_max = 1;
        SkinFile::Old(OldSkin {
            header: h,
            indices: vec![0, 1, 2, 3, 4, 5],
            triangles: vec![0, 1, 2, 3, 4, 5],
            bone_indices: vec![0u8; 24],
            submeshes: vec![],
            batches: vec![],
        })
    };
    let mut c = Cursor::new(Vec::new());
    f.write(&mut c).expect("skin write");
    c.into_inner()
}

fn anim_bytes(modern: bool) -> Vec<u8> {
    use wow_m2::anim::*;
    let sections = vec![AnimSection {
        header: AnimSectionHeader { magic: *b"AFID", id: 1, start: 0, end: 100 },
        bone_animations: vec![],
    }];
    let f = if modern {
        AnimFile {
            format: AnimFormat::Modern,
            metadata: AnimMetadata::Modern {
                header: AnimHeader { magic: ANIM_MAGIC, version: 1, id_count: 1, unknown: 0, anim_entry_offset: 20 },
                entries: vec![AnimEntry { id: 1, offset: 0, size: 0 }],
            },
            sections,
        }
    } else {
        AnimFile {
            format: AnimFormat::Legacy,
            metadata: AnimMetadata::Legacy {
                file_size: 0,
                animation_count: 1,
                structure_hints: LegacyStructureHints { appears_valid: true, estimated_blocks: 1, has_timestamps: false },
            },
            sections,
        }
    };
    let mut c = Cursor::new(Vec::new());
    f.write(&mut c).expect("anim write");
    c.into_inner()
}

fn wmo_root_bytes(v: wow_wmo::WmoVersion) -> Vec<u8> {
    use wow_wmo::WmoWriter;
    use wow_wmo::types::{BoundingBox, Color, Vec3};
    use wow_wmo::wmo_group_types::WmoGroupFlags;
    use wow_wmo::wmo_types::{WmoFlags, WmoGroupInfo, WmoHeader, WmoRoot};
    let bb = BoundingBox { min: Vec3 { x: 0., y: 0., z: 0. }, max: Vec3 { x: 1., y: 1., z: 1. } };
    let root = WmoRoot {
        version: v,
        materials: vec![],
        groups: vec![WmoGroupInfo { flags: WmoGroupFlags::empty(), bounding_box: bb.clone(), name: "g".into() }],
        portals: vec![],
        portal_references: vec![],
        visible_block_lists: vec![],
        lights: vec![],
        doodad_defs: vec![],
        doodad_sets: vec![],
        bounding_box: bb,
        textures: vec!["t.blp".into()],
        texture_offset_index_map: HashMap::from([(0u32, 0u32)]),
        header: WmoHeader {
            n_materials: 0,
            n_groups: 1,
            n_portals: 0,
            n_lights: 0,
            n_doodad_names: 0,
            n_doodad_defs: 0,
            n_doodad_sets: 0,
            flags: WmoFlags::empty(),
            ambient_color: Color::default(),
        },
        skybox: None,
        convex_volume_planes: None,
    };
    let mut c = Cursor::new(Vec::new());
    WmoWriter::new().write_root(&mut c, &root, v).expect("wmo root write");
    c.into_inner()
}

fn wmo_group_bytes() -> Vec<u8> {
    use wow_wmo::types::{BoundingBox, Vec3};
    use wow_wmo::wmo_group_types::{TexCoord, WmoGroup, WmoGroupFlags, WmoGroupHeader};
    use wow_wmo::{WmoVersion, WmoWriter};
    let bb = BoundingBox { min: Vec3 { x: 0., y: 0., z: 0. }, max: Vec3 { x: 1., y: 1., z: 1. } };
    let group = WmoGroup {
        header: WmoGroupHeader { flags: WmoGroupFlags::empty(), bounding_box: bb, name_offset: 0, group_index: 0 },
        materials: vec![],
        vertices: vec![Vec3 { x: 0., y: 0., z: 0. }; 3],
        normals: vec![Vec3 { x: 0., y: 0., z: 1. }; 3],
        tex_coords: vec![TexCoord { u: 0., v: 0. }; 3],
        batches: vec![],
        indices: vec![0, 1, 2],
        vertex_colors: None,
        bsp_nodes: None,
        liquid: None,
        doodad_refs: None,
    };
    let mut c = Cursor::new(Vec::new());
    WmoWriter::new().write_group(&mut c, &group, WmoVersion::Wotlk).expect("wmo group write");
    c.into_inner()
}

fn adt_bytes(v: wow_adt::AdtVersion) -> Vec<u8> {
    use wow_adt::AdtBuilder;
    AdtBuilder::new()
        .with_version(v)
        .add_texture("terrain/grass.blp")
        .build()
        .expect("adt build")
        .to_bytes()
        .expect("adt bytes")
}

fn wdt_bytes(kind: &str) -> Vec<u8> {
    use wow_wdt::chunks::{ModfChunk, ModfEntry, MphdFlags, MwmoChunk};
    use wow_wdt::version::WowVersion;
    use wow_wdt::{WdtFile, WdtWriter};
    let mut w;
    match kind {
        "terrain-cata" => {
            w = WdtFile::new(WowVersion::Cataclysm);
            let t = w.main.get_mut(10, 20).unwrap();
            t.set_has_adt(true);
            t.area_id = 7;
        }
        "wmo-wotlk" => {
            w = WdtFile::new(WowVersion::WotLK);
            w.mphd.flags |= MphdFlags::WDT_USES_GLOBAL_MAP_OBJ;
            let mut mwmo = MwmoChunk::new();
            mwmo.add_filename("world/wmo/x.wmo".to_string());
            w.mwmo = Some(mwmo);
            let mut modf = ModfChunk::new();
            modf.add_entry(ModfEntry {
                id: 0,
                unique_id: 1,
                position: [1.0, 2.0, 3.0],
                rotation: [0.0, 0.0, 0.0],
                lower_bounds: [0.0; 3],
                upper_bounds: [1.0; 3],
                flags: 0,
                doodad_set: 0,
                name_set: 0,
                scale: 1024,
            });
            w.modf = Some(modf);
        }
        _ => {
            w = WdtFile::new(WowVersion::WotLK);
            w.mwmo = Some(MwmoChunk::new());
            for (x, y) in [(32, 32), (32, 33), (0, 63)] {
                let t = w.main.get_mut(x, y).unwrap();
                t.set_has_adt(true);
                t.area_id = 1 + x as u32;
            }
        }
    }
    let mut buf = Vec::new();
    WdtWriter::new(&mut buf).write(&w).expect("wdt write");
    buf
}

fn wdl_bytes(v: wow_wdl::version::WdlVersion) -> Vec<u8> {
    use wow_wdl::parser::WdlParser;
    use wow_wdl::types::{HeightMapTile, HolesData, WdlFile};
    let mut f = WdlFile::with_version(v);
    for (x, y) in [(32u32, 32u32), (1, 2)] {
        f.heightmap_tiles.insert((x, y), HeightMapTile::new());
        if v.has_maho_chunk() {
            f.holes_data.insert((x, y), HolesData::new());
        }
    }
    let mut c = Cursor::new(Vec::new());
    WdlParser::with_version(v).write(&mut c, &f).expect("wdl write");
    c.into_inner()
}

fn png_bytes(w: u32, h: u32, alpha: bool) -> Vec<u8> {
    use image::{DynamicImage, ImageFormat, RgbImage, RgbaImage};
    let img = if alpha {
        DynamicImage::ImageRgba8(RgbaImage::from_fn(w, h, |x, y| image::Rgba([(x * 16) as u8, (y * 16) as u8, 99, if (x + y) % 2 == 0 { 255 } else { 40 }])))
    } else {
        DynamicImage::ImageRgb8(RgbImage::from_fn(w, h, |x, y| image::Rgb([(x * 16) as u8, (y * 16) as u8, 77])))
    };
    let mut c = Cursor::new(Vec::new());
    img.write_to(&mut c, ImageFormat::Png).expect("png");
    c.into_inner()
}

fn blp_raw3() -> Vec<u8> {
    use image::{DynamicImage, RgbaImage};
    use wow_blp::convert::{Blp2Format, BlpTarget, FilterType, image_to_blp};
    use wow_blp::encode::encode_blp;
    let img = DynamicImage::ImageRgba8(RgbaImage::from_pixel(8, 8, image::Rgba([10, 20, 30, 255])));
    let blp = image_to_blp(img, false, BlpTarget::Blp2(Blp2Format::Raw3), FilterType::Nearest).expect("image_to_blp");
    encode_blp(&blp).expect("encode_blp")
}

/// `<1|3|5>:<w>x<h>[:mips]` — a BLP2 DXT texture of any size the encoder accepts (sizes that are
/// not multiples of 4 / powers of two are what `blp validate` has findings about)
fn blp_dxt(spec: &str) -> Result<Vec<u8>, String> {
    use image::{DynamicImage, RgbaImage};
    use wow_blp::convert::{Blp2Format, BlpTarget, DxtAlgorithm, FilterType, image_to_blp};
    use wow_blp::encode::encode_blp;
    let mut it = spec.split(':');
    let kind = it.next().unwrap_or("1");
    let (w, h) = it.next().and_then(|d| d.split_once('x')).and_then(|(w, h)| Some((w.parse::<u32>().ok()?, h.parse::<u32>().ok()?))).ok_or_else(|| format!("bad dxt spec {spec}"))?;
    let mips = it.next() == Some("mips");
    let img = DynamicImage::ImageRgba8(RgbaImage::from_fn(w, h, |x, y| image::Rgba([(x * 37) as u8, (y * 59) as u8, (x ^ y) as u8, 255])));
    let a = DxtAlgorithm::RangeFit;
    let f = match kind {
        "3" => Blp2Format::Dxt3 { has_alpha: true, compress_algorithm: a },
        "5" => Blp2Format::Dxt5 { has_alpha: true, compress_algorithm: a },
        _ => Blp2Format::Dxt1 { has_alpha: false, compress_algorithm: a },
    };
    let blp = guard("image_to_blp", || image_to_blp(img, mips, BlpTarget::Blp2(f), FilterType::Nearest)).map_err(|p| format!("image_to_blp panicked: {}", p.message))?.map_err(|e| format!("image_to_blp: {e}"))?;
    encode_blp(&blp).map_err(|e| format!("encode_blp: {e}"))
}


// ------------------------------------------------------------------------------------------
// seeded variants (part 3): same shape, different values — two ids that differ only in the seed
// give files of the same size with different content

fn lcg(seed: u32) -> impl FnMut() -> u32 {
    let mut s = (seed as u64).wrapping_mul(0x9E37_79B9_7F4A_7C15) ^ 0xD1B5_4A32_D192_ED03;
    move || {
        s = s.wrapping_mul(6364136223846793005).wrapping_add(1442695040888963407);
        (s >> 33) as u32
    }
}

fn parse_wh(s: &str) -> Result<(u32, u32), String> {
    s.split_once('x').and_then(|(w, h)| Some((w.parse::<u32>().ok()?, h.parse::<u32>().ok()?))).ok_or_else(|| format!("bad size {s}"))
}

fn m2_version(name: &str) -> wow_m2::M2Version {
    match name {
        "vanilla" => wow_m2::M2Version::Vanilla,
        "tbc" => wow_m2::M2Version::TBC,
        "cata" => wow_m2::M2Version::Cataclysm,
        "mop" => wow_m2::M2Version::MoP,
        _ => wow_m2::M2Version::WotLK,
    }
}

/// `<ver>:<n>:<seed>` — n vertices at seeded positions
fn m2_seeded(spec: &str) -> Result<Vec<u8>, String> {
    use wow_m2::M2Model;
    let p: Vec<&str> = spec.split(':').collect();
    if p.len() != 3 {
        return Err(format!("bad m2s spec {spec}"));
    }
    let n: usize = p[1].parse().map_err(|_| "bad n")?;
    let seed: u32 = p[2].parse().map_err(|_| "bad seed")?;
    let bytes = m2_bytes_n(m2_version(p[0]), n.max(3));
    let mut m = M2Model::parse(&mut Cursor::new(&bytes)).map_err(|e| format!("m2 parse: {e}"))?;
    let mut r = lcg(seed);
    for v in m.vertices.iter_mut() {
        v.position.x = (r() % 2000) as f32 / 8.0 - 100.0;
        v.position.y = (r() % 2000) as f32 / 8.0 - 100.0;
        v.position.z = (r() % 2000) as f32 / 8.0;
        v.tex_coords.x = (r() % 256) as f32 / 256.0;
        v.tex_coords.y = (r() % 256) as f32 / 256.0;
    }
    let mut c = Cursor::new(Vec::new());
    m.write(&mut c).map_err(|e| format!("m2 write: {e}"))?;
    Ok(c.into_inner())
}

/// `<new|old>:<n>:<seed>` — n indices (a multiple of 3), seeded values
fn skin_seeded(spec: &str) -> Result<Vec<u8>, String> {
    use wow_m2::skin::{OldSkin, OldSkinHeader, Skin, SkinFile, SkinHeader};
    let p: Vec<&str> = spec.split(':').collect();
    if p.len() != 3 {
        return Err(format!("bad skins spec {spec}"));
    }
    let n: usize = (p[1].parse::<usize>().map_err(|_| "bad n")?.max(3) / 3) * 3;
    let seed: u32 = p[2].parse().map_err(|_| "bad seed")?;
    let mut r = lcg(seed);
    let indices: Vec<u16> = (0..n).map(|_| (r() % 500) as u16).collect();
    let triangles: Vec<u16> = (0..n).map(|_| (r() % n as u32) as u16).collect();
    let bone_indices: Vec<u8> = (0..n * 4).map(|_| (r() % 4) as u8).collect();
    let f = if p[0] == "new" {
        let mut nh = SkinHeader::new(wow_m2::M2Version::Cataclysm);
        nh.vertex_count = n as u32;
        SkinFile::New(Skin { header: nh, indices, triangles, bone_indices, submeshes: vec![], batches: vec![] })
    } else {
        let mut h = OldSkinHeader::new();
        h.bone_count_max = 1;
        SkinFile::Old(OldSkin { header: h, indices, triangles, bone_indices, submeshes: vec![], batches: vec![] })
    };
    let mut c = Cursor::new(Vec::new());
    f.write(&mut c).map_err(|e| format!("skin write: {e}"))?;
    Ok(c.into_inner())
}

/// `<modern|legacy>:<sections>:<seed>`
fn anim_seeded(spec: &str) -> Result<Vec<u8>, String> {
    use wow_m2::anim::*;
    let p: Vec<&str> = spec.split(':').collect();
    if p.len() != 3 {
        return Err(format!("bad anims spec {spec}"));
    }
    let n: u32 = p[1].parse::<u32>().map_err(|_| "bad n")?.clamp(1, 8);
    let seed: u32 = p[2].parse().map_err(|_| "bad seed")?;
    let mut r = lcg(seed);
    let sections: Vec<AnimSection> = (0..n)
        .map(|i| {
            let start = r() % 1000;
            AnimSection { header: AnimSectionHeader { magic: *b"AFID", id: 1 + i + (r() % 50) * 10, start, end: start + 1 + r() % 1000 }, bone_animations: vec![] }
        })
        .collect();
    let f = if p[0] == "modern" {
        AnimFile {
            format: AnimFormat::Modern,
            metadata: AnimMetadata::Modern {
                header: AnimHeader { magic: ANIM_MAGIC, version: 1, id_count: n, unknown: 0, anim_entry_offset: 20 },
                entries: sections.iter().map(|s| AnimEntry { id: s.header.id, offset: 0, size: 0 }).collect(),
            },
            sections,
        }
    } else {
        AnimFile {
            format: AnimFormat::Legacy,
            metadata: AnimMetadata::Legacy { file_size: 0, animation_count: n, structure_hints: LegacyStructureHints { appears_valid: true, estimated_blocks: n, has_timestamps: false } },
            sections,
        }
    };
    let mut c = Cursor::new(Vec::new());
    f.write(&mut c).map_err(|e| format!("anim write: {e}"))?;
    Ok(c.into_inner())
}

/// `<w>x<h>:<rgb|rgba|luma|lumaa|rgb16|rgba16>:<seed>` — smooth gradient plus seeded noise
fn png_seeded(spec: &str) -> Result<Vec<u8>, String> {
    use image::{DynamicImage, ImageBuffer, ImageFormat};
    let p: Vec<&str> = spec.split(':').collect();
    if p.len() != 3 {
        return Err(format!("bad pngs spec {spec}"));
    }
    let (w, h) = parse_wh(p[0])?;
    let seed: u32 = p[2].parse().map_err(|_| "bad seed")?;
    let mut r = lcg(seed);
    let mut px = |x: u32, y: u32, k: u32| -> u8 { ((x * 255 / w.max(1)) as u8).wrapping_add((y * 7) as u8).wrapping_mul(k as u8 | 1).wrapping_add((r() % 24) as u8) };
    let img = match p[1] {
        "rgba" => DynamicImage::ImageRgba8(ImageBuffer::from_fn(w, h, |x, y| image::Rgba([px(x, y, 1), px(x, y, 3), px(x, y, 5), if (x / 2 + y / 2) % 3 == 0 { 255 } else { px(x, y, 7) }]))),
        "luma" => DynamicImage::ImageLuma8(ImageBuffer::from_fn(w, h, |x, y| image::Luma([px(x, y, 1)]))),
        "lumaa" => DynamicImage::ImageLumaA8(ImageBuffer::from_fn(w, h, |x, y| image::LumaA([px(x, y, 1), px(x, y, 3)]))),
        "rgb16" => DynamicImage::ImageRgb16(ImageBuffer::from_fn(w, h, |x, y| image::Rgb([px(x, y, 1) as u16 * 257, px(x, y, 3) as u16 * 256 + 17, px(x, y, 5) as u16 * 255]))),
        "rgba16" => DynamicImage::ImageRgba16(ImageBuffer::from_fn(w, h, |x, y| image::Rgba([px(x, y, 1) as u16 * 257, px(x, y, 3) as u16 * 256 + 17, px(x, y, 5) as u16 * 255, px(x, y, 7) as u16 * 257]))),
        _ => DynamicImage::ImageRgb8(ImageBuffer::from_fn(w, h, |x, y| image::Rgb([px(x, y, 1), px(x, y, 3), px(x, y, 5)]))),
    };
    let mut c = Cursor::new(Vec::new());
    img.write_to(&mut c, ImageFormat::Png).map_err(|e| format!("png: {e}"))?;
    Ok(c.into_inner())
}

/// `<target>:<w>x<h>:<mips|nomips>:<seed>` — a texture in any encoding the library writes (BLP1/BLP2)
fn blp_seeded(spec: &str) -> Result<Vec<u8>, String> {
    use wow_blp::convert::{AlphaBits, Blp2Format, BlpOldFormat, BlpTarget, DxtAlgorithm, FilterType, image_to_blp};
    use wow_blp::encode::encode_blp;
    let p: Vec<&str> = spec.split(':').collect();
    if p.len() != 4 {
        return Err(format!("bad blps spec {spec}"));
    }
    let png = png_seeded(&format!("{}:rgba:{}", p[1], p[3]))?;
    let img = image::load_from_memory(&png).map_err(|e| e.to_string())?;
    let a = DxtAlgorithm::RangeFit;
    let target = match p[0] {
        "blp1-jpeg" => BlpTarget::Blp1(BlpOldFormat::Jpeg { has_alpha: false }),
        "blp1-jpeg-a" => BlpTarget::Blp1(BlpOldFormat::Jpeg { has_alpha: true }),
        "blp1-raw1-a0" => BlpTarget::Blp1(BlpOldFormat::Raw1 { alpha_bits: AlphaBits::NoAlpha }),
        "blp1-raw1-a8" => BlpTarget::Blp1(BlpOldFormat::Raw1 { alpha_bits: AlphaBits::Bit8 }),
        "blp2-raw1-a1" => BlpTarget::Blp2(Blp2Format::Raw1 { alpha_bits: AlphaBits::Bit1 }),
        "blp2-raw1-a4" => BlpTarget::Blp2(Blp2Format::Raw1 { alpha_bits: AlphaBits::Bit4 }),
        "blp2-raw3" => BlpTarget::Blp2(Blp2Format::Raw3),
        "blp2-jpeg" => BlpTarget::Blp2(Blp2Format::Jpeg { has_alpha: false }),
        "blp2-dxt1" => BlpTarget::Blp2(Blp2Format::Dxt1 { has_alpha: false, compress_algorithm: a }),
        "blp2-dxt1-a" => BlpTarget::Blp2(Blp2Format::Dxt1 { has_alpha: true, compress_algorithm: a }),
        "blp2-dxt3" => BlpTarget::Blp2(Blp2Format::Dxt3 { has_alpha: true, compress_algorithm: a }),
        "blp2-dxt5" => BlpTarget::Blp2(Blp2Format::Dxt5 { has_alpha: true, compress_algorithm: a }),
        t => return Err(format!("unknown blp target {t}")),
    };
    let blp = guard("image_to_blp", || image_to_blp(img, p[2] == "mips", target, FilterType::Nearest)).map_err(|f| format!("image_to_blp panicked: {}", f.message))?.map_err(|e| format!("image_to_blp: {e}"))?;
    encode_blp(&blp).map_err(|e| format!("encode_blp: {e}"))
}

/// `<classic|tbc|wotlk|cata|mop>:<terrain|wmo>:<seed>`
fn wdt_seeded(spec: &str) -> Result<Vec<u8>, String> {
    use wow_wdt::chunks::{ModfChunk, ModfEntry, MphdFlags, MwmoChunk};
    use wow_wdt::version::WowVersion;
    use wow_wdt::{WdtFile, WdtWriter};
    let p: Vec<&str> = spec.split(':').collect();
    if p.len() != 3 {
        return Err(format!("bad wdts spec {spec}"));
    }
    let v = WowVersion::from_expansion_name(p[0]).map_err(|e| e.to_string())?;
    let seed: u32 = p[2].parse().map_err(|_| "bad seed")?;
    let mut r = lcg(seed);
    let mut w = WdtFile::new(v);
    if p[1] == "wmo" {
        w.mphd.flags |= MphdFlags::WDT_USES_GLOBAL_MAP_OBJ;
        let mut mwmo = MwmoChunk::new();
        mwmo.add_filename(format!("world/wmo/gen{}.wmo", r() % 90 + 10));
        w.mwmo = Some(mwmo);
        let mut modf = ModfChunk::new();
        modf.add_entry(ModfEntry {
            id: 0,
            unique_id: r() % 1000,
            position: [(r() % 1000) as f32, (r() % 1000) as f32, (r() % 1000) as f32],
            rotation: [0.0, (r() % 360) as f32, 0.0],
            lower_bounds: [0.0; 3],
            upper_bounds: [(r() % 50) as f32; 3],
            flags: 0,
            doodad_set: (r() % 3) as u16,
            name_set: 0,
            scale: 1024,
        });
        w.modf = Some(modf);
    } else {
        if v.has_terrain_mwmo() {
            w.mwmo = Some(MwmoChunk::new());
        }
        let n = 1 + r() % 12;
        for _ in 0..n {
            let (x, y) = ((r() % 64) as usize, (r() % 64) as usize);
            let t = w.main.get_mut(x, y).ok_or("tile")?;
            t.set_has_adt(true);
            t.area_id = r() % 5000;
        }
    }
    let mut buf = Vec::new();
    WdtWriter::new(&mut buf).write(&w).map_err(|e| format!("wdt write: {e}"))?;
    Ok(buf)
}

/// `<vanilla|wotlk|cata|mop|wod|legion|bfa>:<seed>`
fn wdl_seeded(spec: &str) -> Result<Vec<u8>, String> {
    use wow_wdl::parser::WdlParser;
    use wow_wdl::types::{HeightMapTile, HolesData, WdlFile};
    use wow_wdl::version::WdlVersion as V;
    let (vn, seed) = spec.split_once(':').ok_or("bad wdls spec")?;
    let seed: u32 = seed.parse().map_err(|_| "bad seed")?;
    let v = match vn {
        "vanilla" => V::Vanilla,
        "cata" => V::Cataclysm,
        "mop" => V::Mop,
        "wod" => V::Wod,
        "legion" => V::Legion,
        "bfa" => V::Bfa,
        _ => V::Wotlk,
    };
    let mut r = lcg(seed);
    let mut f = WdlFile::with_version(v);
    let n = 1 + r() % 6;
    for _ in 0..n {
        let key = (r() % 64, r() % 64);
        let mut t = HeightMapTile::new();
        for h in t.outer_values.iter_mut().chain(t.inner_values.iter_mut()) {
            *h = (r() % 4000) as i16 - 2000;
        }
        f.heightmap_tiles.insert(key, t);
        if v.has_maho_chunk() {
            let mut hd = HolesData::new();
            hd.hole_masks[(r() % 16) as usize] = (r() & 0xFFFF) as u16;
            f.holes_data.insert(key, hd);
        }
    }
    let mut c = Cursor::new(Vec::new());
    WdlParser::with_version(v).write(&mut c, &f).map_err(|e| format!("wdl write: {e}"))?;
    Ok(c.into_inner())
}

/// `<vanilla-early|vanilla-late|tbc|wotlk|cata|mop>:<seed>` — seeded texture / model / wmo name lists
fn adt_seeded(spec: &str) -> Result<Vec<u8>, String> {
    use wow_adt::{AdtBuilder, AdtVersion};
    let (vn, seed) = spec.split_once(':').ok_or("bad adts spec")?;
    let seed: u32 = seed.parse().map_err(|_| "bad seed")?;
    let v = match vn {
        "vanilla-early" => AdtVersion::VanillaEarly,
        "vanilla-late" => AdtVersion::VanillaLate,
        "tbc" => AdtVersion::TBC,
        "cata" => AdtVersion::Cataclysm,
        "mop" => AdtVersion::MoP,
        _ => AdtVersion::WotLK,
    };
    let mut r = lcg(seed);
    let mut b = AdtBuilder::new().with_version(v);
    for i in 0..(1 + r() % 4) {
        b = b.add_texture(format!("tileset/gen/tex{:03}_{i}.blp", r() % 1000));
    }
    for i in 0..(r() % 3) {
        b = b.add_model(format!("world/gen/model{:03}_{i}.m2", r() % 1000));
    }
    for i in 0..(r() % 2) {
        b = b.add_wmo(format!("world/wmo/gen/obj{:03}_{i}.wmo", r() % 1000));
    }
    b.build().map_err(|e| format!("adt build: {e}"))?.to_bytes().map_err(|e| format!("adt bytes: {e}"))
}

/// `<classic|tbc|wotlk|cata|mop>:<seed>` — seeded group / texture / doodad-set lists
fn wmo_seeded(spec: &str) -> Result<Vec<u8>, String> {
    use wow_wmo::types::{BoundingBox, Vec3};
    use wow_wmo::wmo_group_types::WmoGroupFlags;
    use wow_wmo::wmo_types::WmoGroupInfo;
    use wow_wmo::{WmoParser, WmoVersion, WmoWriter};
    let (vn, seed) = spec.split_once(':').ok_or("bad wmos spec")?;
    let seed: u32 = seed.parse().map_err(|_| "bad seed")?;
    let v = WmoVersion::from_expansion_name(vn).ok_or("bad wmo version")?;
    let base = wmo_root_bytes(v);
    let mut root = WmoParser::new().parse_root(&mut Cursor::new(&base)).map_err(|e| format!("wmo parse: {e}"))?;
    let mut r = lcg(seed);
    let n = 1 + r() % 4;
    root.groups.clear();
    for i in 0..n {
        let lo = Vec3 { x: (r() % 100) as f32, y: (r() % 100) as f32, z: (r() % 100) as f32 };
        let hi = Vec3 { x: lo.x + 1.0 + (r() % 50) as f32, y: lo.y + 1.0 + (r() % 50) as f32, z: lo.z + 1.0 + (r() % 50) as f32 };
        root.groups.push(WmoGroupInfo { flags: WmoGroupFlags::empty(), bounding_box: BoundingBox { min: lo, max: hi }, name: format!("g{i}") });
    }
    root.header.n_groups = n;
    root.header.ambient_color.r = (r() % 256) as u8;
    root.header.ambient_color.g = (r() % 256) as u8;
    let mut c = Cursor::new(Vec::new());
    WmoWriter::new().write_root(&mut c, &root, v).map_err(|e| format!("wmo write: {e}"))?;
    Ok(c.into_inner())
}

/// small library-built archives used as valid MPQ inputs of part 2
pub fn mpq_spec(id: &str) -> Option<ArchiveSpec> {
    let (version, listfile, compress_tables) = match id {
        "v1" => (1u8, true, false),
        "v2" => (2, true, false),
        "v3" => (3, true, false),
        "v4" => (4, true, true),
        "v1-nolist" => (1, false, false),
        _ => return None,
    };
    let f = |name: &str, class, halves, delta, seed, method, enc| FileSpec {
        name: name.to_string(),
        class,
        len: LenSpec { halves, delta },
        seed,
        method,
        enc,
        locale: 0,
    };
    Some(ArchiveSpec {
        version,
        shift: 0,
        crcs: false,
        attrs: if version >= 2 { Attrs::Crc32 } else { Attrs::None },
        listfile,
        compress_tables,
        table_method: M_ZLIB,
        files: vec![
            f("readme.txt", ContentClass::Text, 0, 120, 1, M_ZLIB, Enc::None),
            f("Data\\blob.bin", ContentClass::Random, 3, 17, 2, M_NONE, Enc::None),
            f("Data\\Sub\\table.dbc", ContentClass::LowEntropy, 5, -3, 3, M_BZIP2, if version == 2 { Enc::Key } else { Enc::None }),
            f("empty.dat", ContentClass::Constant, 0, 0, 4, M_ZLIB, Enc::None),
            f(&format!("Interface\\{}\\{}.blp", "GlueXML_".repeat(5), "LongFileName_".repeat(5)), ContentClass::Period, 1, 9, 5, M_ZLIB, Enc::None),
        ],
    })
}

pub fn build_mpq(spec: &ArchiveSpec, path: &std::path::Path) -> Result<(), String> {
    let s = spec.clone();
    let p = path.to_path_buf();
    match guard("ArchiveBuilder::build", move || s.builder().build(&p)) {
        Ok(Ok(())) => Ok(()),
        Ok(Err(e)) => Err(format!("builder error: {e}")),
        Err(f) => Err(f.message),
    }
}

fn mpq_bytes(id: &str) -> Result<Vec<u8>, String> {
    let spec = mpq_spec(id).ok_or_else(|| format!("unknown mpq base {id}"))?;
    let d = vcheck::engine::scratch("c20fx");
    let p = d.path().join("a.mpq");
    build_mpq(&spec, &p)?;
    std::fs::read(&p).map_err(|e| e.to_string())
}

fn build_uncached(id: &str) -> Result<Vec<u8>, String> {
    let (fam, rest) = id.split_once(':').unwrap_or((id, ""));
    let r: Result<Result<Vec<u8>, String>, vcheck::engine::Fail> = guard("fixture", || match fam {
        "mpq" => mpq_bytes(rest),
        "dbc" => Ok(dbc_bytes(match rest {
            "empty" => 0,
            "one" => 1,
            _ => 5,
        })),
        "dbd" => Ok(DBD_TEXT.as_bytes().to_vec()),
        "none" => Ok(Vec::new()),
        "yaml" => Ok(if rest == "dbc-wrong" { DBC_SCHEMA_WRONG_YAML } else { DBC_SCHEMA_YAML }.as_bytes().to_vec()),
        "blp" => {
            if rest == "raw3" {
                Ok(blp_raw3())
            } else if let Some(spec) = rest.strip_prefix("dxt") {
                blp_dxt(spec)
            } else {
                std::fs::read(format!("/repo/file-formats/graphics/wow-blp/test-data/{rest}")).map_err(|e| format!("{rest}: {e}"))
            }
        }
        "png" => Ok(match rest {
            "rgba8" => png_bytes(8, 8, true),
            "rgb16" => png_bytes(16, 16, false),
            _ => png_bytes(4, 4, false),
        }),
        "m2s" => m2_seeded(rest),
        "skins" => skin_seeded(rest),
        "anims" => anim_seeded(rest),
        "pngs" => png_seeded(rest),
        "blps" => blp_seeded(rest),
        "wdts" => wdt_seeded(rest),
        "wdls" => wdl_seeded(rest),
        "adts" => adt_seeded(rest),
        "wmos" => wmo_seeded(rest),
        "m2" if rest == "no-vertices" => Ok(m2_bytes_n(wow_m2::M2Version::WotLK, 0)),
        "m2" => Ok(m2_bytes(match rest {
            "vanilla" => wow_m2::M2Version::Vanilla,
            "tbc" => wow_m2::M2Version::TBC,
            "cata" => wow_m2::M2Version::Cataclysm,
            _ => wow_m2::M2Version::WotLK,
        })),
        "skin" => Ok(skin_bytes(rest == "new")),
        "anim" => Ok(anim_bytes(rest == "modern")),
        "wmo" => Ok(match rest {
            "group" => wmo_group_bytes(),
            "root-mop" => wmo_root_bytes(wow_wmo::WmoVersion::Mop),
            "root-classic" => wmo_root_bytes(wow_wmo::WmoVersion::Classic),
            _ => wmo_root_bytes(wow_wmo::WmoVersion::Wotlk),
        }),
        "adt" => Ok(adt_bytes(match rest {
            "vanilla-early" => wow_adt::AdtVersion::VanillaEarly,
            "vanilla-late" => wow_adt::AdtVersion::VanillaLate,
            _ => wow_adt::AdtVersion::WotLK,
        })),
        "wdt" => Ok(wdt_bytes(rest)),
        "wdl" => Ok(wdl_bytes(match rest {
            "vanilla" => wow_wdl::version::WdlVersion::Vanilla,
            "legion" => wow_wdl::version::WdlVersion::Legion,
            _ => wow_wdl::version::WdlVersion::Wotlk,
        })),
        _ => Err(format!("unknown base id {id}")),
    });
    match r {
        Ok(x) => x,
        Err(f) => Err(f.message),
    }
}

static CACHE: std::sync::Mutex<Option<HashMap<String, Result<std::sync::Arc<Vec<u8>>, String>>>> = std::sync::Mutex::new(None);

/// bytes of a valid base input (cached per process)
pub fn base(id: &str) -> Result<std::sync::Arc<Vec<u8>>, String> {
    {
        let g = CACHE.lock().unwrap();
        if let Some(m) = g.as_ref() {
            if let Some(v) = m.get(id) {
                return v.clone();
            }
        }
    }
    let v = build_uncached(id).map(std::sync::Arc::new);
    let mut g = CACHE.lock().unwrap();
    g.get_or_insert_with(HashMap::new).insert(id.to_string(), v.clone());
    v
}
