//! The library's own view of a file, evaluated in a supervised worker process (a damaged
//! input may make the library crash, hang or over-allocate; that must not take the check down).
//!
//! Each `Entry` mirrors the library call sequence of one CLI sub-command (read from
//! warcraft-rs/src/commands/*.rs). The answer is `{"ok":bool,"err":..,"info":{..}}`.

use serde::{Deserialize, Serialize};
use serde_json::{Value, json};
use std::fs::File;
use std::io::BufReader;
use std::path::Path;
use vcheck::engine::{fnv, guard, supervise};

#[derive(Clone, Debug, PartialEq, Eq, Serialize, Deserialize)]
pub enum Entry {
    /// Archive::open
    MpqOpen,
    /// open + get_info (info, debug)
    MpqInfo,
    /// open + list
    MpqList,
    /// open + get_info + list (tree)
    MpqTree,
    /// ParallelArchive::open + read every listed file (validate)
    MpqValidate,
    /// names the bulk extraction uses ((listfile) content, else list()) + read each
    MpqReadAll,
    /// read the given names
    MpqRead { names: Vec<String> },
    /// rebuild_archive with the CLI's default options into a scratch target
    MpqRebuild { list_only: bool },
    /// compare_archives(path, other)
    MpqCompare { other: String },
    /// PatchChain: add base + others, list
    MpqChain { others: Vec<String> },
    /// PatchChain: add base + others, read the given names through the chain (extract --patch)
    MpqChainRead { others: Vec<String>, names: Vec<String> },
    /// DbcParser::parse
    DbcParse,
    /// parse + parse_records (info, list, analyze, discover without schema)
    DbcRecords,
    /// parse + with_schema + parse_records (validate, export, list/analyze with schema)
    DbcSchema { wrong: bool },
    /// load_blp
    BlpLoad,
    /// load_blp + blp_to_image(level)
    BlpToImage { level: usize },
    /// image crate decode (outputs of blp convert, inputs of image→blp)
    ImageDecode,
    M2Load,
    /// load + model.validate()
    M2Validate,
    /// load + convert to the named version (convert)
    M2Convert { version: String },
    SkinLoad,
    SkinLoadOld,
    SkinConvert { version: String },
    AnimLoad,
    /// parse_wmo_with_metadata
    WmoMeta,
    /// discover_wmo_chunks + (root) WmoParser::parse_root + convert_root
    WmoConvert { version: String },
    /// parse_adt_with_metadata
    AdtMeta,
    /// parse_adt_with_metadata and the file must be a root ADT (convert)
    AdtRoot,
    WdtRead { version: String },
    /// read + convert_wdt
    WdtConvert { from: String, to: String },
    WdlParse { version: Option<String> },
    /// parse + validate_wdl_file
    WdlValidate { version: Option<String> },
    /// parse + convert_wdl_file
    WdlConvert { from: Option<String>, to: String },
    /// WmoParser::parse_root — the parser that mirrors WmoWriter (output of wmo convert)
    WmoRootLegacy,
    /// file exists and is UTF-8 text (may be empty: an empty table exports to an empty CSV)
    Text,
    /// file exists and is JSON
    Json,
    /// directory contains at least one non-empty *.yaml file
    YamlDir,
    /// part 3: the library's result for one command line (expected output bytes, parsed values, verdicts)
    P3(crate::part3::Ask),
}

fn wdl_version(s: &str) -> Option<wow_wdl::version::WdlVersion> {
    use wow_wdl::version::WdlVersion as V;
    // the same table as warcraft-rs/src/commands/wdl.rs parse_version (only names the templates use)
    Some(match s.to_lowercase().as_str() {
        "vanilla" | "classic" | "tbc" => V::Vanilla,
        "wotlk" => V::Wotlk,
        "cata" | "cataclysm" => V::Cataclysm,
        "mop" => V::Mop,
        "wod" => V::Wod,
        "legion" => V::Legion,
        "bfa" => V::Bfa,
        "sl" | "shadowlands" => V::Shadowlands,
        "df" | "dragonflight" => V::Dragonflight,
        "latest" => V::Latest,
        _ => return None,
    })
}

fn digest(b: &[u8]) -> Value {
    json!({"len": b.len(), "h": format!("{:016x}", fnv(b))})
}

fn read_names(a: &mut wow_mpq::Archive, names: &[String]) -> (Value, usize) {
    let mut m = serde_json::Map::new();
    let mut errs = 0;
    for n in names {
        match a.read_file(n) {
            Ok(d) => {
                m.insert(n.clone(), digest(&d));
            }
            Err(e) => {
                errs += 1;
                m.insert(n.clone(), json!({"err": e.to_string()}));
            }
        }
    }
    (Value::Object(m), errs)
}

fn eval_inner(entry: &Entry, path: &Path) -> Result<Value, String> {
    let es = |e: &dyn std::fmt::Display| e.to_string();
    match entry {
        Entry::MpqOpen => {
            wow_mpq::Archive::open(path).map_err(|e| es(&e))?;
            Ok(json!({}))
        }
        Entry::MpqInfo | Entry::MpqTree | Entry::MpqList => {
            let mut a = wow_mpq::Archive::open(path).map_err(|e| es(&e))?;
            let mut out = serde_json::Map::new();
            if !matches!(entry, Entry::MpqList) {
                let i = a.get_info().map_err(|e| es(&e))?;
                out.insert("format".into(), json!(format!("{:?}", i.format_version)));
                out.insert("file_count".into(), json!(i.file_count));
                out.insert("max_file_count".into(), json!(i.max_file_count));
                out.insert("sector_size".into(), json!(i.sector_size));
            }
            if !matches!(entry, Entry::MpqInfo) {
                let l = a.list().map_err(|e| es(&e))?;
                out.insert("names".into(), json!(l.iter().map(|e| e.name.clone()).collect::<Vec<_>>()));
            }
            Ok(Value::Object(out))
        }
        Entry::MpqValidate => {
            let pa = wow_mpq::single_archive_parallel::ParallelArchive::open(path).map_err(|e| es(&e))?;
            let names: Vec<String> = pa.list_files().to_vec();
            let mut a = wow_mpq::Archive::open(path).map_err(|e| es(&e))?;
            let (files, errs) = read_names(&mut a, &names);
            Ok(json!({"files": files, "read_errors": errs, "names": names}))
        }
        Entry::MpqReadAll => {
            let mut a = wow_mpq::Archive::open(path).map_err(|e| es(&e))?;
            // warcraft-rs extract_files_with_options: (listfile) content first, list() as fallback
            let names: Vec<String> = match a.read_file("(listfile)") {
                Ok(d) => match wow_mpq::special_files::parse_listfile(&d) {
                    Ok(n) => n,
                    Err(_) => a.list().map_err(|e| es(&e))?.into_iter().map(|e| e.name).collect(),
                },
                Err(_) => a.list().map_err(|e| es(&e))?.into_iter().map(|e| e.name).collect(),
            };
            let (files, errs) = read_names(&mut a, &names);
            Ok(json!({"files": files, "read_errors": errs, "names": names}))
        }
        Entry::MpqRead { names } => {
            // the tool opens through ParallelArchive::open (open + list) before reading
            wow_mpq::single_archive_parallel::ParallelArchive::open(path).map_err(|e| es(&e))?;
            let mut a = wow_mpq::Archive::open(path).map_err(|e| es(&e))?;
            let (files, errs) = read_names(&mut a, names);
            Ok(json!({"files": files, "read_errors": errs, "names": names}))
        }
        Entry::MpqRebuild { list_only } => {
            let d = vcheck::engine::scratch("c20rb");
            let target = d.path().join("t.mpq");
            let opts = wow_mpq::RebuildOptions { list_only: *list_only, ..Default::default() };
            let s = wow_mpq::rebuild_archive(path, target.as_path(), opts, None).map_err(|e| es(&e))?;
            Ok(json!({"source_files": s.source_files, "extracted_files": s.extracted_files}))
        }
        Entry::MpqCompare { other } => {
            let r = wow_mpq::compare_archives(path, Path::new(other), false, false, false, false, None).map_err(|e| es(&e))?;
            Ok(json!({"identical": r.identical}))
        }
        Entry::MpqChain { others } => {
            let mut c = wow_mpq::PatchChain::new();
            c.add_archive(path, 0).map_err(|e| es(&e))?;
            for (i, o) in others.iter().enumerate() {
                c.add_archive(Path::new(o), ((i + 1) * 100) as i32).map_err(|e| es(&e))?;
            }
            let n = c.list().map_err(|e| es(&e))?.len();
            Ok(json!({"unique": n}))
        }
        Entry::MpqChainRead { others, names } => {
            let mut c = wow_mpq::PatchChain::new();
            c.add_archive(path, 0).map_err(|e| es(&e))?;
            for (i, o) in others.iter().enumerate() {
                c.add_archive(Path::new(o), ((i + 1) * 100) as i32).map_err(|e| es(&e))?;
            }
            let mut m = serde_json::Map::new();
            let mut errs = 0;
            for n in names {
                match c.read_file(n) {
                    Ok(d) => {
                        m.insert(n.clone(), digest(&d));
                    }
                    Err(e) => {
                        errs += 1;
                        m.insert(n.clone(), json!({"err": e.to_string()}));
                    }
                }
            }
            Ok(json!({"files": Value::Object(m), "read_errors": errs, "names": names}))
        }
        Entry::DbcParse | Entry::DbcRecords | Entry::DbcSchema { .. } => {
            let f = File::open(path).map_err(|e| es(&e))?;
            let mut r = BufReader::new(f);
            let p = wow_cdbc::DbcParser::parse(&mut r).map_err(|e| es(&e))?;
            match entry {
                Entry::DbcParse => Ok(json!({})),
                Entry::DbcRecords => {
                    let rs = p.parse_records().map_err(|e| es(&e))?;
                    Ok(json!({"records": rs.len()}))
                }
                Entry::DbcSchema { wrong } => {
                    let s = if *wrong { crate::fixtures::dbc_schema_wrong() } else { crate::fixtures::dbc_schema() };
                    let p = p.with_schema(s).map_err(|e| es(&e))?;
                    let rs = p.parse_records().map_err(|e| es(&e))?;
                    Ok(json!({"records": rs.len()}))
                }
                _ => unreachable!(),
            }
        }
        Entry::BlpLoad => {
            let b = wow_blp::parser::load_blp(path).map_err(|e| es(&e))?;
            Ok(json!({"w": b.header.width, "h": b.header.height, "images": b.image_count()}))
        }
        Entry::BlpToImage { level } => {
            let b = wow_blp::parser::load_blp(path).map_err(|e| es(&e))?;
            let i = wow_blp::convert::blp_to_image(&b, *level).map_err(|e| es(&e))?;
            Ok(json!({"w": i.width(), "h": i.height()}))
        }
        Entry::ImageDecode => {
            let i = image::ImageReader::open(path)
                .map_err(|e| es(&e))?
                .with_guessed_format()
                .map_err(|e| es(&e))?
                .decode()
                .map_err(|e| es(&e))?;
            Ok(json!({"w": i.width(), "h": i.height()}))
        }
        Entry::M2Load | Entry::M2Validate | Entry::M2Convert { .. } => {
            let f = wow_m2::M2Model::load(path).map_err(|e| es(&e))?;
            let m = f.model();
            match entry {
                Entry::M2Validate => {
                    m.validate().map_err(|e| format!("validate: {e}"))?;
                }
                Entry::M2Convert { version } => {
                    let tv = wow_m2::M2Version::from_expansion_name(version).map_err(|e| es(&e))?;
                    wow_m2::M2Converter::new().convert(m, tv).map_err(|e| es(&e))?;
                }
                _ => {}
            }
            Ok(json!({"version": m.header.version, "vertices": m.header.vertices.count}))
        }
        Entry::SkinLoad => {
            let s = wow_m2::SkinFile::load(path).map_err(|e| es(&e))?;
            Ok(json!({"indices": s.indices().len(), "new": s.is_new_format()}))
        }
        Entry::SkinConvert { version } => {
            let s = wow_m2::SkinFile::load(path).map_err(|e| es(&e))?;
            let tv = wow_m2::M2Version::from_expansion_name(version).map_err(|e| es(&e))?;
            s.convert(tv).map_err(|e| es(&e))?;
            Ok(json!({}))
        }
        Entry::SkinLoadOld => {
            let s = wow_m2::skin::SkinG::<wow_m2::skin::OldSkinHeader>::load(path).map_err(|e| es(&e))?;
            Ok(json!({"indices": s.indices.len()}))
        }
        Entry::AnimLoad => {
            let a = wow_m2::AnimFile::load(path).map_err(|e| es(&e))?;
            Ok(json!({"sections": a.sections.len()}))
        }
        Entry::WmoMeta => {
            let f = File::open(path).map_err(|e| es(&e))?;
            let mut r = BufReader::new(f);
            let p = wow_wmo::parse_wmo_with_metadata(&mut r).map_err(|e| es(&e))?;
            Ok(json!({"root": matches!(p.wmo, wow_wmo::ParsedWmo::Root(_))}))
        }
        Entry::WmoConvert { version } => {
            let tv = wow_wmo::WmoVersion::from_expansion_name(version).ok_or("bad version")?;
            let f = File::open(path).map_err(|e| es(&e))?;
            let mut r = BufReader::new(f);
            let d = wow_wmo::discover_wmo_chunks(&mut r).map_err(|e| es(&e))?;
            if !d.chunks.iter().any(|c| c.id.as_str() == "MOHD") {
                return Err("not a root file (no MOHD): the tool refuses group files".into());
            }
            let f = File::open(path).map_err(|e| es(&e))?;
            let mut r = BufReader::new(f);
            let mut root = wow_wmo::WmoParser::new().parse_root(&mut r).map_err(|e| es(&e))?;
            wow_wmo::WmoConverter::new().convert_root(&mut root, tv).map_err(|e| es(&e))?;
            Ok(json!({"groups": root.groups.len()}))
        }
        Entry::WmoRootLegacy => {
            let f = File::open(path).map_err(|e| es(&e))?;
            let mut r = BufReader::new(f);
            let root = wow_wmo::WmoParser::new().parse_root(&mut r).map_err(|e| es(&e))?;
            // informational: does the chunk-based parser that `wmo info` uses read it too?
            let f = File::open(path).map_err(|e| es(&e))?;
            let mut r = BufReader::new(f);
            let meta_ok = wow_wmo::parse_wmo_with_metadata(&mut r).is_ok();
            Ok(json!({"groups": root.groups.len(), "new_parser_ok": meta_ok}))
        }
        Entry::AdtMeta | Entry::AdtRoot => {
            let f = File::open(path).map_err(|e| es(&e))?;
            let mut r = BufReader::new(f);
            let (adt, meta) = wow_adt::parse_adt_with_metadata(&mut r).map_err(|e| es(&e))?;
            let is_root = matches!(adt, wow_adt::ParsedAdt::Root(_));
            if matches!(entry, Entry::AdtRoot) && !is_root {
                return Err("not a root ADT: the tool refuses split files".into());
            }
            Ok(json!({"root": is_root, "chunks": meta.chunk_count}))
        }
        Entry::WdtRead { version } | Entry::WdtConvert { from: version, .. } => {
            let v = wow_wdt::version::WowVersion::from_expansion_name(version).map_err(|e| es(&e))?;
            let f = File::open(path).map_err(|e| es(&e))?;
            let mut rd = wow_wdt::WdtReader::new(BufReader::new(f), v);
            let mut w = rd.read().map_err(|e| es(&e))?;
            let warnings = w.validate();
            if let Entry::WdtConvert { to, .. } = entry {
                let tv = wow_wdt::version::WowVersion::from_expansion_name(to).map_err(|e| es(&e))?;
                let summary = wow_wdt::conversion::get_conversion_summary(v, tv, w.is_wmo_only());
                let needed = !(summary.is_empty() || (summary.len() == 1 && summary[0].contains("No conversion needed")));
                wow_wdt::conversion::convert_wdt(&mut w, v, tv).map_err(|e| es(&e))?;
                return Ok(json!({"conversion_needed": needed}));
            }
            Ok(json!({"tiles": w.count_existing_tiles(), "warnings": warnings}))
        }
        Entry::WdlParse { version } | Entry::WdlValidate { version } | Entry::WdlConvert { from: version, .. } => {
            let parser = match version {
                Some(s) => wow_wdl::parser::WdlParser::with_version(wdl_version(s).ok_or("bad version")?),
                None => wow_wdl::parser::WdlParser::new(),
            };
            let f = File::open(path).map_err(|e| es(&e))?;
            let mut r = BufReader::new(f);
            let w = parser.parse(&mut r).map_err(|e| es(&e))?;
            match entry {
                Entry::WdlValidate { .. } => {
                    wow_wdl::validation::validate_wdl_file(&w).map_err(|e| format!("validate: {e}"))?;
                }
                Entry::WdlConvert { to, .. } => {
                    let tv = wdl_version(to).ok_or("bad version")?;
                    wow_wdl::conversion::convert_wdl_file(&w, tv).map_err(|e| es(&e))?;
                }
                _ => {}
            }
            Ok(json!({"chunks": w.chunks.len()}))
        }
        Entry::Text => {
            let d = std::fs::read(path).map_err(|e| es(&e))?;
            std::str::from_utf8(&d).map_err(|e| es(&e))?;
            Ok(json!({"len": d.len()}))
        }
        Entry::Json => {
            let d = std::fs::read(path).map_err(|e| es(&e))?;
            let v: Value = serde_json::from_slice(&d).map_err(|e| es(&e))?;
            Ok(json!({"array_len": v.as_array().map(|a| a.len())}))
        }
        Entry::P3(a) => crate::part3::eval_ask(a, path),
        Entry::YamlDir => {
            let mut n = 0;
            for e in std::fs::read_dir(path).map_err(|e| es(&e))? {
                let e = e.map_err(|e| es(&e))?;
                let p = e.path();
                if p.extension().and_then(|x| x.to_str()) == Some("yaml") && std::fs::metadata(&p).map(|m| m.len() > 0).unwrap_or(false) {
                    n += 1;
                }
            }
            if n == 0 {
                return Err("no non-empty .yaml file in the output directory".into());
            }
            Ok(json!({"yaml_files": n}))
        }
    }
}

/// worker side
pub fn worker_main() -> ! {
    supervise::worker_loop(|v| {
        let entry: Entry = match serde_json::from_value(v["entry"].clone()) {
            Ok(e) => e,
            Err(e) => return json!({"ok": false, "err": format!("bad entry: {e}"), "bad_request": true}),
        };
        let path = v["path"].as_str().unwrap_or("").to_string();
        match guard("library", || eval_inner(&entry, Path::new(&path))) {
            Ok(Ok(info)) => json!({"ok": true, "info": info}),
            Ok(Err(e)) => json!({"ok": false, "err": e}),
            Err(f) => json!({"ok": false, "err": f.message, "panic": f.signature}),
        }
    })
}

#[derive(Clone, Debug)]
pub enum Verdict {
    Ok(Value),
    /// the library returned an error (or panicked) on this input
    Rejects(String),
    /// the library process died (abort, OOM, CPU limit, deadlock) on this input
    Crashed(String),
}

impl Verdict {
    pub fn describe(&self) -> String {
        match self {
            Verdict::Ok(v) => format!("Ok {}", vcheck::engine::truncate(&v.to_string(), 160)),
            Verdict::Rejects(e) => format!("Err({})", vcheck::engine::truncate(e, 200)),
            Verdict::Crashed(h) => format!("library process died: {h}"),
        }
    }
}

pub static ORACLE_CALLS: std::sync::atomic::AtomicU64 = std::sync::atomic::AtomicU64::new(0);

/// client side: ask a fresh supervised worker
pub fn ask(entry: &Entry, path: &Path) -> Verdict {
    ORACLE_CALLS.fetch_add(1, std::sync::atomic::Ordering::Relaxed);
    let spec = supervise::Spec { cpu_secs: 60, wall_grace_secs: 90, rlimit_as: 8 << 30, ..supervise::Spec::new("oracle") };
    let req = json!({"entry": entry, "path": path.to_string_lossy()});
    let out = supervise::run_cases(&spec, &[req], 1);
    match &out[0] {
        supervise::Outcome::Done(v) => {
            if v["bad_request"].as_bool() == Some(true) {
                panic!("oracle protocol error: {v}");
            }
            if v["ok"].as_bool() == Some(true) {
                Verdict::Ok(v["info"].clone())
            } else {
                Verdict::Rejects(v["err"].as_str().unwrap_or("?").to_string())
            }
        }
        supervise::Outcome::Died { how, stderr_tail } => Verdict::Crashed(format!("{how}: {}", vcheck::engine::truncate(stderr_tail, 200))),
        supervise::Outcome::Deadlock { .. } => Verdict::Crashed("deadlock".into()),
    }
}
