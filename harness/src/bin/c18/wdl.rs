//! WDL: abstract low-resolution map → `WdlFile` → bytes → independent walker (exact tiling,
//! every MAOF offset resolved to the MARE chunk of the right tile) → `WdlParser::parse`
//! (explicit version and auto-detecting parser) → second write; `convert_wdl_file` pairs.
use crate::walk::{self, ChunkRef, Le, first_diff, u32_at};
use crate::wdt::{Fill, h};
use proptest::prelude::*;
use serde::{Deserialize, Serialize};
use std::collections::BTreeMap;
use std::io::Cursor;
use vcheck::engine::{CaseResult, Fail, guard};
use vcheck::vfail;
use wow_wdl::conversion::convert_wdl_file;
use wow_wdl::parser::WdlParser;
use wow_wdl::types::{BoundingBox, HeightMapTile, HolesData, M2Placement, M2VisibilityInfo, ModelPlacement, Vec3d, WdlFile};
use wow_wdl::version::WdlVersion;

pub const VERSIONS: [WdlVersion; 10] = [
    WdlVersion::Vanilla,
    WdlVersion::Wotlk,
    WdlVersion::Cataclysm,
    WdlVersion::Mop,
    WdlVersion::Wod,
    WdlVersion::Legion,
    WdlVersion::Bfa,
    WdlVersion::Shadowlands,
    WdlVersion::Dragonflight,
    WdlVersion::Latest,
];
pub const VNAMES: [&str; 10] = ["vanilla", "wotlk", "cata", "mop", "wod", "legion", "bfa", "sl", "df", "latest"];

// Independent statement of which content each version carries (crate docs, version.rs
// comments: MAHO added in WotLK; MWMO/MWID/MODF WotLK..WoD; ML* chunks from Legion).
pub fn v_has_holes(v: u8) -> bool {
    v >= 1
}
pub fn v_has_wmo(v: u8) -> bool {
    (1..=4).contains(&v)
}
pub fn v_has_ml(v: u8) -> bool {
    v >= 5
}

#[derive(Clone, Debug, Serialize, Deserialize)]
pub struct TileM {
    pub x: u8,
    pub y: u8,
    /// 0 all zero, 1 hashed, 2 extremes (i16::MIN / i16::MAX / -1 / 1), 3 ramp by index
    pub hkind: u8,
    pub hseed: u32,
    pub holes: Option<[u16; 16]>,
}

#[derive(Clone, Debug, Serialize, Deserialize)]
pub struct PlaceM {
    pub id: u32,
    pub wmo_id: u32,
    /// bit patterns: position, rotation, bounds.min, bounds.max
    pub f: [u32; 12],
    pub flags: u16,
    pub doodad_set: u16,
    pub name_set: u16,
    pub padding: u16,
}

#[derive(Clone, Debug, Serialize, Deserialize)]
pub struct M2M {
    pub id: u32,
    pub m2_id: u32,
    /// bit patterns: position, rotation, scale
    pub f: [u32; 7],
    pub flags: u32,
}

#[derive(Clone, Debug, Serialize, Deserialize)]
pub struct VisM {
    /// bit patterns: bounds.min, bounds.max, radius
    pub f: [u32; 7],
}

#[derive(Clone, Debug, Serialize, Deserialize)]
pub struct WdlModel {
    pub version: u8,
    pub fill: Fill,
    /// percentage of filled tiles that carry holes (ignored for Vanilla)
    pub fill_holes: u8,
    pub tiles: Vec<TileM>,
    pub names: Vec<String>,
    pub indices: Vec<u32>,
    pub placements: Vec<PlaceM>,
    pub m2: Vec<M2M>,
    pub m2vis: Vec<VisM>,
    pub wmo2: Vec<M2M>,
    pub wmo2vis: Vec<VisM>,
}

pub type Tiles = BTreeMap<(u32, u32), (Vec<i16>, Option<[u16; 16]>)>;

pub fn heights(kind: u8, seed: u32, x: u32, y: u32) -> Vec<i16> {
    (0..545u32)
        .map(|i| match kind {
            0 => 0,
            2 => [i16::MIN, i16::MAX, -1, 1][(h(seed, x, y, i) & 3) as usize],
            3 => (x as i32 * 64 + y as i32 * 4096 / 64 + i as i32 - 300) as i16,
            _ => h(seed, x, y, i) as i16,
        })
        .collect()
}

impl WdlModel {
    /// Restrict a raw generated value to what its version can carry (construction, not rejection)
    pub fn normalise(mut self) -> Self {
        let v = self.version;
        if !v_has_holes(v) {
            self.fill_holes = 0;
            for t in &mut self.tiles {
                t.holes = None;
            }
        }
        if !v_has_wmo(v) || self.names.is_empty() {
            // MWID / MODF only exist next to a name table
            self.names.clear();
            self.indices.clear();
            self.placements.clear();
        }
        if !v_has_ml(v) {
            self.m2.clear();
            self.m2vis.clear();
            self.wmo2.clear();
            self.wmo2vis.clear();
        }
        self
    }

    pub fn expand(&self) -> Tiles {
        let mut t = Tiles::new();
        for y in 0..64u32 {
            for x in 0..64u32 {
                if self.fill.hits(x, y, 0) {
                    let holes = ((h(self.fill.seed, x, y, 900) % 100) < self.fill_holes as u32).then(|| {
                        let mut m = [0u16; 16];
                        for (i, v) in m.iter_mut().enumerate() {
                            *v = h(self.fill.seed, x, y, 901 + i as u32) as u16;
                        }
                        m
                    });
                    t.insert((x, y), (heights(1, self.fill.seed, x, y), holes));
                }
            }
        }
        for e in &self.tiles {
            let (x, y) = ((e.x & 63) as u32, (e.y & 63) as u32);
            t.insert((x, y), (heights(e.hkind, e.hseed, x, y), e.holes));
        }
        t
    }

    pub fn build(&self, tiles: &Tiles) -> WdlFile {
        let mut f = WdlFile::with_version(VERSIONS[self.version as usize]);
        for (&k, (hs, holes)) in tiles {
            f.heightmap_tiles.insert(k, HeightMapTile { outer_values: hs[..289].to_vec(), inner_values: hs[289..].to_vec() });
            if let Some(m) = holes {
                f.holes_data.insert(k, HolesData { hole_masks: *m });
            }
        }
        f.wmo_filenames = self.names.clone();
        f.wmo_indices = self.indices.clone();
        f.wmo_placements = self.placements.iter().map(place_to_lib).collect();
        f.m2_placements = self.m2.iter().map(m2_to_lib).collect();
        f.m2_visibility = self.m2vis.iter().map(vis_to_lib).collect();
        f.wmo_legion_placements = self.wmo2.iter().map(m2_to_lib).collect();
        f.wmo_legion_visibility = self.wmo2vis.iter().map(vis_to_lib).collect();
        f
    }

    pub fn class(&self, tiles: &Tiles) -> (String, bool) {
        let n = tiles.len();
        let gc = match n {
            0 => "empty".to_string(),
            1 => {
                let (&(x, y), _) = tiles.iter().next().unwrap();
                let ex = x == 0 || x == 63;
                let ey = y == 0 || y == 63;
                if ex && ey {
                    format!("corner{}{}", (x == 63) as u8, (y == 63) as u8)
                } else if ex || ey {
                    "edge".to_string()
                } else {
                    "single".to_string()
                }
            }
            2..=64 => "sparse".to_string(),
            4096 => "dense".to_string(),
            _ => "partial".to_string(),
        };
        let asym = tiles.keys().any(|&(x, y)| x != y);
        let nholes = tiles.values().filter(|t| t.1.is_some()).count();
        let hc = if nholes == 0 {
            "0"
        } else if nholes == n {
            "all"
        } else {
            "some"
        };
        let cnt = |n: usize| match n {
            0 => "0",
            1 => "1",
            _ => "n",
        };
        let optional = nholes > 0 || !self.names.is_empty() || !self.m2.is_empty() || !self.m2vis.is_empty() || !self.wmo2.is_empty() || !self.wmo2vis.is_empty();
        (
            format!(
                "wdl:{}:tiles-{}:asym{}:holes-{}:wmo{}{}{}:ml{}{}{}{}",
                VNAMES[self.version as usize],
                gc,
                asym as u8,
                hc,
                cnt(self.names.len()),
                cnt(self.indices.len()),
                cnt(self.placements.len()),
                cnt(self.m2.len()),
                cnt(self.m2vis.len()),
                cnt(self.wmo2.len()),
                cnt(self.wmo2vis.len())
            ),
            asym || optional,
        )
    }
}

fn v3(b: &[u32]) -> Vec3d {
    Vec3d::new(f32::from_bits(b[0]), f32::from_bits(b[1]), f32::from_bits(b[2]))
}
fn place_to_lib(p: &PlaceM) -> ModelPlacement {
    ModelPlacement {
        id: p.id,
        wmo_id: p.wmo_id,
        position: v3(&p.f[0..3]),
        rotation: v3(&p.f[3..6]),
        bounds: BoundingBox::new(v3(&p.f[6..9]), v3(&p.f[9..12])),
        flags: p.flags,
        doodad_set: p.doodad_set,
        name_set: p.name_set,
        padding: p.padding,
    }
}
fn m2_to_lib(p: &M2M) -> M2Placement {
    M2Placement { id: p.id, m2_id: p.m2_id, position: v3(&p.f[0..3]), rotation: v3(&p.f[3..6]), scale: f32::from_bits(p.f[6]), flags: p.flags }
}
fn vis_to_lib(p: &VisM) -> M2VisibilityInfo {
    M2VisibilityInfo { bounds: BoundingBox::new(v3(&p.f[0..3]), v3(&p.f[3..6])), radius: f32::from_bits(p.f[6]) }
}
fn b3(v: &Vec3d) -> [u32; 3] {
    [v.x.to_bits(), v.y.to_bits(), v.z.to_bits()]
}
pub fn place_bits(p: &ModelPlacement) -> (u32, u32, Vec<u32>, [u16; 4]) {
    let f: Vec<u32> = [b3(&p.position), b3(&p.rotation), b3(&p.bounds.min), b3(&p.bounds.max)].concat();
    (p.id, p.wmo_id, f, [p.flags, p.doodad_set, p.name_set, p.padding])
}
pub fn m2_bits(p: &M2Placement) -> (u32, u32, Vec<u32>, u32) {
    let mut f: Vec<u32> = [b3(&p.position), b3(&p.rotation)].concat();
    f.push(p.scale.to_bits());
    (p.id, p.m2_id, f, p.flags)
}
pub fn vis_bits(p: &M2VisibilityInfo) -> Vec<u32> {
    let mut f: Vec<u32> = [b3(&p.bounds.min), b3(&p.bounds.max)].concat();
    f.push(p.radius.to_bits());
    f
}

pub fn write_wdl(f: &WdlFile, v: u8, what: &str) -> Result<Vec<u8>, Fail> {
    let mut cur = Cursor::new(Vec::new());
    let r = guard("WdlParser::write", || WdlParser::with_version(VERSIONS[v as usize]).write(&mut cur, f))?;
    if let Err(e) = r {
        vfail!(format!("wdl-write-error:{what}"), "WdlParser::write ({what}) failed: {e}");
    }
    let fresh = cur.into_inner();
    // the same file written over the start of a sink that already holds a longer one
    let mut cur = Cursor::new(vec![0xEEu8; fresh.len() + 1500]);
    let r = guard("WdlParser::write(reused sink)", || WdlParser::with_version(VERSIONS[v as usize]).write(&mut cur, f))?;
    let pos = cur.position() as usize;
    let buf = cur.into_inner();
    if r.is_err() || pos != fresh.len() || buf[..pos.min(buf.len())] != fresh[..] {
        vfail!(
            "wdl-write-depends-on-what-the-sink-held",
            "WdlParser::write ({what}) into a sink holding {} older bytes leaves the stream at {pos} / differs from the {}-byte file written into an empty sink",
            fresh.len() + 1500,
            fresh.len()
        );
    }
    Ok(fresh)
}

pub fn parse_wdl(bytes: &[u8], parser: &WdlParser, what: &str) -> Result<WdlFile, Fail> {
    let r = guard("WdlParser::parse", || parser.parse(&mut Cursor::new(bytes)))?;
    match r {
        Ok(f) => Ok(f),
        Err(e) => Err(Fail::new(format!("wdl-parse-error:{what}"), format!("WdlParser::parse ({what}) failed: {e}"))),
    }
}

fn heights_bytes(hs: &[i16]) -> Vec<u8> {
    let mut o = Le::default();
    for &v in hs {
        o.i16(v);
    }
    o.0
}

/// Independent structural judge. Returns the 4096 MAOF words.
/// `strict_model` = false (converted files): only tiling, MAOF resolution and tile payloads.
pub fn judge_bytes(v: u8, tiles: &Tiles, holes_expected: bool, model: Option<&WdlModel>, bytes: &[u8], p: &str) -> Result<Vec<u32>, Fail> {
    let chunks = match walk::walk(bytes) {
        Ok(c) => c,
        Err(e) => vfail!(format!("{p}-chunks-do-not-tile"), "independent walker: {e}"),
    };
    match chunks.first() {
        Some(c) if &c.magic == b"REVM" && c.size == 4 && u32_at(c.payload(bytes), 0) == 18 => {}
        other => vfail!(format!("{p}-MVER-not-first-or-wrong"), "first chunk {:?}", other.map(|c| (c.name(), c.size))),
    }
    let known: [&[u8; 4]; 11] = [b"REVM", b"OMWM", b"DIWM", b"FDOM", b"DDLM", b"XDLM", b"DMLM", b"XMLM", b"FOAM", b"ERAM", b"OHAM"];
    let mut single: [Option<&ChunkRef>; 9] = [None; 9];
    for c in &chunks {
        match known.iter().position(|k| **k == c.magic) {
            None => vfail!(format!("{p}-unexpected-chunk"), "writer emitted chunk {} at offset {}", c.name(), c.off),
            Some(i) if i < 9 => {
                if single[i].is_some() {
                    vfail!(format!("{p}-duplicate-chunk:{}", c.name()), "chunk {} written twice", c.name());
                }
                single[i] = Some(c);
            }
            Some(_) => {}
        }
    }
    if let Some(m) = model {
        // optional chunk presence and payloads against the model
        let wmo = v_has_wmo(v) && !m.names.is_empty();
        let mut mwmo = vec![];
        for n in &m.names {
            mwmo.extend_from_slice(n.as_bytes());
            mwmo.push(0);
        }
        let mut mwid = Le::default();
        for &i in &m.indices {
            mwid.u32(i);
        }
        let mut modf = Le::default();
        for e in &m.placements {
            // SMMapObjDef: nameId, uniqueId, pos, rot, extents, flags, doodadSet, nameSet, pad
            modf.u32(e.wmo_id).u32(e.id);
            for b in e.f {
                modf.fbits(b);
            }
            modf.u16(e.flags).u16(e.doodad_set).u16(e.name_set).u16(e.padding);
        }
        let exp: [(usize, bool, Option<Vec<u8>>, usize); 7] = [
            (1, wmo, Some(mwmo), 0),
            (2, wmo, Some(mwid.0), 0),
            (3, wmo, Some(modf.0), 0),
            (4, v_has_ml(v) && !m.m2.is_empty(), None, m.m2.len() * 40),
            (5, v_has_ml(v) && !m.m2vis.is_empty(), None, m.m2vis.len() * 28),
            (6, v_has_ml(v) && !m.wmo2.is_empty(), None, m.wmo2.len() * 40),
            (7, v_has_ml(v) && !m.wmo2vis.is_empty(), None, m.wmo2vis.len() * 28),
        ];
        for (i, want, payload, size) in exp {
            let name: String = known[i].iter().rev().map(|&b| b as char).collect();
            match (want, single[i]) {
                (false, None) => {}
                (false, Some(_)) => vfail!(format!("{p}-unexpected-chunk:{name}"), "chunk {name} written although the model has no such content"),
                (true, None) => vfail!(format!("{p}-chunk-missing:{name}"), "chunk {name} expected for {} but not written", VNAMES[v as usize]),
                (true, Some(c)) => match payload {
                    Some(w) => {
                        if c.payload(bytes) != w {
                            vfail!(format!("{p}-{name}-payload"), "{name} payload differs from the reference encoding: {}", first_diff(c.payload(bytes), &w));
                        }
                    }
                    None => {
                        if c.size != size {
                            vfail!(format!("{p}-chunk-size:{name}"), "{name} has {} payload bytes, expected {size}", c.size);
                        }
                    }
                },
            }
        }
    }
    let maof = match single[8] {
        Some(c) if c.size == 4096 * 4 => c,
        Some(c) => vfail!(format!("{p}-chunk-size:MAOF"), "MAOF has {} payload bytes", c.size),
        None => vfail!(format!("{p}-chunk-missing:MAOF"), "no MAOF chunk"),
    };
    let words: Vec<u32> = (0..4096).map(|i| u32_at(maof.payload(bytes), i * 4)).collect();
    let by_off: BTreeMap<usize, usize> = chunks.iter().enumerate().map(|(i, c)| (c.off, i)).collect();
    let mut referenced = vec![false; chunks.len()];
    for y in 0..64u32 {
        for x in 0..64u32 {
            let off = words[(y * 64 + x) as usize] as usize;
            match tiles.get(&(x, y)) {
                None => {
                    if off != 0 {
                        let t = tiles.contains_key(&(y, x));
                        vfail!(format!("{p}-maof-offset-for-absent-tile{}", if t { ":transposed" } else { "" }), "MAOF[{}] (tile {x},{y}) = {off} but the map has no such tile", y * 64 + x);
                    }
                }
                Some((hs, holes)) => {
                    if off == 0 {
                        vfail!(format!("{p}-maof-offset-missing"), "MAOF[{}] (tile {x},{y}) = 0 but the tile has heights", y * 64 + x);
                    }
                    let Some(&ci) = by_off.get(&off) else {
                        let near = by_off.range(..off).next_back().map(|(o, _)| off - o);
                        vfail!(format!("{p}-maof-offset-not-on-chunk-header"), "MAOF[{}] (tile {x},{y}) = {off}: no chunk starts there (nearest chunk header {near:?} bytes before)", y * 64 + x);
                    };
                    let c = &chunks[ci];
                    if &c.magic != b"ERAM" {
                        vfail!(format!("{p}-maof-offset-not-MARE"), "MAOF[{}] (tile {x},{y}) = {off} points at chunk {}", y * 64 + x, c.name());
                    }
                    if c.size != 545 * 2 {
                        vfail!(format!("{p}-chunk-size:MARE"), "MARE of tile ({x},{y}) has {} bytes", c.size);
                    }
                    if referenced[ci] {
                        vfail!(format!("{p}-maof-offset-shared"), "MARE at {off} referenced by two tiles");
                    }
                    referenced[ci] = true;
                    if c.payload(bytes) != heights_bytes(hs) {
                        let t = tiles.get(&(y, x)).map(|o| c.payload(bytes) == heights_bytes(&o.0)).unwrap_or(false);
                        let other = tiles.iter().find(|(_, o)| c.payload(bytes) == heights_bytes(&o.0)).map(|(k, _)| *k);
                        vfail!(
                            format!("{p}-maof-offset-wrong-tile{}", if t && x != y { ":transposed" } else if other.is_some() { ":other-tile" } else { ":no-tile" }),
                            "MAOF[{}] (tile {x},{y}) resolves to a MARE chunk holding the heights of {:?}",
                            y * 64 + x,
                            other
                        );
                    }
                    let next = chunks.get(ci + 1);
                    let next_is_maho = next.map(|n| &n.magic == b"OHAM").unwrap_or(false);
                    match (holes.filter(|_| holes_expected), next_is_maho) {
                        (None, false) => {}
                        (None, true) => vfail!(format!("{p}-unexpected-chunk:MAHO"), "tile ({x},{y}) has no holes but a MAHO chunk follows its MARE"),
                        (Some(_), false) => vfail!(format!("{p}-chunk-missing:MAHO"), "tile ({x},{y}) has holes but no MAHO chunk follows its MARE"),
                        (Some(m), true) => {
                            let n = next.unwrap();
                            let mut w = Le::default();
                            for v in m {
                                w.u16(v);
                            }
                            if n.payload(bytes) != w.0 {
                                vfail!(format!("{p}-MAHO-payload"), "MAHO of tile ({x},{y}) differs: {}", first_diff(n.payload(bytes), &w.0));
                            }
                            referenced[ci + 1] = true;
                        }
                    }
                }
            }
        }
    }
    for (i, c) in chunks.iter().enumerate() {
        if (&c.magic == b"ERAM" || &c.magic == b"OHAM") && !referenced[i] {
            vfail!(format!("{p}-orphan-chunk:{}", c.name()), "chunk {} at offset {} is not reachable from MAOF", c.name(), c.off);
        }
    }
    Ok(words)
}

pub fn cmp_tiles(f: &WdlFile, tiles: &Tiles, holes: HolesRule, sig: &str, what: &str) -> CaseResult {
    let mut keys: Vec<(u32, u32)> = f.heightmap_tiles.keys().copied().collect();
    keys.sort();
    let want: Vec<(u32, u32)> = tiles.keys().copied().collect();
    if keys != want {
        let t = keys.iter().map(|&(x, y)| (y, x)).collect::<std::collections::BTreeSet<_>>() == want.iter().copied().collect();
        vfail!(
            format!("{sig}:tile-set{}", if t { ":transposed" } else { "" }),
            "{what}: {} height tiles, expected {}; first extra {:?}, first missing {:?}",
            keys.len(),
            want.len(),
            keys.iter().find(|k| !tiles.contains_key(k)),
            want.iter().find(|k| !f.heightmap_tiles.contains_key(k))
        );
    }
    for (k, (hs, _)) in tiles {
        let t = &f.heightmap_tiles[k];
        if t.outer_values.len() != 289 || t.inner_values.len() != 256 {
            vfail!(format!("{sig}:heights-shape"), "{what}: tile {k:?} has {}+{} values", t.outer_values.len(), t.inner_values.len());
        }
        if t.outer_values[..] != hs[..289] || t.inner_values[..] != hs[289..] {
            let tr = tiles.get(&(k.1, k.0)).map(|o| t.outer_values[..] == o.0[..289] && t.inner_values[..] == o.0[289..]).unwrap_or(false);
            vfail!(format!("{sig}:heights{}", if tr { ":transposed" } else { "" }), "{what}: heights of tile {k:?} differ");
        }
    }
    let mut hk: Vec<(u32, u32)> = f.holes_data.keys().copied().collect();
    hk.sort();
    match holes {
        HolesRule::Exact => {
            let want: Vec<(u32, u32)> = tiles.iter().filter(|(_, t)| t.1.is_some()).map(|(k, _)| *k).collect();
            if hk != want {
                vfail!(format!("{sig}:holes-set"), "{what}: holes on {} tiles, expected {}", hk.len(), want.len());
            }
            for k in want {
                if f.holes_data[&k].hole_masks != tiles[&k].1.unwrap() {
                    vfail!(format!("{sig}:holes"), "{what}: hole masks of tile {k:?} differ");
                }
            }
        }
        HolesRule::NoneOrSolid => {
            for k in hk {
                if f.holes_data[&k].hole_masks != [0xFFFF; 16] {
                    vfail!(format!("{sig}:holes-invented"), "{what}: tile {k:?} got holes although the source had none");
                }
            }
        }
        HolesRule::Ignore => {}
    }
    Ok(())
}

#[derive(Clone, Copy)]
pub enum HolesRule {
    Exact,
    /// source had no holes: either no entry or the "no holes" mask
    NoneOrSolid,
    Ignore,
}

pub fn cmp_content(f: &WdlFile, m: &WdlModel, tiles: &Tiles, sig: &str, what: &str) -> CaseResult {
    if f.version_number != 18 {
        vfail!(format!("{sig}:version-number"), "{what}: version_number {}", f.version_number);
    }
    cmp_tiles(f, tiles, HolesRule::Exact, sig, what)?;
    if f.wmo_filenames != m.names {
        vfail!(format!("{sig}:wmo-names"), "{what}: names {:?}, expected {:?}", f.wmo_filenames, m.names);
    }
    if f.wmo_indices != m.indices {
        vfail!(format!("{sig}:wmo-indices"), "{what}: MWID {:?}, expected {:?}", f.wmo_indices, m.indices);
    }
    let got: Vec<_> = f.wmo_placements.iter().map(place_bits).collect();
    let want: Vec<_> = m.placements.iter().map(|p| (p.id, p.wmo_id, p.f.to_vec(), [p.flags, p.doodad_set, p.name_set, p.padding])).collect();
    if got != want {
        vfail!(format!("{sig}:wmo-placements"), "{what}: {} placements vs {} expected, or a field differs: {:x?} vs {:x?}", got.len(), want.len(), got.first(), want.first());
    }
    for (name, gl, wl) in [("m2-placements", &f.m2_placements, &m.m2), ("wmo-legion-placements", &f.wmo_legion_placements, &m.wmo2)] {
        let got: Vec<_> = gl.iter().map(m2_bits).collect();
        let want: Vec<_> = wl.iter().map(|p| (p.id, p.m2_id, p.f.to_vec(), p.flags)).collect();
        if got != want {
            vfail!(format!("{sig}:{name}"), "{what}: {} entries vs {} expected, or a field differs: {:x?} vs {:x?}", got.len(), want.len(), got.first(), want.first());
        }
    }
    for (name, gl, wl) in [("m2-visibility", &f.m2_visibility, &m.m2vis), ("wmo-legion-visibility", &f.wmo_legion_visibility, &m.wmo2vis)] {
        let got: Vec<_> = gl.iter().map(vis_bits).collect();
        let want: Vec<_> = wl.iter().map(|p| p.f.to_vec()).collect();
        if got != want {
            vfail!(format!("{sig}:{name}"), "{what}: {} entries vs {} expected, or a field differs", got.len(), want.len());
        }
    }
    Ok(())
}

pub struct Observed {
    /// the auto-detecting parser re-detected this version and its rewrite differs
    pub autodetect_rewrite_differs: Option<String>,
}

pub fn judge(m: &WdlModel) -> Result<Observed, Fail> {
    let tiles = m.expand();
    let f = m.build(&tiles);
    let v = m.version;
    let b1 = write_wdl(&f, v, "first")?;
    let words = judge_bytes(v, &tiles, v_has_holes(v), Some(m), &b1, "wdl-written")?;
    // explicit-version parser
    let pv = parse_wdl(&b1, &WdlParser::with_version(VERSIONS[v as usize]), "written file, parser of the same version")?;
    cmp_content(&pv, m, &tiles, "wdl-readback-differs", "parse(write(x))")?;
    if pv.map_tile_offsets[..] != words[..] {
        vfail!("wdl-readback-differs:map-tile-offsets", "parsed map_tile_offsets differ from the MAOF words in the file");
    }
    // the auto-detecting parser the README uses
    let pa = parse_wdl(&b1, &WdlParser::new(), "written file, auto-detecting parser")?;
    cmp_content(&pa, m, &tiles, "wdl-autodetect-readback-differs", "WdlParser::new().parse(write(x))")?;
    let b2 = write_wdl(&pv, v, "second")?;
    if b2 != b1 {
        vfail!("wdl-second-write-differs", "write(parse(write(x))) != write(x): {}", first_diff(&b1, &b2));
    }
    // whatever version the auto-detecting parser settles on (several versions share one layout), it
    // must be one that can hold everything it parsed: writing the parsed file with the parser of its
    // own `version` and reading that back must still give the original content
    if let Some(dv) = VERSIONS.iter().position(|x| *x == pa.version) {
        let b4 = write_wdl(&pa, dv as u8, "auto-detected version")?;
        let p4 = parse_wdl(&b4, &WdlParser::with_version(pa.version), "file rewritten with its auto-detected version")?;
        cmp_content(&p4, m, &tiles, "wdl-autodetected-version-cannot-hold-the-content", "parse(write(auto-detected parse, its own version))")?;
    }
    // observation only (not part of the statement): rewrite with the re-detected version
    let mut obs = Observed { autodetect_rewrite_differs: None };
    if let Ok(b3) = write_wdl(&pa, v, "auto") {
        if b3 != b1 {
            obs.autodetect_rewrite_differs = Some(format!("{}->{}", VNAMES[v as usize], pa.version));
        }
    }
    Ok(obs)
}

/// Outcome of a conversion case
pub enum Conv {
    Done,
    /// documented refusal: holes cannot be carried to a version without MAHO
    Refused,
}

pub fn judge_convert(m: &WdlModel, to: u8) -> Result<Conv, Fail> {
    let tiles = m.expand();
    let f = m.build(&tiles);
    let from = m.version;
    let to_v = VERSIONS[to as usize];
    let any_holes = tiles.values().any(|t| t.1.is_some());
    let r = guard("convert_wdl_file", || convert_wdl_file(&f, to_v))?;
    let c = match r {
        Ok(c) => c,
        Err(e) => {
            if !v_has_holes(to) && any_holes {
                return Ok(Conv::Refused);
            }
            vfail!("wdl-convert-error", "convert_wdl_file({} -> {}) failed: {e}", VNAMES[from as usize], VNAMES[to as usize]);
        }
    };
    let rule = if !v_has_holes(to) {
        HolesRule::Ignore
    } else if v_has_holes(from) {
        HolesRule::Exact
    } else {
        HolesRule::NoneOrSolid
    };
    if c.version != to_v {
        vfail!("wdl-convert-wrong-version", "converted file has version {}", c.version);
    }
    cmp_tiles(&c, &tiles, rule, "wdl-convert-loses-tile-data", "convert_wdl_file(x)")?;
    let b = write_wdl(&c, to, "converted")?;
    // tiles as they should appear in the converted file
    let file_tiles: Tiles = match rule {
        HolesRule::Exact => tiles.clone(),
        _ => tiles.iter().map(|(k, t)| (*k, (t.0.clone(), c.holes_data.get(k).map(|h| h.hole_masks)))).collect(),
    };
    judge_bytes(to, &file_tiles, v_has_holes(to), None, &b, "wdl-converted")?;
    let p = parse_wdl(&b, &WdlParser::with_version(to_v), "converted file")?;
    cmp_tiles(&p, &tiles, rule, "wdl-converted-file-loses-tile-data", "parse(write(convert(x)))")?;
    // the method form of the same conversion
    let r2 = guard("WdlFile::convert_to", || f.convert_to(to_v))?;
    match r2 {
        Ok(c2) => cmp_tiles(&c2, &tiles, HolesRule::Ignore, "wdl-convert-to-loses-tile-data", "WdlFile::convert_to(x)")?,
        Err(e) => vfail!("wdl-convert-to-error", "WdlFile::convert_to failed: {e}"),
    }
    Ok(Conv::Done)
}

// ---------------------------------------------------------------------------------------
// generators

fn coord() -> impl Strategy<Value = u8> {
    prop_oneof![3 => 0u8..64, 1 => Just(0u8), 1 => Just(63u8)]
}
fn fbits() -> impl Strategy<Value = u32> {
    prop_oneof![
        4 => (-20000.0f32..20000.0).prop_map(|v| v.to_bits()),
        1 => any::<u32>(),
        1 => Just(0u32),
    ]
}
fn name_strategy() -> impl Strategy<Value = String> {
    prop_oneof![
        6 => "[A-Za-z0-9_]{1,10}(\\\\[A-Za-z0-9_ ]{1,10}){0,3}\\.wmo",
        2 => "[!-~]{0,20}",
        1 => "[^\\x00]{0,12}",
    ]
}
fn m2_strategy() -> impl Strategy<Value = M2M> {
    (any::<u32>(), any::<u32>(), proptest::array::uniform7(fbits()), any::<u32>()).prop_map(|(id, m2_id, f, flags)| M2M { id, m2_id, f, flags })
}
fn vis_strategy() -> impl Strategy<Value = VisM> {
    proptest::array::uniform7(fbits()).prop_map(|f| VisM { f })
}
fn place_strategy() -> impl Strategy<Value = PlaceM> {
    (any::<u32>(), 0u32..4, proptest::array::uniform12(fbits()), any::<u16>(), any::<u16>(), any::<u16>(), prop_oneof![3 => Just(0u16), 1 => any::<u16>()])
        .prop_map(|(id, wmo_id, f, flags, doodad_set, name_set, padding)| PlaceM { id, wmo_id, f, flags, doodad_set, name_set, padding })
}

pub fn strategy() -> impl Strategy<Value = WdlModel> {
    let fill = prop_oneof![
        8 => Just(Fill::NONE),
        1 => any::<u32>().prop_map(|seed| Fill { kind: 1, seed, density: 255 }),
        8 => (any::<u32>(), prop_oneof![6 => 1u8..=10, 1 => 11u8..=160]).prop_map(|(seed, density)| Fill { kind: 2, seed, density }),
    ];
    let tile = (coord(), coord(), prop_oneof![1 => Just(0u8), 5 => Just(1u8), 1 => Just(2u8), 1 => Just(3u8)], any::<u32>(), prop::option::weighted(0.5, proptest::array::uniform16(prop_oneof![2 => Just(0xFFFFu16), 1 => Just(0u16), 3 => any::<u16>()])))
        .prop_map(|(x, y, hkind, hseed, holes)| TileM { x, y, hkind, hseed, holes });
    let wmo = (prop::collection::vec(name_strategy(), 0..4), prop::collection::vec(any::<u32>(), 0..5), prop::collection::vec(place_strategy(), 0..4), any::<bool>());
    let ml = (prop::collection::vec((m2_strategy(), vis_strategy()), 0..4), prop::collection::vec((m2_strategy(), vis_strategy()), 0..4), 0u8..100);
    (0u8..10, fill, 0u8..=100, prop::collection::vec(tile, 0..6), wmo, ml)
        .prop_map(|(version, fill, fill_holes, tiles, (names, raw_idx, placements, offsets_valid), (m2, wmo2, skew))| {
            // MWID: byte offsets of the names inside MWMO (the documented meaning) or raw words
            let indices = if offsets_valid {
                let mut o = 0u32;
                names
                    .iter()
                    .map(|n| {
                        let r = o;
                        o += n.len() as u32 + 1;
                        r
                    })
                    .collect()
            } else {
                raw_idx
            };
            let (m2, mut m2vis): (Vec<_>, Vec<_>) = m2.into_iter().unzip();
            let (wmo2, wmo2vis): (Vec<_>, Vec<_>) = wmo2.into_iter().unzip();
            if skew < 5 {
                // visibility list shorter than the placement list (parser must not care)
                m2vis.pop();
            }
            WdlModel { version, fill, fill_holes, tiles, names, indices, placements, m2, m2vis, wmo2, wmo2vis }.normalise()
        })
}

/// Deterministic grid of essential classes: every version × tile-set shape × optional content.
pub fn essential_grid() -> Vec<(String, WdlModel)> {
    let holes_a = {
        let mut m = [0xFFFFu16; 16];
        m[3] = 0xFF0F;
        m[15] = 0x7FFE;
        m
    };
    let t = |x: u8, y: u8, holes: bool| TileM { x, y, hkind: 1, hseed: 42, holes: holes.then_some(holes_a) };
    let shapes: Vec<(&str, Fill, Vec<TileM>)> = vec![
        ("empty", Fill::NONE, vec![]),
        ("corner00", Fill::NONE, vec![t(0, 0, true)]),
        ("corner10", Fill::NONE, vec![t(63, 0, true)]),
        ("corner01", Fill::NONE, vec![t(0, 63, false)]),
        ("corner11", Fill::NONE, vec![t(63, 63, true)]),
        ("edge", Fill::NONE, vec![t(17, 0, true), t(63, 40, false)]),
        ("asym-L", Fill::NONE, vec![t(10, 20, true), t(11, 20, false), t(12, 20, true), t(10, 21, false)]),
        ("asym-random", Fill { kind: 2, seed: 3, density: 24 }, vec![t(5, 6, true)]),
        ("dense", Fill { kind: 1, seed: 9, density: 255 }, vec![]),
    ];
    let m2 = |i: u32| M2M { id: i, m2_id: 1000 + i, f: [1.0f32, 2.0, 3.0, 0.0, 0.5, 0.0, 1.0].map(f32::to_bits), flags: i };
    let vis = |i: u32| VisM { f: [-1.0f32, -2.0, -3.0, 1.0, 2.0, 3.0, 3.74 + i as f32].map(f32::to_bits) };
    let mut out = vec![];
    for version in 0u8..10 {
        for (sname, fill, tiles) in &shapes {
            for optional in [false, true] {
                let m = WdlModel {
                    version,
                    fill: fill.clone(),
                    fill_holes: if optional { 40 } else { 0 },
                    tiles: tiles.iter().cloned().map(|mut t| { if !optional { t.holes = None; } t }).collect(),
                    names: if optional { vec!["World\\wmo\\Azeroth\\Buildings\\Stormwind\\Stormwind.wmo".into(), "a.wmo".into()] } else { vec![] },
                    indices: if optional { vec![0, 53] } else { vec![] },
                    placements: if optional {
                        vec![PlaceM { id: 7, wmo_id: 1, f: [10.0f32, 20.0, 30.0, 0.0, 45.0, 0.0, -5.0, -6.0, -7.0, 5.0, 6.0, 7.0].map(f32::to_bits), flags: 1, doodad_set: 2, name_set: 3, padding: 0 }]
                    } else {
                        vec![]
                    },
                    m2: if optional { vec![m2(1), m2(2)] } else { vec![] },
                    m2vis: if optional { vec![vis(1), vis(2)] } else { vec![] },
                    wmo2: if optional { vec![m2(3)] } else { vec![] },
                    wmo2vis: if optional { vec![vis(3)] } else { vec![] },
                }
                .normalise();
                out.push((format!("{}:{}:opt{}", VNAMES[version as usize], sname, optional as u8), m));
            }
        }
    }
    out
}
