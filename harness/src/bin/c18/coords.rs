//! tile ↔ world coordinate inversion, exhaustive over the 64×64 tile domain.
use serde_json::{Value, json};
use vcheck::engine::{CaseResult, Check, Fail, fnv, guard};
use wow_wdt::{tile_to_world, world_to_tile};

/// side of one ADT tile in yards: 1600/3 (documented as 533.33333)
pub const TILE: f64 = 1600.0 / 3.0;

/// interior points (fx, fy) = distance from the tile's corner in tile units along tile_x /
/// tile_y: the exact centre plus four off-centre points whose two axes differ; all at least
/// 1/8 tile (66 yards) away from any boundary, five orders of magnitude more than f32
/// rounding at |w| <= 17067.
pub const FRACTIONS: [(f64, f64); 5] = [(0.5, 0.5), (0.125, 0.875), (0.875, 0.125), (0.25, 0.75), (0.75, 0.25)];

/// Independent formula for the corner of tile index `i` along one axis.
pub fn corner_ref(i: u32) -> f64 {
    (32.0 - i as f64) * TILE
}

/// All tiles whose corner does not come back: (x, y, got_x, got_y), sorted.
pub fn corner_failures() -> Result<Vec<(u32, u32, u32, u32)>, Fail> {
    let mut bad = vec![];
    for y in 0..64u32 {
        for x in 0..64u32 {
            let (wx, wy) = guard("tile_to_world", || tile_to_world(x, y))?;
            let (tx, ty) = guard("world_to_tile", || world_to_tile(wx, wy))?;
            if (tx, ty) != (x, y) {
                bad.push((x, y, tx, ty));
            }
        }
    }
    bad.sort();
    Ok(bad)
}

pub fn failset_hash(bad: &[(u32, u32, u32, u32)]) -> String {
    let mut bytes = Vec::with_capacity(bad.len() * 4);
    for &(x, y, tx, ty) in bad {
        bytes.extend_from_slice(&[x as u8, y as u8, tx.min(255) as u8, ty.min(255) as u8]);
    }
    format!("{:016x}", fnv(&bytes))
}

/// The corner round trip judged as ONE set-valued case: the signature carries the size and
/// a hash of the exact sorted list (tile, wrong answer), so any other failure pattern
/// (axis swap, off-by-one, sign error) is a different signature.
pub fn check_corners() -> CaseResult {
    let bad = corner_failures()?;
    if bad.is_empty() {
        return Ok(());
    }
    let mut bx: Vec<u32> = bad.iter().filter(|b| b.0 != b.2).map(|b| b.0).collect();
    bx.sort();
    bx.dedup();
    let mut by: Vec<u32> = bad.iter().filter(|b| b.1 != b.3).map(|b| b.1).collect();
    by.sort();
    by.dedup();
    let ex: Vec<String> = bad
        .iter()
        .take(4)
        .map(|&(x, y, tx, ty)| {
            let (wx, wy) = tile_to_world(x, y);
            format!("tile ({x},{y}) -> world ({wx:?},{wy:?}) -> tile ({tx},{ty})")
        })
        .collect();
    Err(Fail::new(
        format!("tile-world-tile-corner-mismatch:n={}:set={}", bad.len(), failset_hash(&bad)),
        format!(
            "world_to_tile(tile_to_world(x,y)) != (x,y) for {} of 4096 tiles; tile_x wrong for x in {:?}, tile_y wrong for y in {:?}; e.g. {}",
            bad.len(),
            bx,
            by,
            ex.join("; ")
        ),
    ))
}

/// `tile_to_world` against the documented formula (tolerance 0.1 yard, the tolerance the
/// crate's own tests use).
pub fn check_forward(x: u32, y: u32) -> CaseResult {
    let (wx, wy) = guard("tile_to_world", || tile_to_world(x, y))?;
    let (rx, ry) = (corner_ref(y), corner_ref(x));
    if !((wx as f64 - rx).abs() < 0.1 && (wy as f64 - ry).abs() < 0.1) {
        return Err(Fail::new(
            "tile-to-world-differs-from-documented-formula",
            format!("tile_to_world({x},{y}) = ({wx:?},{wy:?}), documented (32-tile_y)*533.33, (32-tile_x)*533.33 = ({rx:.3},{ry:.3})"),
        ));
    }
    Ok(())
}

/// A point strictly inside tile (x,y), `fx`/`fy` tile-fractions away from its corner,
/// computed independently in f64 and rounded once to f32.
pub fn interior_point(x: u32, y: u32, fx: f64, fy: f64) -> (f32, f32) {
    // world_x runs along tile_y, world_y along tile_x (as tile_to_world documents)
    let wx = (32.0 - (y as f64 + fy)) * TILE;
    let wy = (32.0 - (x as f64 + fx)) * TILE;
    (wx as f32, wy as f32)
}

pub fn check_point(x: u32, y: u32, wx: f32, wy: f32) -> CaseResult {
    let (tx, ty) = guard("world_to_tile", || world_to_tile(wx, wy))?;
    if (tx, ty) != (x, y) {
        let kind = if (tx, ty) == (y, x) && x != y {
            "axes-swapped"
        } else if tx == x || ty == y {
            "one-axis-wrong"
        } else {
            "both-axes-wrong"
        };
        return Err(Fail::new(
            format!("world-to-tile-wrong-for-interior-point:{kind}"),
            format!("world_to_tile({wx:?},{wy:?}) = ({tx},{ty}) but the point lies inside tile ({x},{y})"),
        ));
    }
    Ok(())
}

/// run the whole coordinate sub-check
pub fn run(check: &Check) {
    // (a) corners: one set-valued case, 4096 evaluations
    check.count_n("coord:corner-roundtrip", 4096, &["coord:corner-roundtrip".to_string()]);
    if let Err(f) = check_corners() {
        check.fail(&f, json!({"kind":"coord-corners"}));
    }
    // (b) forward formula and interior points: per tile
    let mut nt = vec![];
    for y in 0..64u32 {
        for x in 0..64u32 {
            if let Err(f) = check_forward(x, y) {
                check.fail(&f, json!({"kind":"coord-forward","x":x,"y":y}));
            }
            for &(fx, fy) in FRACTIONS.iter() {
                let (wx, wy) = interior_point(x, y, fx, fy);
                if let Err(f) = check_point(x, y, wx, wy) {
                    check.fail(&f, json!({"kind":"coord-point","x":x,"y":y,"wx_bits":wx.to_bits(),"wy_bits":wy.to_bits()}));
                }
            }
        }
    }
    for k in 0..FRACTIONS.len() {
        nt.push(format!("coord:interior:f{k}"));
    }
    check.count_n("coord:forward-formula", 4096, &[]);
    check.count_n("coord:interior-point", 4096 * FRACTIONS.len() as u64, &nt);
    check.sample("coord", || {
        let (wx, wy) = tile_to_world(5, 40);
        json!({"kind":"coord","tile":[5,40],"world":[wx,wy],"back":world_to_tile(wx,wy)})
    });
}

pub fn replay(c: &Value) -> CaseResult {
    match c["kind"].as_str().unwrap_or("") {
        "coord-corners" => check_corners(),
        "coord-forward" => check_forward(c["x"].as_u64().unwrap() as u32, c["y"].as_u64().unwrap() as u32),
        "coord-point" => check_point(
            c["x"].as_u64().unwrap() as u32,
            c["y"].as_u64().unwrap() as u32,
            f32::from_bits(c["wx_bits"].as_u64().unwrap() as u32),
            f32::from_bits(c["wy_bits"].as_u64().unwrap() as u32),
        ),
        k => Err(Fail::new("bad-replay", format!("unknown coord replay kind {k}"))),
    }
}
