//! C18 — WDT and WDL map files survive write→parse; tile↔world coordinates invert.
//!
//! Sub-checks: (1) exhaustive coordinate table, (2) WDT essential grid + random maps,
//! (3) WDT conversions over all version pairs, (4) WDL essential grid + random maps,
//! (5) WDL conversions over all version pairs, (6) WDL maps with a history (parsed / converted, then
//! edited through the public fields, then written: `hist.rs`). Every written file is also judged by an
//! independent chunk walker (`walk.rs`) that knows the on-disk layout but none of the code
//! under test.
mod coords;
mod hist;
mod walk;
mod wdl;
mod wdt;

use proptest::strategy::Strategy;
use rayon::prelude::*;
use serde_json::{Value, json};
use std::collections::BTreeSet;
use std::sync::Mutex;
use vcheck::engine::{CaseResult, Check, Fail, pt};

static TAGS: Mutex<BTreeSet<String>> = Mutex::new(BTreeSet::new());

fn tag(t: String) {
    if !pt::suppressed() {
        TAGS.lock().unwrap().insert(t);
    }
}

fn field(class: &str, prefix: &str) -> String {
    class.split(':').find_map(|p| p.strip_prefix(prefix)).unwrap_or("").to_string()
}

fn wdt_tags(m: &wdt::WdtModel, class: &str) {
    let v = wdt::VNAMES[m.version as usize];
    let g = field(class, "grid-");
    tag(format!("wdt:{v}:grid-{g}"));
    tag(format!("wdt:{v}:{}", if m.wmo_only() { "wmo-only" } else { "terrain" }));
    if class.contains(":asym1") {
        tag(format!("wdt:{v}:asym"));
    }
    if m.maid.is_some() {
        tag(format!("wdt:{v}:maid"));
    }
    if m.mwmo.is_some() {
        tag(format!("wdt:{v}:mwmo"));
    }
    if m.modf.is_some() {
        tag(format!("wdt:{v}:modf"));
    }
}

fn wdl_tags(m: &wdl::WdlModel, class: &str) {
    let v = wdl::VNAMES[m.version as usize];
    tag(format!("wdl:{v}:tiles-{}", field(class, "tiles-")));
    if class.contains(":asym1") {
        tag(format!("wdl:{v}:asym"));
    }
    if !class.contains(":holes-0") {
        tag(format!("wdl:{v}:holes"));
    }
    if !m.names.is_empty() {
        tag(format!("wdl:{v}:wmo"));
    }
    if !m.m2.is_empty() && !m.wmo2.is_empty() {
        tag(format!("wdl:{v}:ml"));
    }
}

/// what the essential grid must have reached, whatever the seed
fn required_tags() -> Vec<String> {
    let mut r = vec![];
    for (i, v) in wdt::VNAMES.iter().enumerate() {
        for g in ["empty", "dense", "corner00", "corner10", "corner01", "corner11", "edge", "sparse", "partial"] {
            r.push(format!("wdt:{v}:grid-{g}"));
        }
        for t in ["terrain", "wmo-only", "asym", "modf", "mwmo"] {
            r.push(format!("wdt:{v}:{t}"));
        }
        if i as u8 >= wdt::BFA {
            r.push(format!("wdt:{v}:maid"));
        }
        for to in wdt::VNAMES {
            r.push(format!("wdt-convert:{v}->{to}"));
        }
    }
    for (i, v) in wdl::VNAMES.iter().enumerate() {
        for g in ["empty", "dense", "corner00", "corner10", "corner01", "corner11", "sparse", "partial"] {
            r.push(format!("wdl:{v}:tiles-{g}"));
        }
        r.push(format!("wdl:{v}:asym"));
        if wdl::v_has_holes(i as u8) {
            r.push(format!("wdl:{v}:holes"));
        }
        if wdl::v_has_wmo(i as u8) {
            r.push(format!("wdl:{v}:wmo"));
        }
        if wdl::v_has_ml(i as u8) {
            r.push(format!("wdl:{v}:ml"));
        }
        for to in wdl::VNAMES {
            r.push(format!("wdl-convert:{v}->{to}"));
        }
    }
    r.extend(hist::required_tags());
    r
}

fn wdl_history_case(check: &Check, m: &wdl::WdlModel, hi: &hist::Hist) -> CaseResult {
    let (info, r) = hist::judge_history(m, hi);
    check.count(&info.class, info.nontrivial);
    if info.refused {
        check.bump("wdl_history_convert_refused_holes_to_vanilla", 1);
    }
    for t in info.tags {
        tag(t);
    }
    if info.nontrivial {
        check.sample(&format!("wdl-history{}{}", hi.origin, hi.convert.is_some() as u8), || {
            json!({"kind":"wdl-history","class":info.class,"model":serde_json::to_value(m).unwrap(),"hist":serde_json::to_value(hi).unwrap()})
        });
    }
    r
}

fn wdt_case(check: &Check, m: &wdt::WdtModel) -> CaseResult {
    let (class, nt) = m.class();
    check.count(&class, nt);
    wdt_tags(m, &class);
    if nt {
        check.sample(&format!("wdt{}{}", m.version, m.wmo_only() as u8), || json!({"kind":"wdt","class":class,"model":serde_json::to_value(m).unwrap()}));
    }
    wdt::judge(m)
}

fn wdt_convert_case(check: &Check, m: &wdt::WdtModel, to: u8) -> CaseResult {
    let (class, nt) = m.class();
    let pair = format!("wdt-convert:{}->{}", wdt::VNAMES[m.version as usize], wdt::VNAMES[to as usize]);
    check.count(&format!("{pair}:{}:grid-{}:maid{}", if m.wmo_only() { "wmo" } else { "terrain" }, field(&class, "grid-"), m.maid.is_some() as u8), nt && to != m.version);
    tag(pair);
    wdt::judge_convert(m, to)
}

fn wdl_case(check: &Check, m: &wdl::WdlModel) -> CaseResult {
    let tiles = m.expand();
    let (class, nt) = m.class(&tiles);
    check.count(&class, nt);
    wdl_tags(m, &class);
    if nt {
        check.sample(&format!("wdl{}", m.version), || json!({"kind":"wdl","class":class,"tiles":tiles.len(),"model":serde_json::to_value(m).unwrap()}));
    }
    let obs = wdl::judge(m)?;
    if let Some(o) = obs.autodetect_rewrite_differs {
        check.bump(&format!("observation:wdl-rewrite-after-autodetect-differs:{o}"), 1);
    }
    Ok(())
}

fn wdl_convert_case(check: &Check, m: &wdl::WdlModel, to: u8) -> CaseResult {
    let tiles = m.expand();
    let (class, nt) = m.class(&tiles);
    let pair = format!("wdl-convert:{}->{}", wdl::VNAMES[m.version as usize], wdl::VNAMES[to as usize]);
    let r = wdl::judge_convert(m, to);
    let refused = matches!(r, Ok(wdl::Conv::Refused));
    check.count(&format!("{pair}:tiles-{}:holes-{}{}", field(&class, "tiles-"), field(&class, "holes-"), if refused { ":refused" } else { "" }), nt && to != m.version && !refused);
    if refused {
        check.bump("wdl_convert_refused_holes_to_vanilla", 1);
    }
    tag(pair);
    r.map(|_| ())
}

fn run_case(check: &Check, c: &Value) -> CaseResult {
    let kind = c["kind"].as_str().unwrap_or("");
    let to = c["to"].as_u64().unwrap_or(0) as u8;
    let bad = |e: serde_json::Error| Fail::new("bad-replay", format!("cannot decode model: {e}"));
    match kind {
        k if k.starts_with("coord") => {
            check.count("replay:coord", true);
            coords::replay(c)
        }
        "wdt-version-rule" => {
            check.count(&format!("wdt-version-rule:{}", wdt::VNAMES[to as usize]), false);
            wdt::check_version_rule(to, c["wmo_only"].as_bool().unwrap_or(false))
        }
        "wdt" => wdt_case(check, &serde_json::from_value(c["model"].clone()).map_err(bad)?),
        "wdt-convert" => wdt_convert_case(check, &serde_json::from_value(c["model"].clone()).map_err(bad)?, to),
        "wdt+convert" => {
            let m: wdt::WdtModel = serde_json::from_value(c["model"].clone()).map_err(bad)?;
            wdt_case(check, &m)?;
            wdt_convert_case(check, &m, to)
        }
        "wdl" => wdl_case(check, &serde_json::from_value(c["model"].clone()).map_err(bad)?),
        "wdl-convert" => wdl_convert_case(check, &serde_json::from_value(c["model"].clone()).map_err(bad)?, to),
        "wdl+convert" => {
            let m: wdl::WdlModel = serde_json::from_value(c["model"].clone()).map_err(bad)?;
            wdl_case(check, &m)?;
            wdl_convert_case(check, &m, to)
        }
        "wdl-history" => wdl_history_case(
            check,
            &serde_json::from_value(c["model"].clone()).map_err(bad)?,
            &serde_json::from_value(c["hist"].clone()).map_err(bad)?,
        ),
        k => Err(Fail::new("bad-replay", format!("unknown replay kind {k:?}"))),
    }
}

/// evaluate a deterministic list of cases in parallel, report in list order
fn run_list(check: &Check, label: &str, cases: Vec<Value>) {
    let results: Vec<(Value, CaseResult)> = cases
        .into_par_iter()
        .map(|c| {
            let r = vcheck::engine::guard(label, || run_case(check, &c)).and_then(|x| x);
            (c, r)
        })
        .collect();
    for (c, r) in results {
        if let Err(f) = r {
            check.fail(&f, c);
        }
    }
}

fn main() {
    let (check, _args) = Check::new("C18", "exploration");
    check.set_rule(
        "coordinates: all 4096 tile indices exhaustively (corner round trip judged as one set-valued case, forward formula, 5 interior \
         points per tile computed independently in f64). WDT: abstract map definitions (64x64 grid = fill pattern [none / every tile / \
         hashed density] + explicit tiles biased to corners and edges; any of the 16 MPHD flag bits; legacy words or 7 file ids; MAID \
         with 0..9 sections on 8.x+; MWMO names and MODF placements, present according to the version rule, off-rule combinations at low \
         rate) built through the public API for each of the 10 versions (and the version rule itself, 10 versions x 2 map kinds, against the documented table), plus a deterministic grid version x {terrain, WMO-only} x 12 \
         grid shapes x MAID; each also converted (grid: to all 10 versions; random: to one). WDL: tile sets (same fill patterns) with \
         545 hashed heights per tile, hole masks, WMO names/MWID/MODF (WotLK..WoD), four ML lists (Legion+), 10 versions, plus a grid \
         version x 9 shapes x {bare, all optional content}; conversions likewise. WDL histories: a map of any version that was \
         built / parsed with the parser of its version / parsed with the auto-detecting parser, optionally converted with convert_wdl_file, then \
         edited through the public fields (record lists MODF/MLDD/MLDX/MLMD/MLMX: every field of every record in place, one field of one \
         record, shorter, longer, reversed; name table same length / longer / shorter; tiles: new heights, removed, added, holes toggled, \
         moved to the transposed index), then written, walked, parsed and written again; grid = 10 versions x 2 origins x 20 edits + 100 \
         version pairs x {built, parsed} x {no edit, in-place edit}; non-trivial there = the value has a past (parsed or converted) and the \
         edit changed its content or the conversion changed its version. non-trivial = the grid is asymmetric (some tile differs \
         from its transpose) or an optional chunk is present; for conversions additionally source != target and not refused. distinct = \
         version x map kind x grid class x asymmetry x per-optional-chunk size class (x target version for conversions).",
    );
    check.assume("walk.rs is my transcription of the IFF chunk framing and of the documented record layouts (MPHD word order, MAIN/MAOF index = y*64+x, SMMapObjDef for MODF, MARE = 289+256 i16, MAHO = 16 u16)");
    check.assume("MAID layout (section-major, 64x64 per section, [y][x]) is taken from the crate's own doc comment, not from an external description; ML* record layouts are only checked for size");
    check.assume("content equality ignores the re-detected version, WdlFile::chunks and (WDT, 0x200 set) the legacy words that alias the file ids; a model never holds content its version cannot carry (WDL) — the writers drop such content by design");
    check.assume("a Cataclysm+ terrain map that is given MWMO names may be written with or without the chunk (documented version rule); dropping MWMO anywhere else is a failure");
    check.assume("the content of a WdlFile is its public content fields (tiles, holes, names, MWID words, the five record lists) for its `version`; `chunks` and `map_tile_offsets` are by-products of parsing/conversion that a caller editing those fields does not maintain (examples/edit_heightmap.rs, README) - so the written bytes must follow the fields. The record lists of a converted map are taken as convert_wdl_file left them (the statement fixes only the tile data of a conversion)");
    check.assume("interior points lie >= 1/8 tile (66 yards) from any tile boundary, so f32 rounding (<= 0.002 yards) cannot move them across it");

    if let Some(p) = check.replay.clone() {
        let v: Value = serde_json::from_str(&std::fs::read_to_string(&p).expect("replay file")).expect("json");
        let c = v["case"].clone();
        let r = vcheck::engine::guard("replay", || run_case(&check, &c)).and_then(|x| x);
        check.count("replay", true);
        if let Err(f) = r {
            check.fail(&f, c);
        }
        check.finish();
    }

    let t0 = std::time::Instant::now();
    let verbose = std::env::var("VERIF_VERBOSE").is_ok();
    let lap = |what: &str| {
        if verbose {
            eprintln!("[c18] {what} done at {:.1}s", t0.elapsed().as_secs_f64());
        }
    };
    // 1. coordinates, exhaustive
    coords::run(&check);
    lap("coords");
    check.set_extra("exhaustive_subdomains", json!({"tile_indices": 4096, "note": "coordinate maps only; file round trips are sampled"}));

    // 2. WDT essential grid, every case also converted to all ten versions
    let mut list = vec![];
    for v in 0..10u8 {
        for wmo_only in [false, true] {
            list.push(json!({"kind":"wdt-version-rule","to":v,"wmo_only":wmo_only}));
        }
    }
    for (_name, m) in wdt::essential_grid() {
        let mv = serde_json::to_value(&m).unwrap();
        list.push(json!({"kind":"wdt","model":mv}));
        for to in 0..10u8 {
            list.push(json!({"kind":"wdt-convert","model":mv,"to":to}));
        }
    }
    check.set_extra("wdt_grid_cases", json!(list.len()));
    run_list(&check, "wdt-grid", list);
    lap("wdt-grid");

    // 3. WDL essential grid
    let mut list = vec![];
    for (name, m) in wdl::essential_grid() {
        let mv = serde_json::to_value(&m).unwrap();
        list.push(json!({"kind":"wdl","model":mv}));
        for to in 0..10u8 {
            // 4096-tile maps (4.5 MB each): three targets are enough, every pair is reached by the other shapes
            if name.contains(":dense:") && ![0u8, 2, 6].contains(&to) {
                continue;
            }
            list.push(json!({"kind":"wdl-convert","model":mv,"to":to}));
        }
    }
    check.set_extra("wdl_grid_cases", json!(list.len()));
    run_list(&check, "wdl-grid", list);
    lap("wdl-grid");

    // 3b. WDL maps with a history: every version x origin x edit kind, every version pair
    let list: Vec<Value> = hist::essential_grid()
        .into_iter()
        .map(|(m, hi)| json!({"kind":"wdl-history","model":serde_json::to_value(&m).unwrap(),"hist":serde_json::to_value(&hi).unwrap()}))
        .collect();
    check.set_extra("wdl_history_grid_cases", json!(list.len()));
    run_list(&check, "wdl-history-grid", list);
    lap("wdl-history-grid");

    // 4. random WDT maps (+ one conversion each)
    let n_wdt = check.tier.pick(4_000u32, 100_000);
    pt::run(
        &check,
        "wdt-random",
        n_wdt,
        pt::Opts::default(),
        || (wdt::strategy(), 0u8..10),
        |(m, to)| json!({"kind":"wdt+convert","model":serde_json::to_value(m).unwrap(),"to":to}),
        |(m, to)| {
            wdt_case(&check, m)?;
            wdt_convert_case(&check, m, *to)
        },
    );

    lap("wdt-random");
    // 5. random WDL maps (+ one conversion each)
    let n_wdl = check.tier.pick(2_000u32, 40_000);
    pt::run(
        &check,
        "wdl-random",
        n_wdl,
        pt::Opts { max_shrink_iters: 400, ..pt::Opts::default() },
        || (wdl::strategy(), 0u8..10),
        |(m, to)| json!({"kind":"wdl+convert","model":serde_json::to_value(m).unwrap(),"to":to}),
        |(m, to)| {
            wdl_case(&check, m)?;
            wdl_convert_case(&check, m, *to)
        },
    );

    lap("wdl-random");
    // 6. random WDL maps with a random history
    let n_hist = check.tier.pick(1_500u32, 30_000);
    pt::run(
        &check,
        "wdl-history-random",
        n_hist,
        pt::Opts { max_shrink_iters: 400, ..pt::Opts::default() },
        || (wdl::strategy().prop_map(hist::lighten), hist::strategy()),
        |(m, hi)| json!({"kind":"wdl-history","model":serde_json::to_value(m).unwrap(),"hist":serde_json::to_value(hi).unwrap()}),
        |(m, hi)| wdl_history_case(&check, m, hi),
    );
    lap("wdl-history-random");
    // essential classes must have been reached by construction
    let tags = TAGS.lock().unwrap().clone();
    let missing: Vec<String> = required_tags().into_iter().filter(|t| !tags.contains(t)).collect();
    check.set_extra("essential_classes", json!({"required": required_tags().len(), "reached": required_tags().len() - missing.len()}));
    // a failing case stops before later tags are recorded; only a clean run must be complete
    if !missing.is_empty() && check.violation_count() == 0 {
        check.inconclusive(&format!("essential classes not reached: {:?}", &missing[..missing.len().min(8)]));
    }
    check.finish();
}
