//! Independent IFF chunk walker for WDT / WDL files: `(magic[4], u32 LE size, payload)*`.
//! Written from the published chunk layout; calls nothing in wow-wdt / wow-wdl.
//! Magics are kept exactly as stored on disk (reversed four-character codes, e.g. `REVM`).

#[derive(Clone, Debug)]
pub struct ChunkRef {
    pub magic: [u8; 4],
    /// offset of the chunk header (magic) in the file
    pub off: usize,
    /// payload size
    pub size: usize,
}

impl ChunkRef {
    pub fn payload<'a>(&self, file: &'a [u8]) -> &'a [u8] {
        &file[self.off + 8..self.off + 8 + self.size]
    }
    pub fn name(&self) -> String {
        // readable (un-reversed) four-character code
        self.magic.iter().rev().map(|&b| if b.is_ascii_graphic() { b as char } else { '?' }).collect()
    }
}

/// Walk the whole file. Error unless chunks tile the file exactly (no trailing bytes, no
/// chunk running past the end).
pub fn walk(file: &[u8]) -> Result<Vec<ChunkRef>, String> {
    let mut out = Vec::new();
    let mut pos = 0usize;
    while pos < file.len() {
        if file.len() - pos < 8 {
            return Err(format!(
                "{} trailing byte(s) at offset {pos} do not form a chunk header",
                file.len() - pos
            ));
        }
        let magic: [u8; 4] = file[pos..pos + 4].try_into().unwrap();
        let size = u32::from_le_bytes(file[pos + 4..pos + 8].try_into().unwrap()) as usize;
        let end = pos
            .checked_add(8)
            .and_then(|p| p.checked_add(size))
            .ok_or_else(|| format!("chunk at {pos} overflows"))?;
        if end > file.len() {
            return Err(format!(
                "chunk {:?} at offset {pos} claims {size} payload bytes but only {} remain",
                String::from_utf8_lossy(&magic),
                file.len() - pos - 8
            ));
        }
        out.push(ChunkRef { magic, off: pos, size });
        pos = end;
    }
    Ok(out)
}

pub fn u32_at(b: &[u8], off: usize) -> u32 {
    u32::from_le_bytes(b[off..off + 4].try_into().unwrap())
}

/// little-endian byte sink used by the reference encoders
#[derive(Default)]
pub struct Le(pub Vec<u8>);
impl Le {
    pub fn u32(&mut self, v: u32) -> &mut Self {
        self.0.extend_from_slice(&v.to_le_bytes());
        self
    }
    pub fn u16(&mut self, v: u16) -> &mut Self {
        self.0.extend_from_slice(&v.to_le_bytes());
        self
    }
    pub fn i16(&mut self, v: i16) -> &mut Self {
        self.0.extend_from_slice(&v.to_le_bytes());
        self
    }
    /// f32 given by its bit pattern (NaN payloads survive)
    pub fn fbits(&mut self, bits: u32) -> &mut Self {
        self.u32(bits)
    }
}

pub fn first_diff(a: &[u8], b: &[u8]) -> String {
    let n = a.len().min(b.len());
    for i in 0..n {
        if a[i] != b[i] {
            return format!("first difference at byte {i}: {:#04x} vs {:#04x} (lengths {} / {})", a[i], b[i], a.len(), b.len());
        }
    }
    format!("common prefix of {n} bytes, lengths {} / {}", a.len(), b.len())
}
