//! WDL maps with a HISTORY. The statement quantifies over "any low-resolution map": a `WdlFile`
//! a caller holds is not only one built from scratch, it is as often one that was parsed from
//! bytes (explicit or auto-detecting parser), converted to another version, and then edited
//! through its public fields. Such a value carries state next to its content (`chunks`, the raw
//! chunk list kept from parsing / rebuilt by the converter; `map_tile_offsets` of the old file).
//! Whatever the history, the bytes written for it must parse back to the content it holds NOW,
//! the independent walker must find that content in the bytes, and a second write must be
//! byte-identical.
//!
//! origin {built, parsed, parsed by auto-detection} x optional `convert_wdl_file` x an edit
//! (record lists: in place with the same count / one field of one record / shorter / longer /
//! reordered; name table: same length / longer / shorter; tiles: new heights / tile removed /
//! tile added / holes toggled / tile moved to the transposed position).
use crate::walk::first_diff;
use crate::wdl::{
    HolesRule, M2M, PlaceM, Tiles, VERSIONS, VNAMES, VisM, WdlModel, cmp_content, cmp_tiles, heights, judge_bytes, m2_bits, parse_wdl, place_bits, v_has_holes, v_has_ml, v_has_wmo,
    vis_bits, write_wdl,
};
use crate::wdt::{Fill, h};
use proptest::prelude::*;
use serde::{Deserialize, Serialize};
use vcheck::engine::{CaseResult, guard};
use vcheck::vfail;
use wow_wdl::conversion::convert_wdl_file;
use wow_wdl::parser::WdlParser;
use wow_wdl::types::WdlFile;

#[derive(Clone, Debug, Serialize, Deserialize)]
pub struct Edit {
    pub seed: u32,
    /// 0 none, 1 every field of every record changed in place, 2 one field of one record changed,
    /// 3 last record of every list removed, 4 one record appended to every list, 5 order reversed
    pub records: u8,
    /// 0 none, 1 first name replaced by another of the same byte length, 2 a name and its MWID
    /// offset appended, 3 last name (and MWID word) removed
    pub names: u8,
    /// 0 none, 1 new heights for every tile, 2 first tile removed, 3 a tile added, 4 holes toggled
    /// on every tile, 5 an off-diagonal tile moved to its transposed position
    pub tiles: u8,
}

#[derive(Clone, Debug, Serialize, Deserialize)]
pub struct Hist {
    /// 0 built in memory, 1 parsed with the parser of its version, 2 parsed with the auto-detecting parser
    pub origin: u8,
    /// `convert_wdl_file` to this version before the edit
    pub convert: Option<u8>,
    pub edit: Edit,
}

#[derive(Default)]
pub struct Info {
    pub class: String,
    pub nontrivial: bool,
    pub tags: Vec<String>,
    pub refused: bool,
}

const LISTS: [&str; 5] = ["modf", "mldd", "mldx", "mlmd", "mlmx"];

fn family(v: u8) -> &'static str {
    if v_has_wmo(v) {
        "wmo"
    } else if v_has_ml(v) {
        "ml"
    } else {
        "plain"
    }
}

// ---------------------------------------------------------------------------------------
// the edit, as a pure function on the abstract content

/// a mantissa bit: the value stays in its float class and is never equal to the old one
fn flip(bits: u32, hv: u32) -> u32 {
    bits ^ (1 << (hv % 22))
}

const PLACE_FIELDS: usize = 18;
fn poke_place(p: &mut PlaceM, j: usize, hv: u32) {
    match j {
        0 => p.id = p.id.wrapping_add(1 + hv % 1000),
        1 => p.wmo_id ^= 1 + (hv & 2),
        2..=13 => p.f[j - 2] = flip(p.f[j - 2], hv),
        14 => p.flags ^= 1 << (hv % 16),
        15 => p.doodad_set = p.doodad_set.wrapping_add(1 + (hv % 7) as u16),
        16 => p.name_set = p.name_set.wrapping_add(1 + (hv % 7) as u16),
        _ => p.padding ^= 1 << (hv % 16),
    }
}
const M2_FIELDS: usize = 10;
fn poke_m2(p: &mut M2M, j: usize, hv: u32) {
    match j {
        0 => p.id = p.id.wrapping_add(1 + hv % 1000),
        1 => p.m2_id = p.m2_id.wrapping_add(1 + hv % 1000),
        2..=8 => p.f[j - 2] = flip(p.f[j - 2], hv),
        _ => p.flags ^= 1 << (hv % 32),
    }
}
const VIS_FIELDS: usize = 7;
fn poke_vis(p: &mut VisM, j: usize, hv: u32) {
    p.f[j] = flip(p.f[j], hv);
}

fn fresh_f<const N: usize>(seed: u32, tag: u32) -> [u32; N] {
    let mut f = [0u32; N];
    for (k, v) in f.iter_mut().enumerate() {
        *v = (((h(seed, tag, k as u32, 77) % 4_000_000) as f32) / 100.0 - 20000.0).to_bits();
    }
    f
}

fn list_len(b: &WdlModel, l: usize) -> usize {
    match l {
        0 => b.placements.len(),
        1 => b.m2.len(),
        2 => b.m2vis.len(),
        3 => b.wmo2.len(),
        _ => b.wmo2vis.len(),
    }
}

fn poke(b: &mut WdlModel, l: usize, i: usize, j: usize, hv: u32) {
    match l {
        0 => poke_place(&mut b.placements[i], j, hv),
        1 => poke_m2(&mut b.m2[i], j, hv),
        2 => poke_vis(&mut b.m2vis[i], j, hv),
        3 => poke_m2(&mut b.wmo2[i], j, hv),
        _ => poke_vis(&mut b.wmo2vis[i], j, hv),
    }
}

fn fields(l: usize) -> usize {
    match l {
        0 => PLACE_FIELDS,
        1 | 3 => M2_FIELDS,
        _ => VIS_FIELDS,
    }
}

/// Apply the edit to the content (record lists in `b`, tiles in `t`) of a map of version `b.version`.
pub fn apply_edit(b: &mut WdlModel, t: &mut Tiles, e: &Edit) {
    let v = b.version;
    let s = e.seed;
    match e.records {
        1 => {
            for l in 0..5 {
                for i in 0..list_len(b, l) {
                    for j in 0..fields(l) {
                        poke(b, l, i, j, h(s, l as u32, i as u32, j as u32));
                    }
                }
            }
        }
        2 => {
            let present: Vec<usize> = (0..5).filter(|&l| list_len(b, l) > 0).collect();
            if !present.is_empty() {
                let l = present[s as usize % present.len()];
                let i = (s >> 8) as usize % list_len(b, l);
                let j = (s >> 16) as usize % fields(l);
                poke(b, l, i, j, h(s, 1, 2, 3));
            }
        }
        3 => {
            b.placements.pop();
            b.m2.pop();
            b.m2vis.pop();
            b.wmo2.pop();
            b.wmo2vis.pop();
        }
        4 => {
            if v_has_wmo(v) && !b.names.is_empty() {
                b.placements.push(PlaceM { id: h(s, 0, 0, 1), wmo_id: h(s, 0, 0, 2) % 4, f: fresh_f(s, 0), flags: h(s, 0, 0, 3) as u16, doodad_set: h(s, 0, 0, 4) as u16, name_set: h(s, 0, 0, 5) as u16, padding: 0 });
            }
            if v_has_ml(v) {
                b.m2.push(M2M { id: h(s, 1, 0, 1), m2_id: h(s, 1, 0, 2), f: fresh_f(s, 1), flags: h(s, 1, 0, 3) });
                b.m2vis.push(VisM { f: fresh_f(s, 2) });
                b.wmo2.push(M2M { id: h(s, 3, 0, 1), m2_id: h(s, 3, 0, 2), f: fresh_f(s, 3), flags: h(s, 3, 0, 3) });
                b.wmo2vis.push(VisM { f: fresh_f(s, 4) });
            }
        }
        5 => {
            b.placements.reverse();
            b.m2.reverse();
            b.m2vis.reverse();
            b.wmo2.reverse();
            b.wmo2vis.reverse();
        }
        _ => {}
    }
    match e.names {
        1 => {
            if let Some(n) = b.names.first_mut() {
                // same byte length: the first ASCII letter or digit becomes its successor
                let mut bytes = std::mem::take(n).into_bytes();
                if let Some(c) = bytes.iter_mut().find(|c| c.is_ascii_alphanumeric()) {
                    *c = match *c {
                        b'z' => b'a',
                        b'Z' => b'A',
                        b'9' => b'0',
                        x => x + 1,
                    };
                }
                *n = String::from_utf8(bytes).expect("ASCII for ASCII keeps UTF-8 valid");
            }
        }
        2 => {
            if v_has_wmo(v) && !b.names.is_empty() {
                let off: u32 = b.names.iter().map(|n| n.len() as u32 + 1).sum();
                b.names.push(format!("World\\wmo\\added_{:x}.wmo", s));
                b.indices.push(off);
            }
        }
        3 => {
            b.names.pop();
            b.indices.pop();
        }
        _ => {}
    }
    match e.tiles {
        1 => {
            for (&(x, y), tile) in t.iter_mut() {
                tile.0 = heights(1, s ^ 0x5bd1_e995, x, y);
            }
        }
        2 => {
            if let Some(&k) = t.keys().next() {
                t.remove(&k);
            }
        }
        3 => {
            let start = (s % 4096) as u32;
            if let Some(i) = (0..4096u32).map(|d| (start + d) % 4096).find(|i| !t.contains_key(&(i % 64, i / 64))) {
                let (x, y) = (i % 64, i / 64);
                let holes = (v_has_holes(v) && s & 0x1000 != 0).then(|| {
                    let mut m = [0xFFFFu16; 16];
                    m[(s >> 13) as usize % 16] = h(s, x, y, 5) as u16;
                    m
                });
                t.insert((x, y), (heights(1, s, x, y), holes));
            }
        }
        4 => {
            if v_has_holes(v) {
                for (&(x, y), tile) in t.iter_mut() {
                    tile.1 = match tile.1 {
                        Some(_) => None,
                        None => {
                            let mut m = [0u16; 16];
                            for (i, w) in m.iter_mut().enumerate() {
                                *w = h(s, x, y, 40 + i as u32) as u16;
                            }
                            Some(m)
                        }
                    };
                }
            }
        }
        5 => {
            if let Some(&(x, y)) = t.keys().find(|&&(x, y)| x != y && !t.contains_key(&(y, x))) {
                let tile = t.remove(&(x, y)).unwrap();
                t.insert((y, x), tile);
            }
        }
        _ => {}
    }
    // MWID / MODF only exist next to a name table (the writer's rule, see WdlModel::normalise)
    if b.names.is_empty() {
        b.indices.clear();
        b.placements.clear();
    }
}

// ---------------------------------------------------------------------------------------
// content of a library value, as the abstract model (record lists only; tiles separately)

fn lists_of(f: &WdlFile, v: u8) -> WdlModel {
    WdlModel {
        version: v,
        fill: Fill::NONE,
        fill_holes: 0,
        tiles: vec![],
        names: f.wmo_filenames.clone(),
        indices: f.wmo_indices.clone(),
        placements: f
            .wmo_placements
            .iter()
            .map(|p| {
                let (id, wmo_id, fl, w) = place_bits(p);
                PlaceM { id, wmo_id, f: fl.try_into().unwrap(), flags: w[0], doodad_set: w[1], name_set: w[2], padding: w[3] }
            })
            .collect(),
        m2: f.m2_placements.iter().map(m2m).collect(),
        m2vis: f.m2_visibility.iter().map(|p| VisM { f: vis_bits(p).try_into().unwrap() }).collect(),
        wmo2: f.wmo_legion_placements.iter().map(m2m).collect(),
        wmo2vis: f.wmo_legion_visibility.iter().map(|p| VisM { f: vis_bits(p).try_into().unwrap() }).collect(),
    }
    .normalise()
}
fn m2m(p: &wow_wdl::types::M2Placement) -> M2M {
    let (id, m2_id, fl, flags) = m2_bits(p);
    M2M { id, m2_id, f: fl.try_into().unwrap(), flags }
}

fn lists_only(m: &WdlModel, v: u8) -> WdlModel {
    WdlModel { version: v, fill: Fill::NONE, fill_holes: 0, tiles: vec![], ..m.clone() }.normalise()
}

fn lists_json(m: &WdlModel) -> serde_json::Value {
    serde_json::json!([m.names, m.indices, m.placements, m.m2, m.m2vis, m.wmo2, m.wmo2vis])
}

/// put the content into the library value the way a caller does: through the public fields,
/// leaving everything else (`chunks`, `map_tile_offsets`, `version`) as the history left it
fn assign(f: &mut WdlFile, b: &WdlModel, tiles: &Tiles) {
    let fresh = b.build(tiles);
    f.heightmap_tiles = fresh.heightmap_tiles;
    f.holes_data = fresh.holes_data;
    f.wmo_filenames = fresh.wmo_filenames;
    f.wmo_indices = fresh.wmo_indices;
    f.wmo_placements = fresh.wmo_placements;
    f.m2_placements = fresh.m2_placements;
    f.m2_visibility = fresh.m2_visibility;
    f.wmo_legion_placements = fresh.wmo_legion_placements;
    f.wmo_legion_visibility = fresh.wmo_legion_visibility;
}

// ---------------------------------------------------------------------------------------
// the judge

#[derive(Default)]
struct Trace {
    cur: u8,
    refused: bool,
    converted: Option<(u8, u8)>,
    records_after_convert: bool,
    /// per record list: changed by the edit while its length stayed the same
    in_place: [bool; 5],
    count_changed: bool,
    names_changed: bool,
    tiles_changed: bool,
    content: String,
}

pub fn judge_history(m: &WdlModel, hi: &Hist) -> (Info, CaseResult) {
    let mut tr = Trace { cur: m.version, ..Trace::default() };
    let r = run(m, hi, &mut tr);
    let e = &hi.edit;
    let has_past = hi.origin >= 1 || tr.converted.is_some();
    let any_in_place = tr.in_place.iter().any(|&b| b);
    let edited = any_in_place || tr.count_changed || tr.names_changed || tr.tiles_changed;
    let conv = match tr.converted {
        None if hi.convert.is_some() && tr.refused => "conv-refused".to_string(),
        None => "noconv".to_string(),
        Some((a, b)) => format!("conv-{}>{}{}", family(a), family(b), if a == b { ":same" } else { "" }),
    };
    let mut info = Info {
        class: format!(
            "wdl-history:{}:{}:{conv}:rec{}{}:names{}{}:tiles{}{}:{}",
            VNAMES[m.version as usize],
            ["built", "parsed", "autoparsed"][hi.origin.min(2) as usize],
            e.records,
            if any_in_place { "i" } else if tr.count_changed { "c" } else { "-" },
            e.names,
            if tr.names_changed { "e" } else { "-" },
            e.tiles,
            if tr.tiles_changed { "e" } else { "-" },
            tr.content
        ),
        nontrivial: has_past && !tr.refused && (edited || tr.converted.is_some_and(|(a, b)| a != b)),
        tags: vec![],
        refused: tr.refused,
    };
    if r.is_ok() && !tr.refused {
        // keyed by the version the caller asked for (model version, or the conversion target): the
        // parsers re-detect a version of the same layout family (Latest + ML chunks -> Legion, ...)
        let v = VNAMES[tr.converted.map(|(_, b)| b).unwrap_or(m.version) as usize];
        if has_past {
            for (l, name) in LISTS.iter().enumerate() {
                if tr.in_place[l] {
                    info.tags.push(format!("wdl-history:{v}:in-place:{name}"));
                }
            }
            if tr.count_changed {
                info.tags.push(format!("wdl-history:{v}:record-count"));
            }
            if tr.names_changed {
                info.tags.push(format!("wdl-history:{v}:names"));
            }
            if tr.tiles_changed {
                info.tags.push(format!("wdl-history:{v}:tiles-{}", e.tiles));
            }
        }
        if let Some((_, b)) = tr.converted {
            let a = m.version;
            let src = if hi.origin >= 1 { "parsed" } else { "built" };
            info.tags.push(format!("wdl-history-convert:{}->{}:{src}", VNAMES[a as usize], VNAMES[b as usize]));
            if tr.records_after_convert {
                info.tags.push(format!("wdl-history-convert:{}->{}:records", VNAMES[a as usize], VNAMES[b as usize]));
            }
        }
    }
    (info, r)
}

fn run(m: &WdlModel, hi: &Hist, tr: &mut Trace) -> CaseResult {
    let tiles_a = m.expand();
    let mut f = m.build(&tiles_a);
    let mut cur = m.version;
    // ---- origin
    if hi.origin >= 1 {
        let bytes = write_wdl(&f, cur, "history: source")?;
        let parser = if hi.origin == 1 { WdlParser::with_version(VERSIONS[cur as usize]) } else { WdlParser::new() };
        f = parse_wdl(&bytes, &parser, "history: source file")?;
        match VERSIONS.iter().position(|x| *x == f.version) {
            Some(d) => cur = d as u8,
            None => vfail!("wdl-parsed-file-has-unknown-version", "parsed file reports version {}", f.version),
        }
    }
    // what the value holds now, from the model alone (content its re-detected version cannot
    // carry is judged by `wdl::judge`, not here)
    let mut b = lists_only(m, cur);
    let mut tiles: Tiles = tiles_a.iter().map(|(k, t)| (*k, (t.0.clone(), t.1.filter(|_| v_has_holes(cur))))).collect();
    // ---- conversion
    if let Some(to) = hi.convert {
        let to_v = VERSIONS[to as usize];
        let any_holes = tiles.values().any(|t| t.1.is_some());
        let r = guard("convert_wdl_file", || convert_wdl_file(&f, to_v))?;
        let c = match r {
            Ok(c) => c,
            Err(e) => {
                if !v_has_holes(to) && any_holes {
                    tr.refused = true;
                    return Ok(());
                }
                vfail!("wdl-convert-error", "convert_wdl_file({} -> {}) of a {} file failed: {e}", VNAMES[cur as usize], VNAMES[to as usize], if hi.origin >= 1 { "parsed" } else { "built" });
            }
        };
        if c.version != to_v {
            vfail!("wdl-convert-wrong-version", "converted file has version {}", c.version);
        }
        let rule = if !v_has_holes(to) {
            HolesRule::Ignore
        } else if v_has_holes(cur) {
            HolesRule::Exact
        } else {
            HolesRule::NoneOrSolid
        };
        cmp_tiles(&c, &tiles, rule, "wdl-convert-loses-tile-data", "convert_wdl_file(x)")?;
        // the record lists of the converted map are what the converter made them (the statement
        // only fixes the tile data); from here on they are the content that must be written
        tiles = tiles.iter().map(|(k, t)| (*k, (t.0.clone(), c.holes_data.get(k).map(|h| h.hole_masks).filter(|_| v_has_holes(to))))).collect();
        b = lists_of(&c, to);
        tr.converted = Some((cur, to));
        tr.records_after_convert = (0..5).any(|l| list_len(&b, l) > 0);
        f = c;
        cur = to;
    }
    tr.cur = cur;
    // ---- edit
    let before = (b.clone(), tiles.clone());
    apply_edit(&mut b, &mut tiles, &hi.edit);
    {
        let (ob, ot) = &before;
        for l in 0..5 {
            let (x, y) = (lists_json(ob)[l + 2].clone(), lists_json(&b)[l + 2].clone());
            if list_len(ob, l) == list_len(&b, l) {
                tr.in_place[l] = x != y;
            } else {
                tr.count_changed = true;
            }
        }
        tr.names_changed = ob.names != b.names || ob.indices != b.indices;
        tr.tiles_changed = *ot != tiles;
        let cnt = |n: usize| match n {
            0 => "0",
            1 => "1",
            _ => "n",
        };
        tr.content = format!("t{}:wmo{}{}:ml{}{}{}{}", cnt(tiles.len()), cnt(b.names.len()), cnt(b.placements.len()), cnt(b.m2.len()), cnt(b.m2vis.len()), cnt(b.wmo2.len()), cnt(b.wmo2vis.len()));
    }
    assign(&mut f, &b, &tiles);
    // ---- write, walk, read back, write again
    // "edited": parsed, then changed through its fields; "converted": came out of convert_wdl_file
    // (and was perhaps changed afterwards); "assigned": a fresh value given its content field by field
    let how = match (hi.origin >= 1, tr.converted.is_some()) {
        (_, true) => "converted",
        (true, false) => "edited",
        (false, false) => "assigned",
    };
    let bytes = write_wdl(&f, cur, "history")?;
    judge_bytes(cur, &tiles, v_has_holes(cur), Some(&b), &bytes, &format!("wdl-{how}-file-written"))?;
    let p = parse_wdl(&bytes, &WdlParser::with_version(VERSIONS[cur as usize]), "file written after a history")?;
    if let Err(mut fail) = cmp_content(&p, &b, &tiles, &format!("wdl-{how}-file-readback-differs"), "parse(write(map with a history))") {
        // does the file hold the records the value held BEFORE the edit (stale bytes written)?
        let (ob, ot) = &before;
        let stale_records = WdlModel { names: b.names.clone(), indices: b.indices.clone(), ..ob.clone() };
        if cmp_content(&p, ob, ot, "x", "x").is_ok() || (b.names.is_empty() == ob.names.is_empty() && cmp_content(&p, &stale_records, &tiles, "x", "x").is_ok()) {
            fail.signature.push_str(":pre-edit-values-written");
        }
        return Err(fail);
    }
    let b2 = write_wdl(&p, cur, "history: second")?;
    if b2 != bytes {
        vfail!("wdl-second-write-differs", "write(parse(write(map with a history))) != write(map with a history): {}", first_diff(&bytes, &b2));
    }
    Ok(())
}

// ---------------------------------------------------------------------------------------
// generators

pub fn strategy() -> impl Strategy<Value = Hist> {
    let origin = prop_oneof![1 => Just(0u8), 5 => Just(1u8), 2 => Just(2u8)];
    let records = prop_oneof![2 => Just(0u8), 4 => Just(1u8), 4 => Just(2u8), 1 => Just(3u8), 1 => Just(4u8), 2 => Just(5u8)];
    let names = prop_oneof![5 => Just(0u8), 1 => Just(1u8), 1 => Just(2u8), 1 => Just(3u8)];
    let tiles = prop_oneof![4 => Just(0u8), 1 => Just(1u8), 1 => Just(2u8), 1 => Just(3u8), 1 => Just(4u8), 1 => Just(5u8)];
    (origin, prop::option::weighted(0.4, 0u8..10), any::<u32>(), records, names, tiles).prop_map(|(origin, convert, seed, records, names, tiles)| Hist { origin, convert, edit: Edit { seed, records, names, tiles } })
}

/// The history does not depend on how many tiles there are; full and half-full grids (megabytes per
/// write) are the business of `wdl::judge`. Keeps the random history cases cheap.
pub fn lighten(mut m: WdlModel) -> WdlModel {
    if m.fill.kind == 1 {
        m.fill = Fill { kind: 2, seed: m.fill.seed, density: 24 };
    } else if m.fill.kind == 2 && m.fill.density > 24 {
        m.fill.density = 24;
    }
    m
}

/// a small asymmetric map of this version holding at least two records in every list the version has
pub fn base(version: u8) -> WdlModel {
    let holes = {
        let mut m = [0xFFFFu16; 16];
        m[2] = 0xF0FF;
        m[14] = 0x7FFD;
        m
    };
    let t = |x: u8, y: u8, hs: bool| crate::wdl::TileM { x, y, hkind: 1, hseed: 4242, holes: hs.then_some(holes) };
    let m2 = |i: u32| M2M { id: 100 + i, m2_id: 2000 + i, f: [1.5f32 + i as f32, 2.0, 3.0, 0.0, 0.5, 0.25, 1.0].map(f32::to_bits), flags: i };
    let vis = |i: u32| VisM { f: [-1.0f32, -2.0, -3.0, 1.0, 2.0, 3.0, 3.74 + i as f32].map(f32::to_bits) };
    let place = |id: u32, wmo_id: u32| PlaceM {
        id,
        wmo_id,
        f: [10.0f32 + id as f32, 20.0, 30.0, 0.0, 45.0, 0.0, -5.0, -6.0, -7.0, 5.0, 6.0, 7.0].map(f32::to_bits),
        flags: 1,
        doodad_set: 2,
        name_set: 3,
        padding: 0,
    };
    WdlModel {
        version,
        fill: Fill::NONE,
        fill_holes: 0,
        tiles: vec![t(63, 0, true), t(10, 20, false), t(11, 20, true), t(10, 21, false), t(0, 63, true)],
        names: vec!["World\\wmo\\Azeroth\\Buildings\\Tower\\Tower.wmo".into(), "World\\wmo\\farm.wmo".into()],
        indices: vec![0, 46],
        // id != wmo_id, and the two records differ, so a swapped field order or record order shows
        placements: vec![place(1000, 0), place(77, 1), place(5, 0)],
        m2: vec![m2(1), m2(2)],
        m2vis: vec![vis(1), vis(2)],
        wmo2: vec![m2(3), m2(4)],
        wmo2vis: vec![vis(3), vis(4)],
    }
    .normalise()
}

/// Deterministic grid: every version x origin {parsed, auto-parsed} x every edit kind (mode 2
/// with the seeds that select each record list in turn), and every version pair x source
/// {built, parsed} x {no edit, records changed in place}.
pub fn essential_grid() -> Vec<(WdlModel, Hist)> {
    let mut out = vec![];
    let ed = |seed: u32, records: u8, names: u8, tiles: u8| Edit { seed, records, names, tiles };
    let mut edits = vec![ed(7, 0, 0, 0), ed(7, 1, 0, 0), ed(7, 3, 0, 0), ed(7, 4, 0, 0), ed(7, 5, 0, 0), ed(7, 0, 1, 0), ed(7, 0, 2, 0), ed(7, 0, 3, 0), ed(7, 1, 1, 1), ed(0x1007, 4, 2, 3)];
    for tiles in 1..=5u8 {
        edits.push(ed(0x1234_5007 + tiles as u32, 0, 0, tiles));
    }
    for s in 0..5u32 {
        // seed % (number of lists present) selects the list, the upper bytes record and field
        edits.push(ed(s | (s << 8) | ((3 + 5 * s) << 16), 2, 0, 0));
    }
    for version in 0u8..10 {
        for origin in [1u8, 2] {
            for e in &edits {
                out.push((base(version), Hist { origin, convert: None, edit: e.clone() }));
            }
        }
        for to in 0u8..10 {
            for origin in [0u8, 1] {
                for e in [ed(9, 0, 0, 0), ed(9, 1, 0, 0)] {
                    out.push((base(version), Hist { origin, convert: Some(to), edit: e }));
                }
            }
        }
    }
    out
}

/// tags the grid must reach whatever the seed
pub fn required_tags() -> Vec<String> {
    let mut r = vec![];
    for (i, v) in VNAMES.iter().enumerate() {
        let i = i as u8;
        // the auto-detecting parser settles on wotlk / legion / latest; explicit parsing keeps the version
        for (l, name) in LISTS.iter().enumerate() {
            if (l == 0 && v_has_wmo(i)) || (l > 0 && v_has_ml(i)) {
                r.push(format!("wdl-history:{v}:in-place:{name}"));
            }
        }
        if v_has_wmo(i) || v_has_ml(i) {
            r.push(format!("wdl-history:{v}:record-count"));
        }
        if v_has_wmo(i) {
            r.push(format!("wdl-history:{v}:names"));
        }
        for t in 1..=5u8 {
            if t == 4 && !v_has_holes(i) {
                continue;
            }
            r.push(format!("wdl-history:{v}:tiles-{t}"));
        }
        for (j, to) in VNAMES.iter().enumerate() {
            let j = j as u8;
            // holes cannot go to Vanilla: documented refusal
            if !v_has_holes(j) && v_has_holes(i) {
                continue;
            }
            for src in ["built", "parsed"] {
                r.push(format!("wdl-history-convert:{v}->{to}:{src}"));
            }
            // a version pair that both carry placements (WMO->WMO copied, WMO<->ML translated, ML->ML copied)
            if (v_has_wmo(i) || v_has_ml(i)) && (v_has_wmo(j) || v_has_ml(j)) {
                r.push(format!("wdl-history-convert:{v}->{to}:records"));
            }
        }
    }
    r
}
