//! WDT: abstract map definition → `WdtFile` (public API only) → bytes → independent walker
//! → `WdtReader` → second write; plus `convert_wdt` over version pairs.
use crate::walk::{self, Le, first_diff, u32_at};
use proptest::prelude::*;
use serde::{Deserialize, Serialize};
use std::io::Cursor;
use vcheck::engine::{CaseResult, Fail, guard};
use vcheck::vfail;
use wow_wdt::chunks::maid::MaidSection;
use wow_wdt::chunks::mphd::FileDataIds;
use wow_wdt::chunks::{MaidChunk, ModfChunk, ModfEntry, MphdFlags, MwmoChunk};
use wow_wdt::conversion::convert_wdt;
use wow_wdt::version::WowVersion;
use wow_wdt::{WdtFile, WdtReader, WdtWriter};

pub const VERSIONS: [WowVersion; 10] = [
    WowVersion::Classic,
    WowVersion::TBC,
    WowVersion::WotLK,
    WowVersion::Cataclysm,
    WowVersion::MoP,
    WowVersion::WoD,
    WowVersion::Legion,
    WowVersion::BfA,
    WowVersion::Shadowlands,
    WowVersion::Dragonflight,
];
pub const VNAMES: [&str; 10] = ["classic", "tbc", "wotlk", "cata", "mop", "wod", "legion", "bfa", "sl", "df"];
/// index of the first version with the file-id table (8.1)
pub const BFA: u8 = 7;

/// Independent statement of the version rule (crate docs: "4.3.4 (Cataclysm) - Breaking
/// change: terrain maps lose MWMO chunks"; WMO-only maps always carry MWMO).
pub fn rule_has_mwmo(version: u8, wmo_only: bool) -> bool {
    wmo_only || version < 3
}

/// The library's statement of the same rule, compared for every version × map kind.
pub fn check_version_rule(version: u8, wmo_only: bool) -> CaseResult {
    let cfg = wow_wdt::version::VersionConfig::new(VERSIONS[version as usize]);
    let got = guard("VersionConfig::should_have_chunk", || cfg.should_have_chunk("MWMO", wmo_only))?;
    if got != rule_has_mwmo(version, wmo_only) {
        vfail!(
            format!("wdt-version-rule-MWMO-differs-from-documented:{}:{}", VNAMES[version as usize], if wmo_only { "wmo-only" } else { "terrain" }),
            "should_have_chunk(\"MWMO\", wmo_only={wmo_only}) = {got} for {:?}; documented: WMO-only maps always, terrain maps only before Cataclysm",
            VERSIONS[version as usize]
        );
    }
    Ok(())
}

/// deterministic value hash (own code, not the generator library): used to expand fills
pub fn h(seed: u32, a: u32, b: u32, c: u32) -> u32 {
    let mut z = (seed as u64).wrapping_mul(0x9e3779b97f4a7c15)
        ^ (a as u64).wrapping_mul(0xc2b2ae3d27d4eb4f)
        ^ (b as u64).wrapping_mul(0x165667b19e3779f9)
        ^ (c as u64).wrapping_mul(0xd6e8feb86659fd93);
    z = z.wrapping_add(0x9e3779b97f4a7c15);
    z = (z ^ (z >> 30)).wrapping_mul(0xbf58476d1ce4e5b9);
    z = (z ^ (z >> 27)).wrapping_mul(0x94d049bb133111eb);
    (z ^ (z >> 31)) as u32
}

/// How the bulk of a 64×64 table is filled before explicit entries are applied.
/// kind 0: nothing; 1: every cell; 2: a cell is filled when `h(..) & 255 < density`.
#[derive(Clone, Debug, Serialize, Deserialize, PartialEq)]
pub struct Fill {
    pub kind: u8,
    pub seed: u32,
    pub density: u8,
}
impl Fill {
    pub const NONE: Fill = Fill { kind: 0, seed: 0, density: 0 };
    pub fn hits(&self, x: u32, y: u32, layer: u32) -> bool {
        match self.kind {
            0 => false,
            1 => true,
            _ => (h(self.seed, x, y, 1000 + layer) & 255) < self.density as u32,
        }
    }
}

#[derive(Clone, Debug, Serialize, Deserialize)]
pub struct ModfM {
    pub id: u32,
    pub unique_id: u32,
    /// bit patterns: position[3], rotation[3], lower_bounds[3], upper_bounds[3]
    pub f: [u32; 12],
    pub flags: u16,
    pub doodad_set: u16,
    pub name_set: u16,
    pub scale: u16,
}

#[derive(Clone, Debug, Serialize, Deserialize)]
pub struct MaidM {
    /// number of 64×64 sections (8 in retail files)
    pub sections: u8,
    pub fill: Fill,
    /// (section, x, y, file id) overrides; section < min(sections, 8)
    pub explicit: Vec<(u8, u8, u8, u32)>,
}

#[derive(Clone, Debug, Serialize, Deserialize)]
pub struct WdtModel {
    pub version: u8,
    /// MPHD flags, all 16 defined bits; bit 0 = WMO-only map, 0x200 = file-id layout
    pub flags: u16,
    /// legacy MPHD words (used when 0x200 is clear)
    pub something: u32,
    pub unused: [u32; 6],
    /// lgt, occ, fogs, mpv, tex, wdl, pd4 (used when 0x200 is set)
    pub ids: [u32; 7],
    pub fill: Fill,
    /// (x, y, flags, area id) overrides
    pub tiles: Vec<(u8, u8, u32, u32)>,
    pub maid: Option<MaidM>,
    pub mwmo: Option<Vec<String>>,
    pub modf: Option<Vec<ModfM>>,
}

pub type Grid = Vec<Vec<(u32, u32)>>; // [y][x] -> (flags, area)

impl WdtModel {
    pub fn wmo_only(&self) -> bool {
        self.flags & 1 != 0
    }
    pub fn has_ids(&self) -> bool {
        self.flags & 0x200 != 0
    }
    pub fn grid(&self) -> Grid {
        let mut g = vec![vec![(0u32, 0u32); 64]; 64];
        for y in 0..64u32 {
            for x in 0..64u32 {
                if self.fill.hits(x, y, 0) {
                    g[y as usize][x as usize] = (1 | (h(self.fill.seed, x, y, 1) & 0xFFFF_0002), h(self.fill.seed, x, y, 2));
                }
            }
        }
        for &(x, y, f, a) in &self.tiles {
            g[(y & 63) as usize][(x & 63) as usize] = (f, a);
        }
        g
    }
    /// [section][y][x]
    pub fn maid_table(&self) -> Option<Vec<Vec<Vec<u32>>>> {
        let m = self.maid.as_ref()?;
        let n = m.sections as usize;
        let mut t = vec![vec![vec![0u32; 64]; 64]; n];
        for s in 0..n.min(8) {
            for y in 0..64u32 {
                for x in 0..64u32 {
                    if m.fill.hits(x, y, s as u32 + 1) {
                        t[s][y as usize][x as usize] = h(m.fill.seed, x, y, 10 + s as u32) | 1;
                    }
                }
            }
        }
        for &(s, x, y, id) in &m.explicit {
            if (s as usize) < n.min(8) {
                t[s as usize][(y & 63) as usize][(x & 63) as usize] = id;
            }
        }
        Some(t)
    }

    /// Build the library value through its public API, the way `examples/create_wdt.rs` does.
    pub fn build(&self) -> Result<WdtFile, Fail> {
        let mut w = WdtFile::new(VERSIONS[self.version as usize]);
        w.mphd.flags = MphdFlags::from_bits_truncate(self.flags as u32 & !0x200);
        if self.has_ids() {
            w.mphd.set_file_data_ids(FileDataIds {
                lgt: self.ids[0],
                occ: self.ids[1],
                fogs: self.ids[2],
                mpv: self.ids[3],
                tex: self.ids[4],
                wdl: self.ids[5],
                pd4: self.ids[6],
            });
        } else {
            w.mphd.something = self.something;
            w.mphd.unused = self.unused;
        }
        let g = self.grid();
        for y in 0..64 {
            for x in 0..64 {
                let (f, a) = g[y][x];
                if (f, a) != (0, 0) {
                    let e = w.main.get_mut(x, y).ok_or_else(|| Fail::new("wdt-main-get-mut-none", format!("MainChunk::get_mut({x},{y}) is None")))?;
                    e.flags = f;
                    e.area_id = a;
                }
            }
        }
        if let Some(t) = self.maid_table() {
            let mut m = if t.len() == 8 { MaidChunk::new() } else { MaidChunk::with_section_count(t.len()) };
            for (s, sec) in t.iter().enumerate().take(8) {
                for y in 0..64 {
                    for x in 0..64 {
                        if sec[y][x] != 0 {
                            m.set(MaidSection::all()[s], x, y, sec[y][x])
                                .map_err(|e| Fail::new("wdt-maid-set-error", format!("MaidChunk::set(section {s},{x},{y}): {e}")))?;
                        }
                    }
                }
            }
            w.maid = Some(m);
        }
        if let Some(names) = &self.mwmo {
            let mut c = MwmoChunk::new();
            for n in names {
                c.add_filename(n.clone());
            }
            w.mwmo = Some(c);
        }
        if let Some(es) = &self.modf {
            let mut c = ModfChunk::new();
            for e in es {
                let fb = |i: usize| f32::from_bits(e.f[i]);
                c.add_entry(ModfEntry {
                    id: e.id,
                    unique_id: e.unique_id,
                    position: [fb(0), fb(1), fb(2)],
                    rotation: [fb(3), fb(4), fb(5)],
                    lower_bounds: [fb(6), fb(7), fb(8)],
                    upper_bounds: [fb(9), fb(10), fb(11)],
                    flags: e.flags,
                    doodad_set: e.doodad_set,
                    name_set: e.name_set,
                    scale: e.scale,
                });
            }
            w.modf = Some(c);
        }
        Ok(w)
    }

    pub fn present_tiles(g: &Grid) -> usize {
        g.iter().flatten().filter(|e| e.0 & 1 != 0).count()
    }
    pub fn asymmetric(g: &Grid) -> bool {
        (0..64).any(|y| (0..64).any(|x| g[y][x] != g[x][y]))
    }

    /// (class signature, non-trivial?)
    pub fn class(&self) -> (String, bool) {
        let g = self.grid();
        let n = Self::present_tiles(&g);
        let nonzero = g.iter().flatten().filter(|e| **e != (0, 0)).count();
        let gc = match n {
            0 if nonzero == 0 => "empty".to_string(),
            0 => "noadt".to_string(),
            1 => {
                let (x, y) = (0..64).flat_map(|y| (0..64).map(move |x| (x, y))).find(|&(x, y)| g[y][x].0 & 1 != 0).unwrap();
                let ex = x == 0 || x == 63;
                let ey = y == 0 || y == 63;
                if ex && ey {
                    format!("corner{}{}", (x == 63) as u8, (y == 63) as u8)
                } else if ex || ey {
                    "edge".to_string()
                } else {
                    "single".to_string()
                }
            }
            2..=64 => "sparse".to_string(),
            4096 => "dense".to_string(),
            _ => "partial".to_string(),
        };
        let asym = Self::asymmetric(&g);
        let cnt = |n: usize| match n {
            0 => "0",
            1 => "1",
            _ => "n",
        };
        let maid = match &self.maid {
            None => "-".to_string(),
            Some(m) => format!("{}{}", m.sections, if m.fill.kind != 0 || !m.explicit.is_empty() { "+" } else { "z" }),
        };
        let mwmo = match &self.mwmo {
            None => "-".to_string(),
            Some(v) => format!("{}{}", cnt(v.len()), if rule_has_mwmo(self.version, self.wmo_only()) { "" } else { "!" }),
        };
        let modf = match &self.modf {
            None => "-",
            Some(v) => cnt(v.len()),
        };
        let nt = asym || self.maid.is_some() || self.mwmo.is_some() || self.modf.is_some();
        (
            format!(
                "wdt:{}:{}:grid-{}:asym{}:maid{}:mwmo{}:modf{}:ids{}",
                VNAMES[self.version as usize],
                if self.wmo_only() { "wmo" } else { "terrain" },
                gc,
                asym as u8,
                maid,
                mwmo,
                modf,
                self.has_ids() as u8
            ),
            nt,
        )
    }
}

pub fn write_wdt(f: &WdtFile, what: &str) -> Result<Vec<u8>, Fail> {
    let mut buf = Vec::new();
    let r = guard("WdtWriter::write", || WdtWriter::new(&mut buf).write(f))?;
    if let Err(e) = r {
        vfail!(format!("wdt-write-error:{what}"), "WdtWriter::write ({what}) failed: {e}");
    }
    // the same file written over the start of a sink that already holds a longer one
    let mut cur = Cursor::new(vec![0xEEu8; buf.len() + 900]);
    let r = guard("WdtWriter::write(reused sink)", || WdtWriter::new(&mut cur).write(f))?;
    let pos = cur.position() as usize;
    let b2 = cur.into_inner();
    if r.is_err() || pos != buf.len() || b2[..pos.min(b2.len())] != buf[..] {
        vfail!(
            "wdt-write-depends-on-what-the-sink-held",
            "WdtWriter::write ({what}) into a sink holding {} older bytes leaves the stream at {pos} / differs from the {}-byte file written into an empty sink",
            buf.len() + 900,
            buf.len()
        );
    }
    Ok(buf)
}

pub fn read_wdt(bytes: &[u8], version: u8, what: &str) -> Result<WdtFile, Fail> {
    let r = guard("WdtReader::read", || WdtReader::new(Cursor::new(bytes), VERSIONS[version as usize]).read())?;
    match r {
        Ok(f) => Ok(f),
        Err(e) => Err(Fail::new(format!("wdt-read-error:{what}"), format!("WdtReader::read of the {what} failed: {e}"))),
    }
}

fn modf_ref(es: &[ModfM]) -> Vec<u8> {
    // SMMapObjDef: nameId, uniqueId, pos, rot, extents(min,max), flags, doodadSet, nameSet, scale
    let mut o = Le::default();
    for e in es {
        o.u32(e.id).u32(e.unique_id);
        for b in e.f {
            o.fbits(b);
        }
        o.u16(e.flags).u16(e.doodad_set).u16(e.name_set).u16(e.scale);
    }
    o.0
}

fn need_chunk<'a>(found: &[Option<&walk::ChunkRef>; 6], known: &[&[u8; 4]; 6], bytes: &'a [u8], i: usize, size: Option<usize>) -> Result<&'a [u8], Fail> {
    let name: String = known[i].iter().rev().map(|&b| b as char).collect();
    let c = found[i].ok_or_else(|| Fail::new(format!("wdt-written-chunk-missing:{name}"), format!("chunk {name} expected but not written")))?;
    if let Some(s) = size {
        if c.size != s {
            return Err(Fail::new(format!("wdt-written-chunk-size:{name}"), format!("chunk {name} has {} payload bytes, expected {s}", c.size)));
        }
    }
    Ok(c.payload(bytes))
}

/// what the walker found about the MWMO chunk
pub struct Walked {
    pub mwmo_written: bool,
}

/// Independent structural judge of the written bytes against the abstract model.
pub fn judge_bytes(m: &WdtModel, g: &Grid, maid: &Option<Vec<Vec<Vec<u32>>>>, bytes: &[u8]) -> Result<Walked, Fail> {
    let chunks = match walk::walk(bytes) {
        Ok(c) => c,
        Err(e) => vfail!("wdt-written-chunks-do-not-tile", "independent walker: {e}"),
    };
    let known: [&[u8; 4]; 6] = [b"REVM", b"DHPM", b"NIAM", b"DIAM", b"OMWM", b"FDOM"];
    let mut found: [Option<&walk::ChunkRef>; 6] = [None; 6];
    for c in &chunks {
        match known.iter().position(|k| **k == c.magic) {
            None => vfail!("wdt-written-unexpected-chunk", "writer emitted chunk {} at offset {}", c.name(), c.off),
            Some(i) => {
                if found[i].is_some() {
                    vfail!(format!("wdt-written-duplicate-chunk:{}", c.name()), "chunk {} written twice", c.name());
                }
                found[i] = Some(c);
            }
        }
    }
    if chunks.first().map(|c| &c.magic) != Some(b"REVM") {
        vfail!("wdt-written-MVER-not-first", "first chunk is {:?}", chunks.first().map(|c| c.name()));
    }
    let need = |i: usize, size: Option<usize>| need_chunk(&found, &known, bytes, i, size);
    let mver = need(0, Some(4))?;
    if u32_at(mver, 0) != 18 {
        vfail!("wdt-written-MVER-value", "MVER holds {}", u32_at(mver, 0));
    }
    let mphd = need(1, Some(32))?;
    if u32_at(mphd, 0) != m.flags as u32 {
        vfail!("wdt-written-MPHD-flags", "MPHD flags {:#x}, model {:#x}", u32_at(mphd, 0), m.flags);
    }
    let words: Vec<u32> = (1..8).map(|i| u32_at(mphd, i * 4)).collect();
    let want: Vec<u32> = if m.has_ids() { m.ids.to_vec() } else { std::iter::once(m.something).chain(m.unused).collect() };
    if words != want {
        vfail!(
            format!("wdt-written-MPHD-words:ids{}", m.has_ids() as u8),
            "MPHD words 1..8 = {:x?}, model {:x?}",
            words,
            want
        );
    }
    let main = need(2, Some(4096 * 8))?;
    for y in 0..64 {
        for x in 0..64 {
            let off = (y * 64 + x) * 8;
            let got = (u32_at(main, off), u32_at(main, off + 4));
            if got != g[y][x] {
                let sig = if got == g[x][y] { "wdt-written-MAIN-transposed" } else { "wdt-written-MAIN-entry-wrong" };
                vfail!(sig, "MAIN record {} (row y={y}, column x={x}) holds {:x?}, tile ({x},{y}) of the model is {:x?}", y * 64 + x, got, g[y][x]);
            }
        }
    }
    match maid {
        None => {
            if found[3].is_some() {
                vfail!("wdt-written-unexpected-chunk:MAID", "MAID written although the map has no file-id table");
            }
        }
        Some(t) => {
            let p = need(3, Some(t.len() * 4096 * 4))?;
            for (s, sec) in t.iter().enumerate() {
                for y in 0..64 {
                    for x in 0..64 {
                        let got = u32_at(p, ((s * 64 + y) * 64 + x) * 4);
                        if got != sec[y][x] {
                            let sig = if got == sec[x][y] { "wdt-written-MAID-transposed" } else { "wdt-written-MAID-entry-wrong" };
                            vfail!(sig, "MAID section {s} row {y} column {x} holds {got:#x}, model {:#x}", sec[y][x]);
                        }
                    }
                }
            }
        }
    }
    let mut mwmo_written = false;
    match (&m.mwmo, found[4]) {
        (None, Some(_)) => vfail!("wdt-written-unexpected-chunk:MWMO", "MWMO written although the map has none"),
        (None, None) => {}
        (Some(names), Some(c)) => {
            mwmo_written = true;
            let mut want = vec![];
            for n in names {
                want.extend_from_slice(n.as_bytes());
                want.push(0);
            }
            if c.payload(bytes) != want {
                vfail!("wdt-written-MWMO-payload", "MWMO payload differs from NUL-terminated names: {}", first_diff(c.payload(bytes), &want));
            }
        }
        (Some(_), None) => {
            // documented version rule: the writer drops MWMO only where this version's maps
            // of this kind have none
            if rule_has_mwmo(m.version, m.wmo_only()) {
                vfail!(
                    format!("wdt-written-chunk-missing:MWMO:{}", if m.wmo_only() { "wmo-only" } else { "pre-cata-terrain" }),
                    "{} {} map: MWMO is part of this version's layout but the writer dropped it",
                    VNAMES[m.version as usize],
                    if m.wmo_only() { "WMO-only" } else { "terrain" }
                );
            }
        }
    }
    match (&m.modf, found[5]) {
        (None, Some(_)) => vfail!("wdt-written-unexpected-chunk:MODF", "MODF written although the map has none"),
        (None, None) => {}
        (Some(_), None) => vfail!("wdt-written-chunk-missing:MODF", "MODF expected but not written"),
        (Some(es), Some(c)) => {
            let want = modf_ref(es);
            if c.payload(bytes) != want {
                vfail!("wdt-written-MODF-payload", "MODF payload differs from the 64-byte reference records: {}", first_diff(c.payload(bytes), &want));
            }
        }
    }
    Ok(Walked { mwmo_written })
}

fn cmp_main(f: &WdtFile, g: &Grid, sig: &str, what: &str) -> CaseResult {
    for y in 0..64 {
        for x in 0..64 {
            let e = f.main.get(x, y).ok_or_else(|| Fail::new(format!("{sig}:main-get-none"), format!("{what}: MainChunk::get({x},{y}) is None")))?;
            if (e.flags, e.area_id) != g[y][x] {
                let t = f.main.get(y, x).map(|e| (e.flags, e.area_id)) == Some(g[y][x]) && g[x][y] != g[y][x];
                vfail!(
                    format!("{sig}:main{}", if t { ":transposed" } else { "" }),
                    "{what}: tile ({x},{y}) is (flags {:#x}, area {}), expected (flags {:#x}, area {})",
                    e.flags,
                    e.area_id,
                    g[y][x].0,
                    g[y][x].1
                );
            }
            // accessor agreement
            if let Some(t) = f.get_tile(x, y) {
                if (t.x, t.y, t.flags, t.area_id) != (x, y, g[y][x].0, g[y][x].1) {
                    vfail!(format!("{sig}:get-tile"), "{what}: get_tile({x},{y}) = {t:?}, expected flags {:#x} area {}", g[y][x].0, g[y][x].1);
                }
            } else {
                vfail!(format!("{sig}:get-tile-none"), "{what}: get_tile({x},{y}) is None");
            }
        }
    }
    if f.main.entries.len() != 64 || f.main.entries.iter().any(|r| r.len() != 64) {
        vfail!(format!("{sig}:main-shape"), "{what}: MAIN is not 64x64");
    }
    Ok(())
}

fn cmp_maid(f: &WdtFile, t: &Option<Vec<Vec<Vec<u32>>>>, sig: &str, what: &str) -> CaseResult {
    match (t, &f.maid) {
        (None, None) => Ok(()),
        (None, Some(_)) => vfail!(format!("{sig}:maid-appeared"), "{what}: a MAID table appeared"),
        (Some(_), None) => vfail!(format!("{sig}:maid-lost"), "{what}: the MAID table is gone"),
        (Some(t), Some(m)) => {
            if m.section_count() != t.len() {
                vfail!(format!("{sig}:maid-sections"), "{what}: {} MAID sections, expected {}", m.section_count(), t.len());
            }
            for (s, sec) in t.iter().enumerate().take(8) {
                for y in 0..64 {
                    for x in 0..64 {
                        let got = m.get(MaidSection::all()[s], x, y);
                        if got != Some(sec[y][x]) {
                            vfail!(format!("{sig}:maid"), "{what}: MAID section {s} tile ({x},{y}) = {got:?}, expected {:#x}", sec[y][x]);
                        }
                    }
                }
            }
            Ok(())
        }
    }
}

/// write → walk → read → compare → second write
pub fn judge(m: &WdtModel) -> CaseResult {
    let f = m.build()?;
    let g = m.grid();
    let maid = m.maid_table();
    let b1 = write_wdt(&f, "first")?;
    let walked = judge_bytes(m, &g, &maid, &b1)?;
    let p = read_wdt(&b1, m.version, "written file")?;
    let sig = "wdt-readback-differs";
    if p.mver.version != 18 {
        vfail!(format!("{sig}:mver"), "parsed MVER {}", p.mver.version);
    }
    if p.mphd.flags.bits() != m.flags as u32 {
        vfail!(format!("{sig}:mphd-flags"), "parsed MPHD flags {:#x}, written {:#x}", p.mphd.flags.bits(), m.flags);
    }
    if m.has_ids() {
        let got = [
            p.mphd.lgt_file_data_id,
            p.mphd.occ_file_data_id,
            p.mphd.fogs_file_data_id,
            p.mphd.mpv_file_data_id,
            p.mphd.tex_file_data_id,
            p.mphd.wdl_file_data_id,
            p.mphd.pd4_file_data_id,
        ];
        let want: Vec<Option<u32>> = m.ids.iter().map(|&v| Some(v)).collect();
        if got.to_vec() != want {
            vfail!(format!("{sig}:mphd-file-ids"), "parsed file ids {:?}, written {:?}", got, m.ids);
        }
    } else {
        if (p.mphd.something, p.mphd.unused) != (m.something, m.unused) {
            vfail!(format!("{sig}:mphd-legacy-words"), "parsed ({:#x},{:x?}), written ({:#x},{:x?})", p.mphd.something, p.mphd.unused, m.something, m.unused);
        }
        if p.mphd.lgt_file_data_id.is_some() || p.mphd.pd4_file_data_id.is_some() {
            vfail!(format!("{sig}:mphd-file-ids-appeared"), "file ids present although flag 0x200 is clear");
        }
    }
    if p.is_wmo_only() != m.wmo_only() {
        vfail!(format!("{sig}:is-wmo-only"), "is_wmo_only() = {}", p.is_wmo_only());
    }
    cmp_main(&p, &g, sig, "read(write(x))")?;
    cmp_maid(&p, &maid, sig, "read(write(x))")?;
    // the struct the library itself considers equal (MAIN/MAID derive Eq)
    if p.main != f.main {
        vfail!(format!("{sig}:main-struct"), "parsed MainChunk != written MainChunk although all accessors agree");
    }
    if p.maid != f.maid {
        vfail!(format!("{sig}:maid-struct"), "parsed MaidChunk != written MaidChunk although all accessors agree");
    }
    let want_mwmo = if walked.mwmo_written { m.mwmo.clone() } else { None };
    let got_mwmo = p.mwmo.as_ref().map(|c| c.filenames.clone());
    if got_mwmo != want_mwmo {
        vfail!(format!("{sig}:mwmo"), "parsed MWMO {:?}, expected {:?}", got_mwmo, want_mwmo);
    }
    match (&m.modf, &p.modf) {
        (None, None) => {}
        (Some(es), Some(c)) => {
            if c.entries.len() != es.len() {
                vfail!(format!("{sig}:modf-count"), "parsed {} MODF entries, written {}", c.entries.len(), es.len());
            }
            for (i, (e, q)) in es.iter().zip(&c.entries).enumerate() {
                let qf: Vec<u32> = q.position.iter().chain(&q.rotation).chain(&q.lower_bounds).chain(&q.upper_bounds).map(|v| v.to_bits()).collect();
                if (q.id, q.unique_id, q.flags, q.doodad_set, q.name_set, q.scale) != (e.id, e.unique_id, e.flags, e.doodad_set, e.name_set, e.scale) || qf != e.f {
                    vfail!(format!("{sig}:modf-entry"), "MODF entry {i}: parsed {q:?}, written {e:?}");
                }
            }
        }
        (a, b) => vfail!(format!("{sig}:modf-presence"), "MODF written {} parsed {}", a.is_some(), b.is_some()),
    }
    let b2 = write_wdt(&p, "second")?;
    if b2 != b1 {
        vfail!(
            "wdt-second-write-differs",
            "write(read(write(x))) != write(x) (re-detected version {:?}): {}",
            p.version(),
            first_diff(&b1, &b2)
        );
    }
    Ok(())
}

/// convert_wdt(from = model version → to) keeps tile data, in memory and through the file
pub fn judge_convert(m: &WdtModel, to: u8) -> CaseResult {
    let mut f = m.build()?;
    let g = m.grid();
    let maid = m.maid_table();
    let (from_v, to_v) = (VERSIONS[m.version as usize], VERSIONS[to as usize]);
    let r = guard("convert_wdt", || convert_wdt(&mut f, from_v, to_v))?;
    if let Err(e) = r {
        vfail!("wdt-convert-error", "convert_wdt({from_v:?} -> {to_v:?}) failed: {e}");
    }
    let sig = "wdt-convert-loses-tile-data";
    cmp_main(&f, &g, sig, "after convert_wdt")?;
    let keep_maid = m.version >= BFA && to >= BFA;
    if keep_maid {
        cmp_maid(&f, &maid, sig, "after convert_wdt")?;
    }
    let b = write_wdt(&f, "converted")?;
    if let Err(e) = walk::walk(&b) {
        vfail!("wdt-converted-chunks-do-not-tile", "independent walker on the converted file: {e}");
    }
    let p = read_wdt(&b, to, "converted file")?;
    let sig = "wdt-converted-file-loses-tile-data";
    cmp_main(&p, &g, sig, "read(write(convert(x)))")?;
    if keep_maid {
        cmp_maid(&p, &maid, sig, "read(write(convert(x)))")?;
    }
    Ok(())
}

// ---------------------------------------------------------------------------------------
// generators

fn name_strategy() -> impl Strategy<Value = String> {
    prop_oneof![
        6 => "[A-Za-z0-9_]{1,10}(\\\\[A-Za-z0-9_ ]{1,10}){0,3}\\.wmo",
        2 => "[!-~]{1,20}",
        1 => "[^\\x00]{1,12}",
    ]
}

fn fbits() -> impl Strategy<Value = u32> {
    prop_oneof![
        4 => (-20000.0f32..20000.0).prop_map(|v| v.to_bits()),
        1 => any::<u32>(),
        1 => Just(0u32),
    ]
}

fn modf_strategy() -> impl Strategy<Value = ModfM> {
    (any::<u32>(), prop_oneof![Just(u32::MAX), Just(0), any::<u32>()], proptest::array::uniform12(fbits()), any::<u16>(), any::<u16>(), any::<u16>(), prop_oneof![Just(0u16), Just(1024), any::<u16>()])
        .prop_map(|(id, unique_id, f, flags, doodad_set, name_set, scale)| ModfM { id, unique_id, f, flags, doodad_set, name_set, scale })
}

pub fn fill_strategy() -> impl Strategy<Value = Fill> {
    prop_oneof![
        5 => Just(Fill::NONE),
        1 => any::<u32>().prop_map(|seed| Fill { kind: 1, seed, density: 255 }),
        4 => (any::<u32>(), 1u8..=255).prop_map(|(seed, density)| Fill { kind: 2, seed, density }),
    ]
}

fn coord() -> impl Strategy<Value = u8> {
    prop_oneof![3 => 0u8..64, 1 => Just(0u8), 1 => Just(63u8)]
}

/// Map definitions whose chunk presence follows the version rule (MAID only on 8.x+, MWMO
/// per `rule_has_mwmo`, MODF on WMO-only maps); off-rule corners (terrain map with names on
/// Cataclysm+, WMO-only map without MWMO/MODF, pre-Cataclysm terrain without MWMO, MAID
/// flag and chunk each alone) are mixed in at low rate.
pub fn strategy() -> impl Strategy<Value = WdtModel> {
    let head = (0u8..10, prop::bool::weighted(0.3), prop_oneof![1 => Just(0u16), 3 => any::<u16>()], any::<u32>(), proptest::array::uniform6(prop_oneof![2 => Just(0u32), 1 => any::<u32>()]), proptest::array::uniform7(any::<u32>()));
    let tiles = (fill_strategy(), prop::collection::vec((coord(), coord(), prop_oneof![3 => Just(1u32), 1 => any::<u32>()], prop_oneof![1 => 0u32..5000, 1 => any::<u32>()]), 0..8));
    let maid = (0u8..100, prop_oneof![6 => Just(8u8), 1 => 0u8..=9], fill_strategy(), prop::collection::vec((0u8..8, coord(), coord(), any::<u32>()), 0..8), 0u8..100);
    let objs = (0u8..100, prop::collection::vec(name_strategy(), 0..4), 0u8..100, prop::collection::vec(modf_strategy(), 0..4));
    (head, tiles, maid, objs).prop_map(|((version, wmo_only, fl, something, unused, ids), (fill, tiles), (maid_roll, sections, mfill, mexp, flag_roll), (mwmo_roll, mut names, modf_roll, mut modf))| {
        let mut flags = fl & !0x201;
        if wmo_only {
            flags |= 1;
        }
        let mut maid = None;
        if version >= BFA {
            // file-id table on most 8.x+ maps; flag and chunk each alone at low rate
            if maid_roll < 70 {
                maid = Some(MaidM { sections, fill: mfill, explicit: mexp });
                if flag_roll >= 5 {
                    flags |= 0x200;
                }
            } else if flag_roll < 20 {
                flags |= 0x200;
            }
        }
        let rule = rule_has_mwmo(version, wmo_only);
        let mwmo = if rule {
            if wmo_only {
                if names.is_empty() {
                    names.push("world\\wmo\\dungeon\\global.wmo".to_string());
                }
                if mwmo_roll < 5 { None } else { Some(names) }
            } else if mwmo_roll < 5 {
                None
            } else if mwmo_roll < 75 {
                Some(vec![])
            } else {
                Some(names)
            }
        } else if mwmo_roll < 10 {
            Some(names)
        } else {
            None
        };
        let modf = if wmo_only {
            if modf.is_empty() && modf_roll >= 10 {
                modf.push(ModfM { id: 0, unique_id: u32::MAX, f: [0; 12], flags: 0, doodad_set: 0, name_set: 0, scale: 0 });
            }
            if modf_roll < 5 { None } else { Some(modf) }
        } else if modf_roll < 8 {
            Some(modf)
        } else {
            None
        };
        WdtModel { version, flags, something, unused, ids, fill, tiles, maid, mwmo, modf }
    })
}

/// Deterministic grid of essential classes: every version × map kind × grid shape
/// (empty, dense, one tile at each corner and on each edge, asymmetric L shape).
pub fn essential_grid() -> Vec<(String, WdtModel)> {
    let mut out = vec![];
    let shapes: Vec<(&str, Fill, Vec<(u8, u8, u32, u32)>)> = vec![
        ("empty", Fill::NONE, vec![]),
        ("dense", Fill { kind: 1, seed: 7, density: 255 }, vec![]),
        ("corner00", Fill::NONE, vec![(0, 0, 1, 11)]),
        ("corner10", Fill::NONE, vec![(63, 0, 1, 12)]),
        ("corner01", Fill::NONE, vec![(0, 63, 1, 13)]),
        ("corner11", Fill::NONE, vec![(63, 63, 1, 14)]),
        ("edge-top", Fill::NONE, vec![(31, 0, 1, 15)]),
        ("edge-left", Fill::NONE, vec![(0, 31, 1, 16)]),
        ("edge-right", Fill::NONE, vec![(63, 20, 1, 17)]),
        ("edge-bottom", Fill::NONE, vec![(20, 63, 1, 18)]),
        ("asym-L", Fill::NONE, vec![(10, 20, 1, 1234), (11, 20, 1, 1235), (12, 20, 1, 1236), (10, 21, 3, 1237)]),
        ("asym-random", Fill { kind: 2, seed: 99, density: 40 }, vec![]),
    ];
    for version in 0u8..10 {
        for wmo_only in [false, true] {
            for (sname, fill, tiles) in &shapes {
                for with_maid in [false, true] {
                    if with_maid && version < BFA {
                        continue;
                    }
                    let mut flags = if version >= 2 { 0x000Eu16 } else { 0 };
                    if wmo_only {
                        flags |= 1;
                    }
                    let maid = with_maid.then(|| {
                        flags |= 0x200;
                        MaidM { sections: 8, fill: Fill { kind: 2, seed: 5 + version as u32, density: 30 }, explicit: vec![(0, 63, 0, 777), (7, 0, 63, 778), (3, 10, 20, 779)] }
                    });
                    let mwmo = if wmo_only {
                        Some(vec!["World\\wmo\\Dungeon\\KL_OrgrimmarLavaDungeon\\LavaDungeon.wmo".to_string()])
                    } else if rule_has_mwmo(version, false) {
                        Some(vec![])
                    } else {
                        None
                    };
                    let modf = wmo_only.then(|| {
                        vec![ModfM {
                            id: 0,
                            unique_id: if version < 3 { u32::MAX } else { 0 },
                            f: [1.5f32, -2.25, 3.0, 0.0, 90.0, 0.0, -100.0, -200.0, -50.0, 100.0, 200.0, 50.0].map(f32::to_bits),
                            flags: 2,
                            doodad_set: 1,
                            name_set: 3,
                            scale: if version < 3 { 0 } else { 1024 },
                        }]
                    });
                    let m = WdtModel {
                        version,
                        flags,
                        something: 0,
                        unused: [0; 6],
                        ids: [101, 102, 103, 104, 105, 106, 107],
                        fill: fill.clone(),
                        tiles: tiles.clone(),
                        maid,
                        mwmo,
                        modf,
                    };
                    out.push((format!("{}:{}:{}:maid{}", VNAMES[version as usize], if wmo_only { "wmo" } else { "terrain" }, sname, with_maid as u8), m));
                }
            }
        }
    }
    out
}
