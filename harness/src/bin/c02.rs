//! C02 — archives interoperate with an independent implementation of the MPQ format.
//! Direction A: ArchiveBuilder output is parsed and extracted by `refmpq`.
//! Direction B: archives serialised by `refmpq`'s writer are opened and read by wow-mpq.
use proptest::prelude::*;
use serde_json::json;
use vcheck::engine::{self, pt, CaseResult, Check};
use vcheck::gens::mpq::*;
use vcheck::oracle::refcrypt as rc;
use vcheck::oracle::refmpq::{self, RefFile, RefSpec};
use vcheck::vfail;
use wow_mpq::Archive;

static METHODS: [u8; 3] = [M_NONE, M_ZLIB, M_BZIP2];

fn params() -> GenParams {
    GenParams {
        versions: (1, 2),
        max_shift: 4,
        methods: &METHODS,
        max_files: 10,
        allow_enc: true,
        allow_crcs: true,
        allow_attrs: false,
        many_tiny: true,
    }
}

fn err_kind(e: &wow_mpq::Error) -> String {
    format!("{e:?}").chars().take_while(|c| c.is_alphanumeric()).collect()
}

// ------------------------------------------------------------------------------ direction A

fn check_builder_to_ref(check: &Check, spec: &ArchiveSpec, origin: &str) -> CaseResult {
    let dir = engine::scratch("c02a");
    let path = dir.path().join("a.mpq");
    let built = engine::guard("ArchiveBuilder::build", || spec.builder().build(&path))?;
    if built.is_err() {
        check.bump("build_err", 1);
        check.count(&format!("A:{origin}:build-err"), false);
        return Ok(());
    }
    let bytes = std::fs::read(&path).expect("read archive");
    let ar = match refmpq::parse(&bytes) {
        Ok(a) => a,
        Err(e) => vfail!(
            "ref-cannot-parse-builder-archive",
            "reference parser rejects the builder's archive: {e} — {}",
            spec.summary()
        ),
    };
    // header agreement
    let want_ver = spec.version as u16 - 1;
    if ar.h.version != want_ver {
        vfail!("header-version-field", "format version field {} for V{}", ar.h.version, spec.version);
    }
    if ar.h.shift != spec.shift {
        vfail!("header-sector-shift-field", "shift field {} != {}", ar.h.shift, spec.shift);
    }
    if ar.h.base != 0 {
        vfail!("header-not-at-offset-zero", "header found at {}", ar.h.base);
    }
    if ar.h.archive_size as usize != bytes.len() {
        vfail!(
            "header-archive-size-field",
            "archive size field {} but file has {} bytes — {}",
            ar.h.archive_size,
            bytes.len(),
            spec.summary()
        );
    }
    let sector = spec.sector();
    let mut chain = false;
    for (i, f) in spec.files.iter().enumerate() {
        let want = spec.content(i);
        let has_sep = f.name.contains('\\') || f.name.contains('/');
        let st = if want.len() <= sector { "single" } else { "multi" };
        let class = format!(
            "A:{origin}:V{}:sh{}:{}:{:?}:{}:{}:sep{}",
            spec.version,
            spec.shift,
            method_name(f.method),
            f.enc,
            f.len.class(sector),
            st,
            has_sep as u8
        );
        let (bi, probes) = ar.find(f.name.as_bytes());
        chain |= probes > 1;
        let nontrivial = f.enc != Enc::None || (st == "multi" && f.method != M_NONE) || probes > 1;
        check.count(&class, nontrivial);
        check.sample(&format!("A{}{:?}{}", method_name(f.method), f.enc, st), || {
            json!({"dir":"builder→ref","name":f.name,"len":want.len(),"method":method_name(f.method),"enc":format!("{:?}",f.enc),"probes":probes})
        });
        let r: CaseResult = (|| {
            let Some(bi) = bi else {
                vfail!(
                    "ref-probing-does-not-find-name",
                    "reference probing does not find {:?} in the builder's hash table — {}",
                    f.name,
                    spec.summary()
                );
            };
            let be = ar.block[bi];
            if be.fsize as usize != want.len() {
                vfail!("block-file-size-field", "block entry size {} != {}", be.fsize, want.len());
            }
            // the hash entry carries the language the file was added under and platform 0 (published layout:
            // name A, name B, locale u16, platform u16, block index)
            if let Some(he) = ar.hash.iter().find(|h| h.block as usize == bi && h.block != refmpq::HASH_EMPTY && h.block != refmpq::HASH_DELETED) {
                if f.locale != 0 {
                    check.bump("A:files-with-a-language-id", 1);
                }
                if he.locale != f.locale || he.platform != 0 {
                    vfail!(
                        "hash-entry-locale-platform-fields",
                        "{:?} was added with language id {:#06x}; the reference reads locale {:#06x}, platform {:#06x} from its hash entry — {}",
                        f.name,
                        f.locale,
                        he.locale,
                        he.platform,
                        spec.summary()
                    );
                }
            }
            match ar.extract(f.name.as_bytes()) {
                Ok(got) if got == want => Ok(()),
                other => {
                    // differential diagnosis: which deviation from the published format explains it?
                    let detail = match &other {
                        Ok(g) => format!("extracted {} bytes that differ from the {} added", g.len(), want.len()),
                        Err(e) => format!("reference extraction failed: {e}"),
                    };
                    let enc = f.enc != Enc::None;
                    let sig = if enc && has_sep {
                        "encrypted-file-key-not-from-plain-name".to_string()
                    } else if enc {
                        format!("encrypted-file-not-extractable-by-reference:{st}")
                    } else if st == "multi" && be.flags & refmpq::F_COMPRESS == 0 {
                        "uncompressed-sectored-file-layout".to_string()
                    } else {
                        format!("plain-file-not-extractable-by-reference:{}:{st}", method_name(f.method))
                    };
                    vfail!(
                        sig,
                        "{detail}; file {:?} len {} method {} enc {:?} flags {:#x} csize {} — {}",
                        f.name,
                        want.len(),
                        method_name(f.method),
                        f.enc,
                        be.flags,
                        be.csize,
                        spec.summary()
                    )
                }
            }
        })();
        if let Err(fl) = r {
            if check.is_known(&fl.signature) {
                check.known_hit(&fl.signature, &fl.message);
                continue;
            }
            return Err(fl);
        }
    }
    if chain {
        check.bump("A_archives_with_probe_chain", 1);
    }
    // special file readable too
    if spec.listfile {
        if let Err(e) = ar.extract(b"(listfile)") {
            vfail!("ref-cannot-extract-listfile", "reference cannot extract (listfile): {e} — {}", spec.summary());
        }
    }
    Ok(())
}

// ------------------------------------------------------------------------------ direction B

fn ref_name() -> impl Strategy<Value = String> {
    name_strategy()
}

fn ref_file(max_sectors_half: u8) -> impl Strategy<Value = RefFile> {
    (
        ref_name(),
        class_strategy(),
        len_strategy(max_sectors_half),
        any::<u32>(),
        prop_oneof![Just(0u8), Just(0x02u8), Just(0x10u8)],
        prop_oneof![3 => Just(false), 1 => Just(true)],
        enc_strategy(),
        prop_oneof![3 => Just(0u16), 1 => 1u16..700],
        prop_oneof![2 => Just(false), 1 => Just(true)],
    )
        .prop_map(|(name, data_class, len, seed, method, single_unit, enc, gap, crc)| RefFile {
            name,
            data_class,
            len: len.resolve(512), // resolved against the real shift later
            seed,
            method,
            single_unit,
            encrypted: enc != Enc::None,
            fix_key: enc == Enc::FixKey,
            gap,
            crc,
        })
}

fn ref_spec() -> impl Strategy<Value = RefSpec> {
    (any::<bool>(), prop_oneof![12 => 0u16..=3, 1 => 4u16..=8], 2u8..=8, prop_oneof![3 => Just(0u8), 1 => 1u8..5], any::<bool>())
        .prop_flat_map(|(v2, shift, hash_log2, lead_units, reverse)| {
            let mh: u8 = if shift == 0 { 12 } else if shift <= 3 { 6 } else { 4 };
            (
                proptest::collection::vec(ref_file(mh), 0..if shift <= 3 { 10 } else { 4 }),
                proptest::collection::vec("[a-z]{1,6}\\.gho", 0..6),
            )
                .prop_map(move |(mut files, ghosts)| {
                    let ss = 512usize << shift;
                    for f in files.iter_mut() {
                        // len was resolved against 512: rescale to the real sector size
                        f.len = f.len / 512 * ss + f.len % 512;
                    }
                    let mut seen = std::collections::BTreeSet::new();
                    files.retain(|f| seen.insert(rc::fold(f.name.as_bytes())));
                    let ghosts: Vec<String> = ghosts
                        .into_iter()
                        .filter(|g| seen.insert(rc::fold(g.as_bytes())))
                        .collect();
                    RefSpec { v2, shift, hash_log2, lead_units, ghosts, reverse, files }
                })
        })
}

fn check_ref_to_lib(check: &Check, spec: &RefSpec, origin: &str) -> CaseResult {
    let bytes = spec.write();
    // the reference must read its own output, else the oracle is broken (not the code)
    let own = refmpq::parse(&bytes).map_err(|e| engine::Fail::new("ORACLE-BROKEN", e))?;
    for (i, f) in spec.files.iter().enumerate() {
        match own.extract(f.name.as_bytes()) {
            Ok(d) if d == spec.content(i) => {}
            other => {
                return Err(engine::Fail::new(
                    "ORACLE-BROKEN",
                    format!("refmpq cannot read back its own file {:?}: {:?}", f.name, other.map(|d| d.len())),
                ));
            }
        }
    }
    let dir = engine::scratch("c02b");
    let path = dir.path().join("r.mpq");
    std::fs::write(&path, &bytes).expect("write");
    let ss = 512usize << spec.shift;
    let mut ar = match engine::guard("Archive::open", || Archive::open(&path))? {
        Ok(a) => a,
        Err(e) => vfail!(
            format!("open-fails-on-reference-archive:{}:lead{}", err_kind(&e), (spec.lead_units > 0) as u8),
            "Archive::open failed on a format-conformant archive: {e} — {spec:?}"
        ),
    };
    for (i, f) in spec.files.iter().enumerate() {
        let want = spec.content(i);
        let has_sep = f.name.contains('\\') || f.name.contains('/');
        let single = f.single_unit || want.is_empty();
        let st = if single { "single" } else if want.len() <= ss { "1sector" } else { "multi" };
        let (_, probes) = own.find(f.name.as_bytes());
        let class = format!(
            "B:{origin}:v2={}:sh{}:m{:#x}:enc{}{}:{}:sep{}:lead{}:chain{}",
            spec.v2 as u8,
            spec.shift,
            f.method,
            f.encrypted as u8,
            f.fix_key as u8,
            st,
            has_sep as u8,
            (spec.lead_units > 0) as u8,
            (probes > 1) as u8
        );
        let nontrivial = f.encrypted || (st == "multi" && f.method != 0) || probes > 1;
        check.count(&class, nontrivial);
        check.sample(&format!("B{}{}{}", f.method, f.encrypted, st), || {
            json!({"dir":"ref→lib","name":f.name,"len":want.len(),"method":f.method,"encrypted":f.encrypted,"fix_key":f.fix_key,"storage":st,"probes":probes,"lead_units":spec.lead_units})
        });
        let r: CaseResult = (|| {
            for sp in spellings(&f.name, f.seed) {
                let got = match engine::guard("Archive::read_file", || ar.read_file(&sp))? {
                    Ok(g) => g,
                    Err(e) => {
                        let sig = if !single && f.method == 0 {
                            format!("uncompressed-sectored-file-layout:enc{}", f.encrypted as u8)
                        } else if f.encrypted && has_sep {
                            "encrypted-file-key-not-from-plain-name".to_string()
                        } else {
                            format!("lib-read-error:{}:m{:#x}:enc{}:{st}", err_kind(&e), f.method, f.encrypted as u8)
                        };
                        vfail!(sig, "read_file({sp:?}) failed on a reference archive: {e} — file {f:?} — spec v2={} shift={} lead={}", spec.v2, spec.shift, spec.lead_units)
                    }
                };
                if got != want {
                    let sig = if !single && f.method == 0 {
                        format!("uncompressed-sectored-file-layout:enc{}", f.encrypted as u8)
                    } else if f.encrypted && has_sep {
                        "encrypted-file-key-not-from-plain-name".to_string()
                    } else if f.encrypted {
                        format!("lib-misreads-encrypted-reference-file:m{:#x}:{st}", f.method)
                    } else {
                        format!("lib-misreads-reference-file:m{:#x}:{st}", f.method)
                    };
                    let first = got.iter().zip(want.iter()).position(|(a, b)| a != b);
                    vfail!(sig, "read_file({sp:?}) returned {} bytes, reference stored {} bytes, first difference at {:?} — file {f:?} — spec v2={} shift={} lead={}", got.len(), want.len(), first, spec.v2, spec.shift, spec.lead_units)
                }
            }
            Ok(())
        })();
        if let Err(fl) = r {
            if check.is_known(&fl.signature) {
                check.known_hit(&fl.signature, &fl.message);
                continue;
            }
            return Err(fl);
        }
    }
    // ghosts and fresh names are absent
    for g in spec.ghosts.iter().map(|s| s.as_str()).chain(["nope.bin"]) {
        match engine::guard("Archive::find_file", || ar.find_file(g))? {
            Ok(None) => {}
            Ok(Some(_)) => vfail!("deleted-or-absent-name-found", "find_file({g:?}) found a deleted/absent name — {spec:?}"),
            Err(e) => vfail!(format!("absent-name-find-error:{}", err_kind(&e)), "find_file({g:?}): {e}"),
        }
    }
    Ok(())
}

fn grid_b() -> Vec<RefSpec> {
    let mut v = vec![];
    for v2 in [false, true] {
        for shift in [0u16, 3] {
            for lead in [0u8, 2] {
                let ss = 512usize << shift;
                let mut files = vec![];
                let mut k = 0;
                for method in [0u8, 0x02, 0x10] {
                    for (enc, fix) in [(false, false), (true, false), (true, true)] {
                        for (single, len) in [(true, 300), (true, ss * 2 + 5), (false, ss - 1), (false, ss * 2 + 5), (false, ss * 3)] {
                            files.push(RefFile {
                                name: if k % 2 == 0 { format!("Dir\\f{k}.bin") } else { format!("f{k}.bin") },
                                data_class: if k % 3 == 0 { ContentClass::Random } else { ContentClass::Text },
                                len,
                                seed: k as u32,
                                method,
                                single_unit: single,
                                encrypted: enc,
                                fix_key: fix,
                                gap: if k % 5 == 0 { 13 } else { 0 },
                                crc: k % 3 == 1,
                            });
                            k += 1;
                        }
                    }
                }
                v.push(RefSpec { v2, shift, hash_log2: 4, lead_units: lead, ghosts: vec!["gone.gho".into(), "gone2.gho".into()], reverse: lead > 0, files });
            }
        }
    }
    // large sectors (32 KiB, 128 KiB) with content that standard zlib / bzip2 shrink to a few dozen bytes:
    // what another implementation writes for padded or flat game data; ratios of several thousand to one
    for (v2, shift) in [(false, 6u16), (true, 8), (false, 8)] {
        let ss = 512usize << shift;
        let mut files = vec![];
        let mut k = 0;
        for method in [0x02u8, 0x10] {
            for (enc, fix) in [(false, false), (true, false), (true, true)] {
                for class in [ContentClass::Constant, ContentClass::Period, ContentClass::Sparse, ContentClass::LowEntropy, ContentClass::Text] {
                    let (single, len) = [(false, ss), (false, ss * 2 + 5), (true, ss + ss / 2), (false, ss - 1)][k % 4];
                    files.push(RefFile {
                        name: format!("Big\\s{shift}_{k}.bin"),
                        data_class: class,
                        len,
                        seed: 40 + k as u32,
                        method,
                        single_unit: single,
                        encrypted: enc,
                        fix_key: fix,
                        gap: 0,
                        crc: k % 3 == 1,
                    });
                    k += 1;
                }
            }
        }
        v.push(RefSpec { v2, shift, hash_log2: 6, lead_units: 0, ghosts: vec!["gone.gho".into()], reverse: false, files });
    }
    v
}

fn grid_a() -> Vec<ArchiveSpec> {
    let mut v = vec![];
    for version in 1..=2u8 {
        for shift in [0u16, 3] {
            for &method in METHODS.iter() {
                for enc in [Enc::None, Enc::Key, Enc::FixKey] {
                    let files = [0i16, 3, 300]
                        .iter()
                        .map(|d| LenSpec { halves: 0, delta: *d })
                        .chain([(2, -1), (2, 1), (5, 0), (6, 2)].iter().map(|(h, d)| LenSpec { halves: *h, delta: *d }))
                        .enumerate()
                        .map(|(i, len)| FileSpec {
                            name: if i % 2 == 0 { format!("top{i}.dat") } else { format!("Sub\\Dir/file{i}.dat") },
                            class: if i % 3 == 0 { ContentClass::Random } else { ContentClass::Text },
                            len,
                            seed: i as u32 * 7,
                            method,
                            enc,
                            locale: if i % 3 == 1 { 0x409 } else { 0 },
                        })
                        .collect();
                    v.push(ArchiveSpec { version, shift, crcs: v.len() % 2 == 1, attrs: Attrs::None, listfile: true, compress_tables: false, table_method: M_ZLIB, files });
                }
            }
        }
    }
    v
}

fn main() {
    let (check, _args) = Check::new("C02", "exploration");
    check.set_rule(
        "direction A: archives from the C01 generator restricted to the published subset (V1/V2, classic tables, \
         none/zlib/bzip2, plain/encrypted/fix-key, sector checksums on/off) are parsed by the independent refmpq reader: header \
         fields, table decryption with the fixed keys, reference probing of every name, bit-identical extraction. \
         direction B: abstract archives serialised by refmpq's writer (hash sizes 4..256, probe chains through DELETED \
         markers, gaps, reversed order, header at a 512-aligned offset > 0 after junk, stored/zlib/bzip2, single-unit or \
         sectored, plain/encrypted/fix-key with the key from the plain name and trailing bytes in clear) are opened by \
         Archive::open and every file is read under 5 spellings. One evaluation = one file in one direction. \
         non-trivial = encrypted, or multi-sector compressed, or found through a probe chain longer than 1; distinct = \
         direction × version × shift × method × enc × size/storage class × separator-in-name × lead × chain",
    );
    check.assume("refmpq is my reading of the published format (StormLib itself is not in the image)");
    check.assume("std crates flate2/bzip2 are correct implementations of zlib/bzip2");

    if let Err(e) = rc::self_check() {
        check.inconclusive(&format!("oracle self-check failed: {e}"));
        check.finish();
    }

    if let Some(p) = check.replay.clone() {
        let v: serde_json::Value = serde_json::from_str(&std::fs::read_to_string(&p).expect("replay")).expect("json");
        let c = &v["case"];
        let r = if c["dir"] == "A" {
            let spec: ArchiveSpec = serde_json::from_value(c["spec"].clone()).expect("spec");
            check_builder_to_ref(&check, &spec, "replay")
        } else {
            let spec: RefSpec = serde_json::from_value(c["spec"].clone()).expect("spec");
            check_ref_to_lib(&check, &spec, "replay")
        };
        if let Err(f) = r {
            check.fail(&f, c.clone());
        }
        check.count("replay-pad", true);
        check.finish();
    }

    for s in grid_a() {
        if let Err(f) = check_builder_to_ref(&check, &s, "grid") {
            check.fail(&f, json!({"dir":"A","spec":s}));
        }
    }
    for s in grid_b() {
        if let Err(f) = check_ref_to_lib(&check, &s, "grid") {
            if f.signature == "ORACLE-BROKEN" {
                check.inconclusive(&format!("refmpq self round-trip failed: {}", f.message));
            } else {
                check.fail(&f, json!({"dir":"B","spec":s}));
            }
        }
    }

    let n = check.tier.pick(8_000u32, 120_000);
    pt::run(
        &check,
        "c02-A",
        n,
        pt::Opts::default(),
        || archive_strategy(params()),
        |s| json!({"dir":"A","spec":s}),
        |s| check_builder_to_ref(&check, s, "rnd"),
    );
    pt::run(
        &check,
        "c02-B",
        n,
        pt::Opts::default(),
        ref_spec,
        |s| json!({"dir":"B","spec":s}),
        |s| check_ref_to_lib(&check, s, "rnd"),
    );
    if check.classes_with_prefix("A:grid") == 0 || check.classes_with_prefix("B:grid") == 0 {
        check.inconclusive("a grid direction produced no evaluations");
    }
    check.finish();
}
