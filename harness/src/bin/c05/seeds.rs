//! Valid seed files for the parser-totality fuzzer (C05).
//!
//! Every seed is built deterministically (fixed constants, own splitmix stream, no clock, no
//! hash-map iteration) with the crates' own public writers/builders where writer and parser
//! agree, and hand-encoded in the layout the *parser* reads where they are known to disagree
//! (open findings of C13/C15): such seeds carry `hand` / `fixed` in their name.
//!
//! Naming: `<version>-<what is inside>`; WDT/WDL/M2/ADT names start with the version token the
//! file was written for (`WdtReader::new` needs it).
#![allow(dead_code)]

use std::io::Cursor;

pub struct Seed {
    pub format: &'static str,
    pub name: String,
    pub bytes: Vec<u8>,
}

/// deterministic, 3..10 seeds per format
pub fn format_seeds() -> Vec<Seed> {
    let mut v = Vec::new();
    m2s::seeds(&mut v);
    skins::seeds(&mut v);
    anims::seeds(&mut v);
    adts::seeds(&mut v);
    wmos::seeds(&mut v);
    blps::seeds(&mut v);
    dbcs::seeds(&mut v);
    wdts::seeds(&mut v);
    wdls::seeds(&mut v);
    attrs::seeds(&mut v);
    listfiles::seeds(&mut v);
    v
}

fn push(v: &mut Vec<Seed>, format: &'static str, name: impl Into<String>, bytes: Vec<u8>) {
    v.push(Seed { format, name: name.into(), bytes });
}

// ---------------------------------------------------------------------------------------
// shared helpers

/// splitmix64
pub struct Sm(pub u64);
impl Sm {
    pub fn next(&mut self) -> u64 {
        self.0 = self.0.wrapping_add(0x9e37_79b9_7f4a_7c15);
        let mut z = self.0;
        z = (z ^ (z >> 30)).wrapping_mul(0xbf58_476d_1ce4_e5b9);
        z = (z ^ (z >> 27)).wrapping_mul(0x94d0_49bb_1331_11eb);
        z ^ (z >> 31)
    }
    pub fn u32(&mut self) -> u32 {
        (self.next() >> 32) as u32
    }
    pub fn u16(&mut self) -> u16 {
        (self.next() >> 40) as u16
    }
    pub fn u8(&mut self) -> u8 {
        (self.next() >> 48) as u8
    }
    pub fn below(&mut self, n: u32) -> u32 {
        if n == 0 { 0 } else { (((self.next() >> 32) * n as u64) >> 32) as u32 }
    }
    /// ordinary finite float in [-1000, 1000] with 1/16 steps
    pub fn f(&mut self) -> f32 {
        (self.below(32_001) as f32 - 16_000.0) / 16.0
    }
    pub fn f3(&mut self) -> [f32; 3] {
        [self.f(), self.f(), self.f()]
    }
    pub fn bytes(&mut self, n: usize) -> Vec<u8> {
        let mut v = Vec::with_capacity(n + 8);
        while v.len() < n {
            v.extend(self.next().to_le_bytes());
        }
        v.truncate(n);
        v
    }
    /// n little-endian ordinary floats
    pub fn fbytes(&mut self, n: usize) -> Vec<u8> {
        (0..n).flat_map(|_| self.f().to_le_bytes()).collect()
    }
}

/// byte sink for hand-encoded files
#[derive(Default)]
pub struct W(pub Vec<u8>);
impl W {
    pub fn u8(&mut self, x: u8) -> &mut Self {
        self.0.push(x);
        self
    }
    pub fn u16(&mut self, x: u16) -> &mut Self {
        self.0.extend(x.to_le_bytes());
        self
    }
    pub fn i16(&mut self, x: i16) -> &mut Self {
        self.0.extend(x.to_le_bytes());
        self
    }
    pub fn u32(&mut self, x: u32) -> &mut Self {
        self.0.extend(x.to_le_bytes());
        self
    }
    pub fn f32(&mut self, x: f32) -> &mut Self {
        self.0.extend(x.to_le_bytes());
        self
    }
    pub fn fs(&mut self, x: &[f32]) -> &mut Self {
        for v in x {
            self.f32(*v);
        }
        self
    }
    pub fn raw(&mut self, x: &[u8]) -> &mut Self {
        self.0.extend_from_slice(x);
        self
    }
    pub fn zeros(&mut self, n: usize) -> &mut Self {
        self.0.extend(std::iter::repeat_n(0u8, n));
        self
    }
    /// NUL-padded fixed-width string
    pub fn fixstr(&mut self, s: &str, n: usize) -> &mut Self {
        let b = s.as_bytes();
        let k = b.len().min(n);
        self.0.extend_from_slice(&b[..k]);
        self.zeros(n - k)
    }
    pub fn len(&self) -> usize {
        self.0.len()
    }
}

/// IFF chunk with the magic stored reversed on disk (WMO / ADT / WDT / WDL convention):
/// `rck(out, "MVER", data)` writes `REVM`, size, data
pub fn rck(out: &mut Vec<u8>, magic: &str, data: &[u8]) {
    let m = magic.as_bytes();
    out.extend_from_slice(&[m[3], m[2], m[1], m[0]]);
    out.extend_from_slice(&(data.len() as u32).to_le_bytes());
    out.extend_from_slice(data);
}

/// IFF chunk with the magic in reading order (chunked M2)
pub fn fck(out: &mut Vec<u8>, magic: &[u8; 4], data: &[u8]) {
    out.extend_from_slice(magic);
    out.extend_from_slice(&(data.len() as u32).to_le_bytes());
    out.extend_from_slice(data);
}

fn cstrings(names: &[&str]) -> Vec<u8> {
    let mut v = vec![];
    for n in names {
        v.extend_from_slice(n.as_bytes());
        v.push(0);
    }
    v
}

fn u32at(b: &[u8], p: usize) -> u32 {
    u32::from_le_bytes([b[p], b[p + 1], b[p + 2], b[p + 3]])
}
fn put32(b: &mut [u8], p: usize, x: u32) {
    b[p..p + 4].copy_from_slice(&x.to_le_bytes());
}

// ---------------------------------------------------------------------------------------
// M2 models (M2Model::write; texture names patched in afterwards, see `patch_texture_names`)

mod m2s {
    use super::*;
    use wow_m2::chunks::M2Attachment;
    use wow_m2::chunks::animation::{
        M2Animation, M2AnimationBlock, M2AnimationTrack, M2InterpolationType, M2Range,
    };
    use wow_m2::chunks::bone::{M2Bone, M2BoneFlags};
    use wow_m2::chunks::camera::M2Camera;
    use wow_m2::chunks::color_animation::{M2Color, M2ColorAnimation};
    use wow_m2::chunks::event::M2Event;
    use wow_m2::chunks::light::{M2Light, M2LightType};
    use wow_m2::chunks::m2_track::{M2CompQuat, M2Track, M2TrackBase};
    use wow_m2::chunks::material::{M2BlendMode, M2Material, M2RenderFlags};
    use wow_m2::chunks::particle_emitter::M2ParticleEmitter;
    use wow_m2::chunks::ribbon_emitter::M2RibbonEmitter;
    use wow_m2::chunks::texture::{M2Texture, M2TextureFlags, M2TextureType};
    use wow_m2::chunks::texture_animation::{M2TextureAnimation, M2TextureAnimationType};
    use wow_m2::chunks::transparency_animation::M2TransparencyAnimation;
    use wow_m2::chunks::vertex::M2Vertex;
    use wow_m2::common::{C2Vector, C3Vector, FixedString, M2Array, M2ArrayString, M2Parse, M2Vec};
    use wow_m2::header::{M2Header, M2ModelFlags};
    use wow_m2::model::*;
    use wow_m2::{M2Model, M2Version};

    #[derive(Default, Clone)]
    pub struct Feat {
        pub name: Option<&'static str>,
        pub gseq: usize,
        pub seqs: usize,
        pub bones: usize,
        /// number of key frames on the tracks of every second bone (0 = static bones)
        pub bone_keys: u32,
        pub verts: usize,
        /// texture file names (empty string = hard-coded texture without a name)
        pub textures: Vec<&'static str>,
        pub materials: usize,
        pub lookups: bool,
        pub bounds: usize,
        pub attachments: usize,
        pub events: usize,
        pub lights: usize,
        pub cameras: usize,
        pub ribbons: usize,
        pub particles: usize,
        pub tex_anims: usize,
        pub color_anims: usize,
        pub transp_anims: usize,
        /// key frames on the tracks of the animated records above
        pub block_keys: u32,
        pub emb_skins: usize,
    }

    struct Ctx {
        next: u32,
        sm: Sm,
    }
    impl Ctx {
        /// unique non-zero "original offset" (any unique value behaves the same for the writer)
        fn fake(&mut self) -> u32 {
            self.next += 0x1000;
            self.next
        }
    }

    fn c3(sm: &mut Sm) -> C3Vector {
        C3Vector { x: sm.f(), y: sm.f(), z: sm.f() }
    }

    fn interp(i: u32) -> M2InterpolationType {
        M2InterpolationType::from_u16((i % 4) as u16).unwrap_or(M2InterpolationType::Linear)
    }

    fn ts_bytes(n: u32) -> Vec<u8> {
        (0..n).flat_map(|i| (i * 33).to_le_bytes()).collect()
    }

    fn val_bytes(sm: &mut Sm, elem: usize, n: u32) -> Vec<u8> {
        if elem % 4 == 0 && elem != 8 {
            sm.fbytes(elem / 4 * n as usize)
        } else {
            sm.bytes(elem * n as usize)
        }
    }

    #[allow(clippy::too_many_arguments)]
    fn bone_track<T>(
        ctx: &mut Ctx,
        n: u32,
        vn: u32,
        elem: usize,
        bone_index: usize,
        tt: TrackType,
        raw: &mut Vec<BoneAnimationRaw>,
    ) -> M2Track<T> {
        if n == 0 {
            return M2Track::new();
        }
        let with_rng = vn < 264;
        let (ts_off, val_off) = (ctx.fake(), ctx.fake());
        let rng_off = if with_rng { ctx.fake() } else { 0 };
        let t = M2Track {
            base: M2TrackBase { interpolation_type: interp(bone_index as u32 + 1), global_sequence: 0xFFFF },
            ranges: if with_rng { Some(M2Array::new(1, rng_off)) } else { None },
            timestamps: M2Array::new(n, ts_off),
            values: M2Array::new(n, val_off),
        };
        raw.push(BoneAnimationRaw {
            bone_index,
            track_type: tt,
            timestamps: ts_bytes(n),
            values: val_bytes(&mut ctx.sm, elem, n),
            ranges: if with_rng { Some([0u32.to_le_bytes(), (n - 1).to_le_bytes()].concat()) } else { None },
            original_timestamps_offset: ts_off,
            original_values_offset: val_off,
            original_ranges_offset: if with_rng { Some(rng_off) } else { None },
        });
        t
    }

    /// (ranges, timestamps, values, original offsets) of one animation block
    struct BlockRaw {
        rng: Vec<u8>,
        ts: Vec<u8>,
        vals: Vec<u8>,
        rng_off: u32,
        ts_off: u32,
        val_off: u32,
    }

    fn block<T: M2Parse + Default + Clone>(ctx: &mut Ctx, n: u32, elem: usize) -> (M2AnimationBlock<T>, Option<BlockRaw>) {
        if n == 0 {
            return (M2AnimationBlock::new(M2AnimationTrack::default()), None);
        }
        let (rng_off, ts_off, val_off) = (ctx.fake(), ctx.fake(), ctx.fake());
        let vals = val_bytes(&mut ctx.sm, elem, n);
        let mut data = Vec::new();
        let mut c = Cursor::new(&vals[..]);
        for _ in 0..n {
            data.push(T::parse(&mut c).unwrap_or_default());
        }
        let track = M2AnimationTrack {
            interpolation_type: interp(n),
            global_sequence: -1,
            interpolation_ranges: M2Array::new(1, rng_off),
            timestamps: M2Array::new(n, ts_off),
            values: M2Vec { array: M2Array::new(n, val_off), data },
        };
        (
            M2AnimationBlock::new(track),
            Some(BlockRaw {
                rng: [0u32.to_le_bytes(), (n - 1).to_le_bytes()].concat(),
                ts: ts_bytes(n),
                vals,
                rng_off,
                ts_off,
                val_off,
            }),
        )
    }

    macro_rules! push_raw {
        ($vec:expr, $ty:ident, $idxf:ident, $idx:expr, $tt:expr, $r:expr) => {
            if let Some(r) = $r {
                $vec.push($ty {
                    $idxf: $idx,
                    track_type: $tt,
                    interpolation_ranges: r.rng,
                    timestamps: r.ts,
                    values: r.vals,
                    original_ranges_offset: r.rng_off,
                    original_timestamps_offset: r.ts_off,
                    original_values_offset: r.val_off,
                });
            }
        };
    }

    fn zeros() -> Cursor<Vec<u8>> {
        Cursor::new(vec![0u8; 4096])
    }

    pub fn build_model(ver: M2Version, f: &Feat, seed: u64) -> M2Model {
        let mut m = M2Model::default();
        m.header = M2Header::new(ver);
        let vn = m.header.version;
        let mut ctx = Ctx { next: 0x0100_0000, sm: Sm(seed) };
        m.header.flags = M2ModelFlags::from_bits_retain(if f.particles > 0 { 0x1 } else { 0 });
        m.header.bounding_box_min = [-2.5, -3.0, 0.0];
        m.header.bounding_box_max = [2.5, 3.0, 7.25];
        m.header.bounding_sphere_radius = 8.0;
        m.header.collision_box_min = [-1.0, -1.0, 0.0];
        m.header.collision_box_max = [1.0, 1.0, 2.0];
        m.header.collision_sphere_radius = 2.5;
        if vn > 263 {
            m.header.num_skin_profiles = Some(1);
        }
        m.name = f.name.map(|s| s.to_string());
        m.global_sequences = (0..f.gseq as u32).map(|i| 1000 + 333 * i).collect();
        for i in 0..f.seqs as u32 {
            let base = M2Animation {
                animation_id: (i * 4) as u16,
                sub_animation_id: 0,
                start_timestamp: i * 1000,
                end_timestamp: None,
                movement_speed: 2.5,
                flags: 0x20,
                frequency: 32767,
                padding: 0,
                replay: None,
                minimum_extent: None,
                maximum_extent: None,
                extent_radius: None,
                next_animation: None,
                aliasing: None,
            };
            m.animations.push(if vn <= 256 {
                M2Animation { end_timestamp: Some(i * 1000 + 900), replay: Some(M2Range { minimum: 0.0, maximum: 1.0 }), ..base }
            } else {
                M2Animation {
                    minimum_extent: Some([-1.0, -1.0, 0.0]),
                    maximum_extent: Some([1.0, 1.0, 2.0]),
                    extent_radius: Some(2.5),
                    next_animation: Some(-1),
                    aliasing: Some(i as u16),
                    ..base
                }
            });
        }
        m.animation_lookup = (0..f.seqs as u16).collect();

        for i in 0..f.bones {
            let n = if i % 2 == 0 { f.bone_keys } else { 0 };
            let raw = &mut m.raw_data.bone_animation_data;
            let translation = bone_track::<C3Vector>(&mut ctx, n, vn, 12, i, TrackType::Translation, raw);
            let rotation = bone_track::<M2CompQuat>(&mut ctx, n, vn, 8, i, TrackType::Rotation, raw);
            let scale = bone_track::<C3Vector>(&mut ctx, n.min(1), vn, 12, i, TrackType::Scale, raw);
            m.bones.push(M2Bone {
                bone_id: i as i32 - 1,
                flags: M2BoneFlags::from_bits_retain(if n > 0 { 0x200 } else { 0 }),
                parent_bone: i as i16 - 1,
                submesh_id: 0,
                unknown: [0, 0],
                bone_name_crc: if vn >= 260 { Some(ctx.sm.u32()) } else { None },
                translation,
                rotation,
                scale,
                pivot: c3(&mut ctx.sm),
            });
        }
        m.key_bone_lookup = (0..f.bones.min(4) as u16).collect();

        for i in 0..f.verts {
            m.vertices.push(M2Vertex {
                position: c3(&mut ctx.sm),
                bone_weights: [255, 0, 0, 0],
                bone_indices: [(i % f.bones.max(1)) as u8, 0, 0, 0],
                normal: C3Vector { x: 0.0, y: 0.0, z: 1.0 },
                tex_coords: C2Vector { x: (i % 2) as f32, y: (i / 2 % 2) as f32 },
                tex_coords2: None,
            });
        }

        // textures are handed to the writer WITHOUT a name (M2Model::write patches the name
        // reference at a wrong position, open C13 finding); the names are appended afterwards
        for (i, t) in f.textures.iter().enumerate() {
            m.textures.push(M2Texture {
                texture_type: if t.is_empty() { M2TextureType::from_u32(1 + i as u32 % 3).unwrap_or(M2TextureType::Unknown) } else { M2TextureType::Hardcoded },
                flags: M2TextureFlags::from_bits_retain(i as u32 & 3),
                filename: M2ArrayString { string: FixedString { data: vec![] }, array: M2Array::new(0, 0) },
            });
        }
        for i in 0..f.materials {
            m.materials.push(M2Material {
                flags: M2RenderFlags::from_bits_retain((i as u16) & 0x1F),
                blend_mode: M2BlendMode::from_bits_retain((i as u16) % 7),
            });
        }
        if f.lookups {
            m.raw_data.bone_lookup_table = (0..f.bones as u16).collect();
            m.raw_data.texture_lookup_table = (0..f.textures.len() as u16).collect();
            m.raw_data.texture_units = vec![0, 1];
            m.raw_data.transparency_lookup_table = vec![0];
            m.raw_data.texture_animation_lookup = vec![0xFFFF];
            m.raw_data.attachment_lookup_table = (0..f.attachments as u16).collect();
            m.raw_data.camera_lookup_table = (0..f.cameras as u16).collect();
        }
        if f.bounds > 0 {
            m.raw_data.bounding_triangles = (0..3 * f.bounds as u16).flat_map(|i| (i % 4).to_le_bytes()).collect();
            m.raw_data.bounding_vertices = ctx.sm.fbytes(3 * 4);
            m.raw_data.bounding_normals = ctx.sm.fbytes(3 * f.bounds);
        }

        for _ in 0..f.emb_skins {
            let sub = if vn < 260 { 32 } else { 48 };
            let mut mv = vec![0u8; 44];
            mv[40..44].copy_from_slice(&21u32.to_le_bytes());
            let idx: Vec<u8> = (0..f.verts as u16).flat_map(|i| i.to_le_bytes()).collect();
            let tri: Vec<u8> = (0..(f.verts / 3 * 3) as u16).flat_map(|i| i.to_le_bytes()).collect();
            m.raw_data.embedded_skins.push(EmbeddedSkinRaw {
                model_view: mv,
                indices: idx,
                triangles: tri,
                properties: vec![0u8; 4 * f.verts],
                submeshes: ctx.sm.bytes(sub),
                batches: ctx.sm.bytes(24),
                original_model_view_offset: ctx.fake(),
                original_indices_offset: ctx.fake(),
                original_triangles_offset: ctx.fake(),
                original_properties_offset: ctx.fake(),
                original_submeshes_offset: ctx.fake(),
                original_batches_offset: ctx.fake(),
            });
        }

        let k = f.block_keys;
        for i in 0..f.particles {
            if let Ok(mut p) = M2ParticleEmitter::parse(&mut zeros(), vn) {
                let b = block::<f32>(&mut ctx, k, 4);
                push_raw!(m.raw_data.particle_animation_data, ParticleAnimationRaw, emitter_index, i, ParticleTrackType::EmissionSpeed, b.1);
                p.emission_speed_animation = b.0;
                p.id = i as u32;
                p.position = c3(&mut ctx.sm);
                p.lifetime = 1.5;
                p.emission_rate = 10.0;
                m.particle_emitters.push(p);
            }
        }
        for i in 0..f.ribbons {
            if let Ok(mut r) = M2RibbonEmitter::parse(&mut zeros(), vn) {
                let b0 = block::<M2Color>(&mut ctx, k, 12);
                let b1 = block::<f32>(&mut ctx, k.min(1), 4);
                push_raw!(m.raw_data.ribbon_animation_data, RibbonAnimationRaw, emitter_index, i, RibbonTrackType::Color, b0.1);
                push_raw!(m.raw_data.ribbon_animation_data, RibbonAnimationRaw, emitter_index, i, RibbonTrackType::Alpha, b1.1);
                r.color_animation = b0.0;
                r.alpha_animation = b1.0;
                r.position = c3(&mut ctx.sm);
                r.edges_per_second = 15.0;
                r.edge_lifetime = 0.5;
                r.texture_rows = 1;
                r.texture_cols = 1;
                m.ribbon_emitters.push(r);
            }
        }
        for i in 0..f.tex_anims {
            let b0 = block::<f32>(&mut ctx, k, 4);
            let b1 = block::<f32>(&mut ctx, k, 4);
            push_raw!(m.raw_data.texture_animation_data, TextureAnimationRaw, animation_index, i, TextureTrackType::TranslationU, b0.1);
            push_raw!(m.raw_data.texture_animation_data, TextureAnimationRaw, animation_index, i, TextureTrackType::TranslationV, b1.1);
            let mut t = M2TextureAnimation::new(M2TextureAnimationType::Scroll);
            t.translation_u = b0.0;
            t.translation_v = b1.0;
            m.texture_animations.push(t);
        }
        for i in 0..f.color_anims {
            let b0 = block::<M2Color>(&mut ctx, k, 12);
            let b1 = block::<u16>(&mut ctx, k, 2);
            push_raw!(m.raw_data.color_animation_data, ColorAnimationRaw, animation_index, i, ColorTrackType::Color, b0.1);
            push_raw!(m.raw_data.color_animation_data, ColorAnimationRaw, animation_index, i, ColorTrackType::Alpha, b1.1);
            m.color_animations.push(M2ColorAnimation { color: b0.0, alpha: b1.0 });
        }
        for i in 0..f.transp_anims {
            let b0 = block::<f32>(&mut ctx, k, 4);
            push_raw!(m.raw_data.transparency_animation_data, TransparencyAnimationRaw, animation_index, i, TransparencyTrackType::Alpha, b0.1);
            m.transparency_animations.push(M2TransparencyAnimation { alpha: b0.0 });
        }
        // events: time stamps only (event *ranges* are dropped by the writer, open C13 finding)
        for i in 0..f.events {
            let mut e = M2Event::new(*b"$CAH", i as i16);
            e.position = ctx.sm.f3();
            let ts_off = ctx.fake();
            e.times = M2Array::new(2, ts_off);
            m.events.push(e);
            m.raw_data.event_data.push(EventRaw {
                event_index: i,
                ranges: vec![],
                original_ranges_offset: 0,
                timestamps: ts_bytes(2),
                original_timestamps_offset: ts_off,
            });
        }
        for i in 0..f.attachments {
            let b0 = block::<f32>(&mut ctx, k.min(2), 4);
            push_raw!(m.raw_data.attachment_animation_data, AttachmentAnimationRaw, attachment_index, i, AttachmentTrackType::Scale, b0.1);
            let mut a = M2Attachment::new(i as u32, i as i32);
            a.position = c3(&mut ctx.sm);
            a.scale_animation = b0.0;
            m.attachments.push(a);
        }
        for i in 0..f.cameras {
            let b0 = block::<C3Vector>(&mut ctx, k, 12);
            let b2 = block::<f32>(&mut ctx, k.min(1), 4);
            push_raw!(m.raw_data.camera_animation_data, CameraAnimationRaw, camera_index, i, CameraTrackType::Position, b0.1);
            push_raw!(m.raw_data.camera_animation_data, CameraAnimationRaw, camera_index, i, CameraTrackType::Roll, b2.1);
            let mut c = M2Camera::new(i as u32);
            c.position_animation = b0.0;
            c.roll_animation = b2.0;
            c.position_base = c3(&mut ctx.sm);
            c.target_position_base = c3(&mut ctx.sm);
            m.cameras.push(c);
        }
        for i in 0..f.lights {
            let b0 = block::<M2Color>(&mut ctx, k, 12);
            let b2 = block::<f32>(&mut ctx, k, 4);
            push_raw!(m.raw_data.light_animation_data, LightAnimationRaw, light_index, i, LightTrackType::AmbientColor, b0.1);
            push_raw!(m.raw_data.light_animation_data, LightAnimationRaw, light_index, i, LightTrackType::AttenuationStart, b2.1);
            let mut l = M2Light::new(if i % 2 == 0 { M2LightType::Point } else { M2LightType::Directional }, 0, i as u32);
            l.ambient_color_animation = b0.0;
            l.attenuation_start_animation = b2.0;
            l.position = c3(&mut ctx.sm);
            m.lights.push(l);
        }
        m
    }

    /// Append the texture file names and point the (count, offset) pair of each texture record
    /// at them (count includes the terminator, as in client files).
    fn patch_texture_names(mut b: Vec<u8>, vn: u32, names: &[&str]) -> Vec<u8> {
        // header position of the `textures` M2Array: 92 with the pre-WotLK header (playable
        // animation lookup + views array), 80 from WotLK on
        let pos = if vn <= 263 { 92 } else { 80 };
        if b.len() < pos + 8 {
            return b;
        }
        let (count, off) = (u32at(&b, pos) as usize, u32at(&b, pos + 4) as usize);
        if count != names.len() || off + 16 * count > b.len() {
            return b;
        }
        for (i, n) in names.iter().enumerate() {
            if n.is_empty() {
                continue;
            }
            while b.len() % 16 != 0 {
                b.push(0);
            }
            let at = b.len() as u32;
            b.extend_from_slice(n.as_bytes());
            b.push(0);
            put32(&mut b, off + 16 * i + 8, n.len() as u32 + 1);
            put32(&mut b, off + 16 * i + 12, at);
        }
        b
    }

    pub fn model_bytes(ver: M2Version, f: &Feat, seed: u64) -> Option<Vec<u8>> {
        let m = build_model(ver, f, seed);
        let vn = m.header.version;
        let mut c = Cursor::new(Vec::new());
        m.write(&mut c).ok()?;
        Some(patch_texture_names(c.into_inner(), vn, &f.textures))
    }

    /// Legion+ container: MD21 chunk around an MD20 model plus the file-reference and
    /// rendering chunks `M2Model::parse_chunked` understands
    fn chunked(md20: &[u8]) -> Vec<u8> {
        let mut o = vec![];
        fck(&mut o, b"MD21", md20);
        let ids = |v: &[u32]| v.iter().flat_map(|x| x.to_le_bytes()).collect::<Vec<u8>>();
        fck(&mut o, b"SFID", &ids(&[1_000_001, 1_000_002, 1_000_003]));
        fck(&mut o, b"AFID", &ids(&[0x0000_0004, 0, 2_000_001, 0x0001_0005, 0, 2_000_002]));
        fck(&mut o, b"TXID", &ids(&[3_000_001, 0, 3_000_003]));
        fck(&mut o, b"PFID", &ids(&[4_000_001]));
        fck(&mut o, b"SKID", &ids(&[5_000_001]));
        fck(&mut o, b"BFID", &ids(&[6_000_001, 6_000_002]));
        let mut w = W::default();
        for i in 0..2u32 {
            w.f32(30.0 + 60.0 * i as f32).u16(i as u16).u32(1200 >> i).u32(800 >> i);
        }
        fck(&mut o, b"LDV1", &w.0);
        // EXP2: 1 emitter (12 + 1 bytes), 1 system (21 + 4 bytes)
        let mut w = W::default();
        w.u32(1).u32(1);
        w.u8(2).u8(1).f32(1.5).u8(1).u8(0).f32(0.25).u8(1);
        w.u32(7).u32(500).u8(3).f32(0.1).f32(0.5).f32(0.9).f32(0.2);
        fck(&mut o, b"EXP2", &w.0);
        fck(&mut o, b"PABC", &[4u16, 5, 143].iter().flat_map(|x| x.to_le_bytes()).collect::<Vec<u8>>());
        let mut w = W::default();
        w.u32(2).u16(0).f32(1.0).u8(1).u16(1).f32(0.5).u8(2).u32(1).u8(1).u8(2).f32(0.75);
        fck(&mut o, b"PADC", &w.0);
        let mut w = W::default();
        w.fs(&[1.0, 0.5, 0.25, 2.0, 3.0, 0.0, 0.0, -1.0]);
        fck(&mut o, b"WFV3", &w.0);
        let mut w = W::default();
        w.u32(2).f32(10.0).f32(20.0).u32(2).f32(0.5).f32(1.0);
        fck(&mut o, b"EDGF", &w.0);
        let mut w = W::default();
        w.f32(0.5).u8(1);
        fck(&mut o, b"NERF", &w.0);
        let mut w = W::default();
        w.fs(&[0.25, 1.0, 0.5]);
        fck(&mut o, b"DETL", &w.0);
        fck(&mut o, b"RPID", &ids(&[7_000_001]));
        fck(&mut o, b"GPID", &ids(&[8_000_001, 8_000_002]));
        fck(&mut o, b"PGD1", &[1u16, 2, 3].iter().flat_map(|x| x.to_le_bytes()).collect::<Vec<u8>>());
        fck(&mut o, b"DBOC", &[1, 2, 3, 4, 5, 6, 7, 8]);
        fck(&mut o, b"AFRA", &[9, 9, 9, 9]);
        let mut w = W::default();
        w.fs(&[-1.0, -1.0, 0.0, 1.0, 1.0, 2.0, 2.5]).fs(&[-2.0, -2.0, 0.0, 2.0, 2.0, 4.0, 5.0]);
        fck(&mut o, b"PSBC", &w.0);
        let mut w = W::default();
        w.u32(11).u32(3).u32(1000).raw(b"abc").u32(12).u32(0).u32(2000);
        fck(&mut o, b"PEDC", &w.0);
        let mut w = W::default();
        w.u32(3).u32(1).u32(1);
        w.fs(&[0.0, 0.0, 0.0, 1.0, 0.0, 0.0, 0.0, 1.0, 0.0]);
        w.u16(0).u16(1).u16(2).u16(0);
        w.u32(1).f32(0.5).f32(0.25);
        fck(&mut o, b"PCOL", &w.0);
        let mut w = W::default();
        w.f32(12.0).fs(&[0.0, 0.0, 1.0]).fs(&[1.0, 0.0, 0.0, 0.0, 1.0, 0.0, 0.0, 0.0, 1.0]).u32(3).raw(b"PHYS-blob");
        fck(&mut o, b"PFDC", &w.0);
        // chunk types the container seed did not carry before (a seeded regression in DpivChunk::parse was out of
        // reach of both engines: neither invents a four-character code plus a consistent body):
        // EXPT with one forward-compatible "unknown type, skip n bytes" record
        let mut w = W::default();
        w.u8(7).u32(3).raw(b"abc");
        fck(&mut o, b"EXPT", &w.0);
        // WFV1/WFV2: waterfall parameters (the parsers read a prefix of these floats)
        let mut w = W::default();
        w.fs(&[1.0, 0.5, 0.25, 2.0, 3.0, 0.0, 0.0, -1.0]);
        fck(&mut o, b"WFV1", &w.0);
        fck(&mut o, b"WFV2", &w.0);
        // TXAC: zero extended texture animations
        fck(&mut o, b"TXAC", &0u32.to_le_bytes());
        // DPIV: (count, offset) × {vertex positions, face normals, indices, flags}, offsets relative to the chunk data
        let mut w = W::default();
        w.u32(2).u32(32).u32(1).u32(56).u32(3).u32(68).u32(1).u32(74);
        w.fs(&[0.0, 0.0, 0.0, 1.0, 1.0, 1.0]).fs(&[0.0, 0.0, 1.0]);
        w.u16(0).u16(1).u16(0).u16(0x0003);
        fck(&mut o, b"DPIV", &w.0);
        fck(&mut o, b"XXXX", &[0xAA; 6]);
        o
    }

    pub fn seeds(v: &mut Vec<Seed>) {
        let tex3 = vec!["Creature\\Murloc\\MurlocSkin.blp", "", "World\\Generic\\Glow.blp"];
        let specs: Vec<(&str, M2Version, Feat)> = vec![
            (
                "vanilla-bones-keys-verts-tex-skin",
                M2Version::Vanilla,
                Feat {
                    name: Some("SeedVanilla"),
                    gseq: 2,
                    seqs: 2,
                    bones: 3,
                    bone_keys: 3,
                    verts: 6,
                    textures: tex3.clone(),
                    materials: 2,
                    lookups: true,
                    bounds: 2,
                    attachments: 1,
                    emb_skins: 1,
                    block_keys: 2,
                    ..Feat::default()
                },
            ),
            (
                "tbc-events-lights-cameras-ribbon",
                M2Version::TBC,
                Feat {
                    name: Some("SeedTbc"),
                    seqs: 3,
                    bones: 2,
                    bone_keys: 2,
                    verts: 4,
                    textures: vec!["a.blp"],
                    materials: 1,
                    lookups: true,
                    events: 2,
                    lights: 2,
                    cameras: 1,
                    ribbons: 1,
                    block_keys: 3,
                    emb_skins: 1,
                    ..Feat::default()
                },
            ),
            (
                "wotlk-bones-keys-verts-tex-particles",
                M2Version::WotLK,
                Feat {
                    name: Some("SeedWotlk"),
                    gseq: 1,
                    seqs: 4,
                    bones: 5,
                    bone_keys: 4,
                    verts: 12,
                    textures: tex3.clone(),
                    materials: 3,
                    lookups: true,
                    bounds: 1,
                    attachments: 2,
                    particles: 1,
                    transp_anims: 1,
                    color_anims: 1,
                    block_keys: 2,
                    ..Feat::default()
                },
            ),
            (
                "cata-texanims-cameras-lights",
                M2Version::Cataclysm,
                Feat {
                    seqs: 1,
                    bones: 1,
                    verts: 3,
                    textures: vec!["", "x\\y.blp"],
                    materials: 1,
                    tex_anims: 2,
                    cameras: 2,
                    lights: 1,
                    events: 1,
                    block_keys: 4,
                    ..Feat::default()
                },
            ),
            (
                "mop-all-sections",
                M2Version::MoP,
                Feat {
                    name: Some("SeedMop"),
                    gseq: 2,
                    seqs: 2,
                    bones: 4,
                    bone_keys: 2,
                    verts: 9,
                    textures: tex3.clone(),
                    materials: 2,
                    lookups: true,
                    bounds: 2,
                    attachments: 1,
                    events: 1,
                    lights: 1,
                    cameras: 1,
                    ribbons: 1,
                    particles: 1,
                    tex_anims: 1,
                    color_anims: 1,
                    transp_anims: 1,
                    block_keys: 2,
                    ..Feat::default()
                },
            ),
            ("wotlk-header-only", M2Version::WotLK, Feat::default()),
        ];
        let mut legion_body = None;
        for (i, (name, ver, f)) in specs.iter().enumerate() {
            if let Some(b) = model_bytes(*ver, f, 0xC05_0000 + i as u64) {
                if *ver == M2Version::MoP {
                    legion_body = Some(b.clone());
                }
                push(v, "m2", *name, b);
            }
        }
        let body = model_bytes(
            M2Version::Legion,
            &Feat { name: Some("SeedLegion"), seqs: 1, bones: 2, verts: 3, textures: vec![""], materials: 1, ..Feat::default() },
            0xC05_00FF,
        )
        .or(legion_body);
        if let Some(b) = body {
            push(v, "m2", "legion-chunked-md21-fileids-lod-extras", chunked(&b));
        }
    }
}

// ---------------------------------------------------------------------------------------
// skin files (SkinFile::write)

mod skins {
    use super::*;
    use wow_m2::M2Version;
    use wow_m2::skin::{OldSkin, OldSkinHeader, Skin, SkinBatch, SkinFile, SkinHeader, SkinSubmesh};

    fn parts(sm: &mut Sm, n_vert: u16, n_sub: u16, n_batch: u16) -> (Vec<u16>, Vec<u16>, Vec<u8>, Vec<SkinSubmesh>, Vec<SkinBatch>) {
        let indices: Vec<u16> = (0..n_vert).collect();
        let triangles: Vec<u16> = (0..n_vert / 3 * 3).collect();
        let bone_indices: Vec<u8> = (0..n_vert).flat_map(|i| [(i % 4) as u8, 0, 0, 0]).collect();
        let per = if n_sub > 0 { n_vert / n_sub } else { 0 };
        let submeshes = (0..n_sub)
            .map(|i| SkinSubmesh {
                id: i,
                level: 0,
                vertex_start: i * per,
                vertex_count: per,
                triangle_start: i * (per / 3 * 3),
                triangle_count: per / 3 * 3,
                bone_count: 4,
                bone_start: 0,
                bone_influence: 1,
                center: sm.f3(),
                sort_center: sm.f3(),
                bounding_radius: 3.5,
            })
            .collect();
        let batches = (0..n_batch)
            .map(|i| SkinBatch {
                flags: 0x10,
                priority_plane: 0,
                shader_id: i,
                skin_section_index: i % n_sub.max(1),
                geoset_index: 0,
                color_index: 0xFFFF,
                material_index: i,
                material_layer: 0,
                texture_count: 1,
                texture_combo_index: i,
                texture_coord_combo_index: 0,
                texture_weight_combo_index: 0,
                texture_transform_combo_index: 0xFFFF,
            })
            .collect();
        (indices, triangles, bone_indices, submeshes, batches)
    }

    fn bytes(s: &SkinFile) -> Option<Vec<u8>> {
        let mut c = Cursor::new(Vec::new());
        s.write(&mut c).ok()?;
        Some(c.into_inner())
    }

    pub fn seeds(v: &mut Vec<Seed>) {
        let mut sm = Sm(0xC05_5C1A);
        // old layout (no version word); more than 4 indices so that auto-detection is unambiguous
        for (name, nv, ns, nb) in [("old-12v-2sub-2batch", 12u16, 2u16, 2u16), ("old-6v-mesh-only", 6, 0, 0), ("old-30v-3sub-5batch", 30, 3, 5)] {
            let (indices, triangles, bone_indices, submeshes, batches) = parts(&mut sm, nv, ns, nb);
            let mut header = OldSkinHeader::new();
            header.bone_count_max = 21;
            if let Some(b) = bytes(&SkinFile::Old(OldSkin { header, indices, triangles, bone_indices, submeshes, batches })) {
                push(v, "skin", name, b);
            }
        }
        // new layout with version word
        for (name, ver, nv, ns, nb) in [
            ("new-v0-9v-1sub-1batch", M2Version::WotLK, 9u16, 1u16, 1u16),
            ("new-v1-cata-12v-2sub-3batch", M2Version::Cataclysm, 12, 2, 3),
            ("new-v2-mop-mesh-only", M2Version::MoP, 6, 0, 0),
            ("new-v4-bfa-center-18v-3sub-3batch", M2Version::BfA, 18, 3, 3),
        ] {
            let (indices, triangles, bone_indices, submeshes, batches) = parts(&mut sm, nv, ns, nb);
            let mut header = SkinHeader::new(ver);
            header.vertex_count = nv as u32;
            if let Some(b) = bytes(&SkinFile::New(Skin { header, indices, triangles, bone_indices, submeshes, batches })) {
                push(v, "skin", name, b);
            }
        }
    }
}

// ---------------------------------------------------------------------------------------
// anim files (AnimFile::write where the parser reads it back; the modern layout with bone data
// is hand-encoded the way AnimSection::parse reads it: entry size = 16 + 4 * bones, bone records
// follow sequentially — the writer's entry size covers the bone data, open C13 finding)

mod anims {
    use super::*;
    use wow_m2::AnimFile;
    use wow_m2::anim::*;
    use wow_m2::common::{C3Vector, Quaternion};

    fn bone(sm: &mut Sm, id: u32, t: Option<usize>, r: Option<usize>, s: Option<usize>) -> AnimBoneAnimation {
        let ts = |n: usize| (0..n as u32).map(|i| i * 40).collect::<Vec<u32>>();
        let mut v3 = |n: usize| (0..n).map(|_| C3Vector { x: sm.f(), y: sm.f(), z: sm.f() }).collect::<Vec<_>>();
        AnimBoneAnimation {
            bone_id: id,
            translation: t.map(|n| AnimTranslation { timestamps: ts(n), translations: v3(n) }),
            scaling: s.map(|n| AnimScaling { timestamps: ts(n), scalings: v3(n) }),
            rotation: r.map(|n| AnimRotation {
                timestamps: ts(n),
                rotations: (0..n).map(|i| Quaternion { x: 0.0, y: 0.0, z: (i as f32 * 0.1).sin(), w: (i as f32 * 0.1).cos() }).collect(),
            }),
        }
    }

    fn section(id: u32, bones: Vec<AnimBoneAnimation>) -> AnimSection {
        AnimSection { header: AnimSectionHeader { magic: *b"AFID", id, start: id * 100, end: id * 100 + 66 }, bone_animations: bones }
    }

    fn modern(sections: Vec<AnimSection>) -> AnimFile {
        AnimFile {
            format: AnimFormat::Modern,
            metadata: AnimMetadata::Modern {
                header: AnimHeader { magic: ANIM_MAGIC, version: 1, id_count: sections.len() as u32, unknown: 0, anim_entry_offset: 20 },
                entries: sections.iter().map(|x| AnimEntry { id: x.header.id, offset: 0, size: 0 }).collect(),
            },
            sections,
        }
    }

    fn legacy(sections: Vec<AnimSection>) -> AnimFile {
        AnimFile {
            format: AnimFormat::Legacy,
            metadata: AnimMetadata::Legacy {
                file_size: 0,
                animation_count: sections.len() as u32,
                structure_hints: LegacyStructureHints { appears_valid: true, estimated_blocks: sections.len() as u32, has_timestamps: true },
            },
            sections,
        }
    }

    fn bytes(a: &AnimFile) -> Option<Vec<u8>> {
        let mut c = Cursor::new(Vec::new());
        a.write(&mut c).ok()?;
        Some(c.into_inner())
    }

    /// modern file in the layout `AnimParser::parse_modern` reads
    fn hand_modern(sections: &[AnimSection]) -> Vec<u8> {
        let mut w = W::default();
        w.raw(b"MAOF").u32(1).u32(sections.len() as u32).u32(0).u32(20);
        let table = w.len();
        w.zeros(12 * sections.len());
        for (i, s) in sections.iter().enumerate() {
            let start = w.len() as u32;
            w.raw(b"AFID").u32(s.header.id).u32(s.header.start).u32(s.header.end);
            for (k, b) in s.bone_animations.iter().enumerate() {
                let has = b.translation.is_some() || b.rotation.is_some() || b.scaling.is_some();
                w.u32(if has { k as u32 + 1 } else { 0 });
            }
            let size = w.len() as u32 - start;
            for b in &s.bone_animations {
                let flags = b.translation.is_some() as u32 | (b.rotation.is_some() as u32) << 1 | (b.scaling.is_some() as u32) << 2;
                if flags == 0 {
                    continue;
                }
                w.u32(b.bone_id).u32(flags);
                if let Some(t) = &b.translation {
                    w.u32(t.timestamps.len() as u32);
                    t.timestamps.iter().for_each(|x| {
                        w.u32(*x);
                    });
                    t.translations.iter().for_each(|p| {
                        w.fs(&[p.x, p.y, p.z]);
                    });
                }
                if let Some(r) = &b.rotation {
                    w.u32(r.timestamps.len() as u32);
                    r.timestamps.iter().for_each(|x| {
                        w.u32(*x);
                    });
                    r.rotations.iter().for_each(|q| {
                        w.fs(&[q.x, q.y, q.z, q.w]);
                    });
                }
                if let Some(s) = &b.scaling {
                    w.u32(s.timestamps.len() as u32);
                    s.timestamps.iter().for_each(|x| {
                        w.u32(*x);
                    });
                    s.scalings.iter().for_each(|p| {
                        w.fs(&[p.x, p.y, p.z]);
                    });
                }
            }
            let e = table + 12 * i;
            put32(&mut w.0, e, s.header.id);
            put32(&mut w.0, e + 4, start);
            put32(&mut w.0, e + 8, size);
        }
        w.0
    }

    pub fn seeds(v: &mut Vec<Seed>) {
        let mut sm = Sm(0xC05_A212);
        let empty = |id: u32| AnimBoneAnimation { bone_id: id, translation: None, rotation: None, scaling: None };
        if let Some(b) = bytes(&modern(vec![section(1, vec![]), section(2, vec![])])) {
            push(v, "anim", "modern-2sections-no-bones", b);
        }
        if let Some(b) = bytes(&modern(vec![section(4, vec![empty(0), empty(1), empty(2)]), section(5, vec![empty(0)])])) {
            push(v, "anim", "modern-2sections-static-bones", b);
        }
        let s1 = section(7, vec![bone(&mut sm, 0, Some(3), Some(3), None), empty(1), bone(&mut sm, 2, None, Some(2), Some(2))]);
        let s2 = section(8, vec![bone(&mut sm, 0, Some(1), None, None)]);
        // (the crate's own writer round-trips animated bones since the section-size repair in /repo;
        // the hand-encoded variant of the old, wrong layout is no longer accepted and was dropped)
        if let Some(b) = bytes(&modern(vec![s1.clone(), s2.clone()])) {
            push(v, "anim", "modern-2sections-trs-keys", b);
        }
        let s3 = section(9, vec![bone(&mut sm, 5, Some(8), Some(8), Some(8)), bone(&mut sm, 6, Some(4), Some(4), Some(4))]);
        if let Some(b) = bytes(&modern(vec![s3.clone()])) {
            push(v, "anim", "modern-1section-2bones-8keys", b);
        }
        if let Some(b) = bytes(&legacy(vec![s1, s2])) {
            push(v, "anim", "legacy-2sections-trs-keys", b);
        }
        if let Some(b) = bytes(&legacy(vec![s3])) {
            push(v, "anim", "legacy-1section-2bones-8keys", b);
        }
        if let Some(b) = bytes(&legacy(vec![section(1, vec![])])) {
            push(v, "anim", "legacy-minimal", b);
        }
    }
}
// ---------------------------------------------------------------------------------------
// ADT terrain tiles (AdtBuilder → build → to_bytes for root tiles; split _tex0 / _obj0 files
// are hand-encoded, the crate has no writer for them)

mod adts {
    use super::*;
    use wow_adt::AdtVersion;
    use wow_adt::builder::AdtBuilder;
    use wow_adt::chunks::mcnk::{
        LiquidType, LiquidVertex, McalChunk, MccvChunk, MclqChunk, MclvChunk, MclyChunk, MclyFlags, MclyLayer, McnkChunk,
        McnkFlags, McnkHeader, McnrChunk, McrfChunk, McseChunk, McshChunk, McvtChunk, SoundEmitter, VertexColor, VertexNormal,
    };
    use wow_adt::chunks::mh2o::{HeightDepthVertex, Mh2oAttributes, Mh2oChunk, Mh2oEntry, Mh2oInstance, VertexDataArray};
    use wow_adt::chunks::{
        DoodadPlacement, MampChunk, MbbbChunk, MbbbEntry, MbmhChunk, MbmhEntry, MbmiChunk, MbnvChunk, MbnvVertex, MfboChunk,
        MtxfChunk, MtxpChunk, TextureHeightParams, WmoPlacement,
    };

    #[derive(Clone, Copy, Default)]
    struct Shape {
        layers: u8,
        alpha: bool,
        shadow: bool,
        mccv: bool,
        mclv: bool,
        refs: u8,
        mcse: u8,
        /// 0 none, 1 water, 2 ocean, 3 magma
        mclq: u8,
    }

    fn mcnk(sm: &mut Sm, idx: usize, s: Shape, n_tex: u32) -> McnkChunk {
        let mut flags = 0u32;
        if s.shadow {
            flags |= 0x01;
        }
        if s.mccv {
            flags |= 0x40;
        }
        let liquid_type = match s.mclq {
            1 => Some(LiquidType::Water),
            2 => {
                flags |= 0x08;
                Some(LiquidType::Ocean)
            }
            3 => {
                flags |= 0x10;
                Some(LiquidType::Magma)
            }
            _ => None,
        };
        let n_refs = s.refs as u32;
        let header = McnkHeader {
            flags: McnkFlags { value: flags },
            index_x: (idx % 16) as u32,
            index_y: (idx / 16) as u32,
            n_layers: s.layers as u32,
            n_doodad_refs: n_refs / 2,
            multipurpose_field: McnkHeader::multipurpose_from_offsets(0, 0),
            ofs_layer: 0,
            ofs_refs: 0,
            ofs_alpha: 0,
            size_alpha: 0,
            ofs_shadow: 0,
            size_shadow: 0,
            area_id: 12 + idx as u32,
            n_map_obj_refs: n_refs - n_refs / 2,
            holes_low_res: if idx % 2 == 1 { 0x0810 } else { 0 },
            unknown_but_used: 1,
            pred_tex: [0; 8],
            no_effect_doodad: [0; 8],
            unknown_8bytes: [0; 8],
            ofs_snd_emitters: 0,
            n_snd_emitters: 0,
            ofs_liquid: 0,
            size_liquid: 0,
            position: [17066.0 - 33.3 * (idx / 16) as f32, 17066.0 - 33.3 * (idx % 16) as f32, 10.0],
            ofs_mccv: 0,
            ofs_mclv: 0,
            unused: 0,
            _padding: [0; 8],
        };
        let heights = Some(McvtChunk { heights: (0..145).map(|i| (i as f32 * 0.37).sin() * 12.0 + sm.f() / 100.0).collect() });
        let normals = Some(McnrChunk {
            normals: (0..145).map(|_| VertexNormal { x: (sm.u8() % 16) as i8 - 8, z: 120, y: (sm.u8() % 16) as i8 - 8 }).collect(),
            padding: vec![0; 13],
        });
        let mut alpha_blob: Vec<u8> = vec![];
        let layers = (s.layers > 0).then(|| {
            let mut v = vec![];
            for l in 0..s.layers {
                let mut lf = 0u32;
                let mut ofs = 0u32;
                if l > 0 && s.alpha {
                    lf |= 0x100;
                    ofs = alpha_blob.len() as u32;
                    if l % 2 == 1 {
                        alpha_blob.extend((0..2048u32).map(|i| (i * 7 + l as u32) as u8)); // 4-bit 64x64
                    } else {
                        lf |= 0x200; // RLE: 64 rows of one fill run each
                        for row in 0..64u8 {
                            alpha_blob.push(0x80 | 64);
                            alpha_blob.push(row * 4);
                        }
                    }
                }
                v.push(MclyLayer { texture_id: l as u32 % n_tex.max(1), flags: MclyFlags { value: lf }, offset_in_mcal: ofs, effect_id: if l == 0 { 0xFFFF_FFFF } else { 3 } });
            }
            MclyChunk { layers: v }
        });
        let alpha = (!alpha_blob.is_empty()).then(|| McalChunk { data: alpha_blob });
        let refs = (n_refs > 0).then(|| McrfChunk { references: (0..n_refs).collect() });
        let shadow = s.shadow.then(|| McshChunk { shadow_map: (0..512u32).map(|i| if i % 3 == 0 { 0xF0 } else { 0x0F }).collect() });
        let vertex_colors = s.mccv.then(|| MccvChunk { colors: (0..145u32).map(|i| VertexColor { b: 127, g: (i % 128) as u8, r: 127, a: 255 }).collect() });
        let sound_emitters = (s.mcse > 0).then(|| McseChunk {
            emitters: (0..s.mcse).map(|i| SoundEmitter { sound_entry_id: 100 + i as u32, position: sm.f3(), size_min: [1.0, 2.0, 3.0], _padding: [] }).collect(),
        });
        let liquid = liquid_type.map(|lt| MclqChunk {
            min_height: -5.0,
            max_height: 2.5,
            vertices: (0..81).map(|i| LiquidVertex { union_data: [i as u8, 0, 0x7F, 0], height: -1.0 + (i % 9) as f32 * 0.25 }).collect(),
            tile_flags: [0x04; 64],
            liquid_type: lt,
        });
        let vertex_lighting = s.mclv.then(|| MclvChunk { colors: (0..145u32).map(|i| 0xFF00_0000 | i * 0x0101).collect() });
        McnkChunk {
            header,
            heights,
            normals,
            layers,
            materials: None,
            refs,
            doodad_refs: None,
            wmo_refs: None,
            alpha,
            shadow,
            vertex_colors,
            vertex_lighting,
            sound_emitters,
            liquid,
            doodad_disable: None,
            blend_batches: None,
        }
    }

    fn water(entries: &[(usize, u8, u8, u8, u8, bool)]) -> Mh2oChunk {
        let mut chunk = Mh2oChunk::new();
        for &(idx, x, y, wd, ht, with_vertices) in entries {
            let mut e = Mh2oEntry::default();
            e.instances.push(Mh2oInstance {
                liquid_type: 5,
                liquid_object_or_lvf: 0,
                min_height_level: -2.0,
                max_height_level: 3.0,
                x_offset: x,
                y_offset: y,
                width: wd,
                height: ht,
                offset_exists_bitmap: 0,
                offset_vertex_data: 0,
            });
            let bits = wd as u32 * ht as u32;
            let mask = if bits >= 64 { u64::MAX } else { (1u64 << bits) - 1 };
            e.exists_bitmaps.push(Some(0xA5A5_5A5A_F0F0_0F0F & mask | 1));
            e.vertex_data.push(with_vertices.then(|| {
                let mut g: [Option<HeightDepthVertex>; 81] = [None; 81];
                for z in y as usize..=(y + ht) as usize {
                    for xx in x as usize..=(x + wd) as usize {
                        g[z * 9 + xx] = Some(HeightDepthVertex { height: 1.0 + 0.125 * (z + xx) as f32, depth: (z * 9 + xx) as u8 });
                    }
                }
                VertexDataArray::HeightDepth(Box::new(g))
            }));
            e.header.layer_count = 1;
            e.attributes = Some(Mh2oAttributes { fishable: mask, deep: 0 });
            chunk.entries[idx] = e;
        }
        chunk
    }

    fn doodad(sm: &mut Sm, name_id: u32, uid: u32) -> DoodadPlacement {
        DoodadPlacement { name_id, unique_id: uid, position: sm.f3(), rotation: [0.0, 90.0, 0.0], scale: 1024, flags: 0 }
    }
    fn wmo_pl(sm: &mut Sm, name_id: u32, uid: u32) -> WmoPlacement {
        let p = sm.f3();
        WmoPlacement {
            name_id,
            unique_id: uid,
            position: p,
            rotation: [0.0, 45.0, 0.0],
            extents_min: [p[0] - 10.0, p[1] - 10.0, p[2] - 10.0],
            extents_max: [p[0] + 10.0, p[1] + 10.0, p[2] + 10.0],
            flags: 0,
            doodad_set: 1,
            name_set: 0,
            scale: 1024,
        }
    }

    fn finish(b: AdtBuilder) -> Option<Vec<u8>> {
        b.build().ok()?.to_bytes().ok()
    }

    /// _tex0 split file: MVER, MAMP, MTEX, n × MCNK{MCLY, MCAL}
    fn tex0(n: usize) -> Vec<u8> {
        let mut o = vec![];
        rck(&mut o, "MVER", &18u32.to_le_bytes());
        rck(&mut o, "MAMP", &1u32.to_le_bytes());
        rck(&mut o, "MTEX", &cstrings(&["tileset\\elwynn\\grass.blp", "tileset\\elwynn\\dirt.blp"]));
        for i in 0..n {
            let mut sub = vec![];
            let mut ly = W::default();
            ly.u32(0).u32(0).u32(0).u32(0xFFFF_FFFF);
            ly.u32(1).u32(0x100).u32(0).u32(i as u32);
            rck(&mut sub, "MCLY", &ly.0);
            rck(&mut sub, "MCAL", &(0..2048u32).map(|k| (k + i as u32) as u8).collect::<Vec<u8>>());
            rck(&mut o, "MCNK", &sub);
        }
        o
    }

    /// _obj0 split file: MVER, MMDX, MMID, MWMO, MWID, MDDF, MODF, n × MCNK{MCRD, MCRW}
    fn obj0(n: usize) -> Vec<u8> {
        let mut o = vec![];
        rck(&mut o, "MVER", &18u32.to_le_bytes());
        rck(&mut o, "MMDX", &cstrings(&["world\\doodad\\tree01.m2", "world\\doodad\\rock.m2"]));
        rck(&mut o, "MMID", &[0u32, 23].iter().flat_map(|x| x.to_le_bytes()).collect::<Vec<u8>>());
        rck(&mut o, "MWMO", &cstrings(&["world\\wmo\\inn.wmo"]));
        rck(&mut o, "MWID", &0u32.to_le_bytes());
        let mut d = W::default();
        for i in 0..3u32 {
            d.u32(i % 2).u32(500 + i).fs(&[16000.0 + i as f32, 50.0, 16100.0]).fs(&[0.0, 30.0 * i as f32, 0.0]).u16(1024).u16(0);
        }
        rck(&mut o, "MDDF", &d.0);
        let mut m = W::default();
        m.u32(0).u32(900).fs(&[16010.0, 55.0, 16110.0]).fs(&[0.0, 0.0, 0.0]).fs(&[16000.0, 40.0, 16100.0]).fs(&[16020.0, 70.0, 16120.0]).u16(0).u16(0).u16(0).u16(1024);
        rck(&mut o, "MODF", &m.0);
        for i in 0..n {
            let mut sub = vec![];
            rck(&mut sub, "MCRD", &[0u32, 1, 2][..1 + i % 3].iter().flat_map(|x| x.to_le_bytes()).collect::<Vec<u8>>());
            rck(&mut sub, "MCRW", &0u32.to_le_bytes());
            rck(&mut o, "MCNK", &sub);
        }
        o
    }

    pub fn seeds(v: &mut Vec<Seed>) {
        let mut sm = Sm(0xC05_0AD7);
        let full = Shape { layers: 3, alpha: true, shadow: true, mccv: false, mclv: false, refs: 3, mcse: 1, mclq: 0 };

        // Vanilla: MCLQ liquid (not in the last chunk: a file ending with MCLQ is rejected, open
        // C14 finding), MCSH, MCRF, MCSE, 2 chunks
        let b = AdtBuilder::new()
            .with_version(AdtVersion::VanillaEarly)
            .add_texture("tileset/elwynn/grass.blp")
            .add_texture("tileset/elwynn/dirt.blp")
            .add_model("world/doodad/tree01.m2")
            .add_wmo("world/wmo/inn.wmo")
            .add_doodad_placement(doodad(&mut sm, 0, 1))
            .add_wmo_placement(wmo_pl(&mut sm, 0, 2))
            .add_mcnk_chunk(mcnk(&mut sm, 0, Shape { mclq: 1, ..full }, 2))
            .add_mcnk_chunk(mcnk(&mut sm, 1, Shape { layers: 1, refs: 1, mcse: 1, ..Shape::default() }, 2));
        if let Some(x) = finish(b) {
            push(v, "adt", "vanilla-2mcnk-mclq-mcsh-mcrf-mcse-placements", x);
        }

        // TBC: MFBO, one bare chunk
        let b = AdtBuilder::new()
            .with_version(AdtVersion::TBC)
            .add_texture("a.blp")
            .add_flight_bounds(MfboChunk { max_plane: [500; 9], min_plane: [-100; 9] })
            .add_mcnk_chunk(mcnk(&mut sm, 0, Shape { layers: 1, ..Shape::default() }, 1));
        if let Some(x) = finish(b) {
            push(v, "adt", "tbc-1mcnk-mfbo", x);
        }

        // WotLK: MH2O (with and without vertex data), MCCV, 4 chunks, alpha maps
        let b = AdtBuilder::new()
            .with_version(AdtVersion::WotLK)
            .add_textures(["tileset/a.blp", "tileset/b.blp", "tileset/c_s.blp"])
            .add_model("m/a.m2")
            .add_model("m/b.m2")
            .add_doodad_placement(doodad(&mut sm, 1, 10))
            .add_doodad_placement(doodad(&mut sm, 0, 11))
            .add_flight_bounds(MfboChunk { max_plane: [300; 9], min_plane: [0; 9] })
            .add_water_data(water(&[(0, 0, 0, 8, 8, true), (1, 2, 3, 4, 2, false), (3, 1, 1, 2, 2, true)]))
            .add_mcnk_chunk(mcnk(&mut sm, 0, Shape { mccv: true, ..full }, 3))
            .add_mcnk_chunk(mcnk(&mut sm, 1, Shape { layers: 2, alpha: true, mccv: true, ..Shape::default() }, 3))
            .add_mcnk_chunk(mcnk(&mut sm, 2, Shape { layers: 4, alpha: true, shadow: true, ..Shape::default() }, 3))
            .add_mcnk_chunk(mcnk(&mut sm, 3, Shape { layers: 1, mcse: 2, ..Shape::default() }, 3));
        if let Some(x) = finish(b) {
            push(v, "adt", "wotlk-4mcnk-mh2o-mccv-mcal-mfbo", x);
        }

        // WotLK with MTXF (the parser's unbounded MTXF read swallows the rest: open C14 finding —
        // still a valid file)
        let b = AdtBuilder::new()
            .with_version(AdtVersion::WotLK)
            .add_textures(["x.blp", "y.blp"])
            .add_texture_flags(MtxfChunk { flags: vec![0, 1] })
            .add_mcnk_chunk(mcnk(&mut sm, 0, Shape { layers: 2, alpha: true, ..Shape::default() }, 2));
        if let Some(x) = finish(b) {
            push(v, "adt", "wotlk-1mcnk-mtxf", x);
        }

        // Cataclysm: MAMP, MCLV
        let b = AdtBuilder::new()
            .with_version(AdtVersion::Cataclysm)
            .add_textures(["x.blp", "y.blp"])
            .add_texture_amplifier(MampChunk { amplifier: 2 })
            .add_water_data(water(&[(0, 0, 0, 3, 3, true)]))
            .add_mcnk_chunk(mcnk(&mut sm, 0, Shape { layers: 2, alpha: true, mclv: true, mccv: true, ..Shape::default() }, 2))
            .add_mcnk_chunk(mcnk(&mut sm, 1, Shape { layers: 1, mclv: true, ..Shape::default() }, 2));
        if let Some(x) = finish(b) {
            push(v, "adt", "cata-2mcnk-mamp-mclv-mh2o", x);
        }

        // MoP: MTXP + blend mesh chunks
        let b = AdtBuilder::new()
            .with_version(AdtVersion::MoP)
            .add_textures(["x.blp", "y.blp"])
            .add_wmo("w/a.wmo")
            .add_wmo_placement(wmo_pl(&mut sm, 0, 77))
            .add_texture_params(MtxpChunk {
                entries: (0..2).map(|i| TextureHeightParams { flags: i, height_scale: 1.5, height_offset: 0.25, padding: 0 }).collect(),
            })
            .add_blend_mesh_headers(MbmhChunk {
                entries: vec![MbmhEntry { map_object_id: 77, texture_id: 1, unknown: 0, mbmi_count: 3, mbnv_count: 3, mbmi_start: 0, mbnv_start: 0 }],
            })
            .add_blend_mesh_bounds(MbbbChunk { entries: vec![MbbbEntry { map_object_id: 77, min: [0.0, 0.0, 0.0], max: [5.0, 5.0, 5.0] }] })
            .add_blend_mesh_vertices(MbnvChunk {
                vertices: (0..3).map(|i| MbnvVertex { position: sm.f3(), normal: [0.0, 0.0, 1.0], uv: [i as f32, 0.5], color: [[255, 255, 255, 255]; 3] }).collect(),
            })
            .add_blend_mesh_indices(MbmiChunk { indices: vec![0, 1, 2] })
            .add_water_data(water(&[(2, 0, 0, 8, 8, false)]))
            .add_mcnk_chunk(mcnk(&mut sm, 0, Shape { mccv: true, mclv: true, ..full }, 2))
            .add_mcnk_chunk(mcnk(&mut sm, 1, Shape { layers: 2, alpha: true, ..Shape::default() }, 2))
            .add_mcnk_chunk(mcnk(&mut sm, 2, Shape { layers: 1, ..Shape::default() }, 2));
        if let Some(x) = finish(b) {
            push(v, "adt", "mop-3mcnk-mtxp-blendmesh-mh2o", x);
        }

        push(v, "adt", "cata-hand-split-tex0-3mcnk", tex0(3));
        push(v, "adt", "cata-hand-split-obj0-3mcnk", obj0(3));
    }
}
// ---------------------------------------------------------------------------------------
// WMO root and group files. `WmoWriter` output is used as written (the legacy `WmoParser` mirrors
// it) and in a `fixed` variant in which the layout slips the open C15 findings describe are
// corrected (60-byte MOHD → 64, MOMT size, 36-byte MOGP header → 68, MLIQ size), plus files
// hand-encoded in the format layout that parse_wmo / root_parser / group_parser read.

mod wmos {
    use super::*;
    use std::collections::HashMap;
    use wow_wmo::WmoWriter;
    use wow_wmo::types::{BoundingBox, Color, Vec3};
    use wow_wmo::version::WmoVersion;
    use wow_wmo::wmo_group_types::{
        TexCoord, WmoBatch, WmoBspNode, WmoGroup, WmoGroupFlags, WmoGroupHeader, WmoLiquid, WmoLiquidVertex, WmoPlane,
    };
    use wow_wmo::wmo_types::{
        WmoDoodadDef, WmoDoodadSet, WmoFlags, WmoGroupInfo, WmoHeader, WmoLight, WmoLightProperties, WmoLightType, WmoMaterial,
        WmoMaterialFlags, WmoPortal, WmoPortalReference, WmoRoot,
    };

    fn v3(a: [f32; 3]) -> Vec3 {
        Vec3 { x: a[0], y: a[1], z: a[2] }
    }
    fn col(r: u8, g: u8, b: u8, a: u8) -> Color {
        Color { r, g, b, a }
    }
    fn bb(lo: [f32; 3], hi: [f32; 3]) -> BoundingBox {
        BoundingBox { min: v3(lo), max: v3(hi) }
    }

    struct RootShape {
        textures: Vec<&'static str>,
        materials: usize,
        groups: usize,
        portals: usize,
        lights: usize,
        doodads: usize,
        sets: usize,
        skybox: Option<&'static str>,
    }

    fn root(ver: WmoVersion, s: &RootShape, sm: &mut Sm) -> WmoRoot {
        let mut offs = vec![];
        let mut o = 0u32;
        for t in &s.textures {
            offs.push(o);
            o += t.len() as u32 + 1;
        }
        let mut map = HashMap::new();
        for (i, o) in offs.iter().enumerate() {
            map.insert(*o, i as u32);
        }
        let tex = |i: usize| if offs.is_empty() { 0 } else { offs[i % offs.len()] };
        let mut dd_off = 0u32;
        let doodad_defs: Vec<WmoDoodadDef> = (0..s.doodads)
            .map(|_| {
                // the name offsets at which the writer's synthetic "doodad_<offset>" names land
                let me = dd_off;
                dd_off += format!("doodad_{me}").len() as u32 + 1;
                WmoDoodadDef { name_offset: me, position: v3(sm.f3()), orientation: [0.0, 0.0, 0.0, 1.0], scale: 1.0, color: col(255, 255, 255, 255), set_index: 0 }
            })
            .collect();
        let groups: Vec<WmoGroupInfo> = (0..s.groups)
            .map(|i| WmoGroupInfo {
                flags: WmoGroupFlags::from_bits_truncate(if i == 0 { 0x8 } else { 0x2000 }),
                bounding_box: bb([i as f32 * 10.0, 0.0, 0.0], [i as f32 * 10.0 + 10.0, 10.0, 5.0]),
                name: format!("Group{i}"),
            })
            .collect();
        let mut flags = 0u32;
        if s.skybox.is_some() {
            flags |= 0x20;
        }
        WmoRoot {
            version: ver,
            materials: (0..s.materials)
                .map(|i| WmoMaterial {
                    flags: WmoMaterialFlags::from_bits_truncate(i as u32 & 0xF),
                    shader: i as u32 % 3,
                    blend_mode: i as u32 % 2,
                    texture1: tex(i),
                    emissive_color: col(0, 0, 0, 255),
                    sidn_color: col(10, 20, 30, 255),
                    framebuffer_blend: Color::default(),
                    texture2: tex(i + 1),
                    diffuse_color: col(200, 180, 160, 255),
                    ground_type: i as u32,
                })
                .collect(),
            portals: (0..s.portals)
                .map(|i| WmoPortal {
                    vertices: (0..4).map(|k| v3([10.0 * (i + 1) as f32, (k / 2) as f32 * 3.0, (k % 2) as f32 * 4.0])).collect(),
                    normal: v3([1.0, 0.0, 0.0]),
                })
                .collect(),
            portal_references: (0..s.portals * 2)
                .map(|i| WmoPortalReference { portal_index: (i / 2) as u16, group_index: ((i / 2 + i % 2) % s.groups.max(1)) as u16, side: if i % 2 == 0 { 1 } else { 0xFFFF } })
                .collect(),
            visible_block_lists: vec![],
            lights: (0..s.lights)
                .map(|i| WmoLight {
                    light_type: if i % 2 == 0 { WmoLightType::Omni } else { WmoLightType::Ambient },
                    position: v3(sm.f3()),
                    color: col(255, 200, 100, 255),
                    intensity: 1.5,
                    rotation: [0.0, 0.0, 0.0, 1.0],
                    attenuation_start: 2.0,
                    attenuation_end: 9.0,
                    use_attenuation: true,
                    properties: if i % 2 == 0 { WmoLightProperties::Omni } else { WmoLightProperties::Ambient },
                })
                .collect(),
            doodad_sets: (0..s.sets)
                .map(|i| WmoDoodadSet {
                    name: if i == 0 { "Set_$DefaultGlobal".to_string() } else { format!("Set{i}") },
                    start_doodad: 0,
                    n_doodads: s.doodads as u32,
                })
                .collect(),
            bounding_box: bb([0.0, 0.0, 0.0], [10.0 * s.groups.max(1) as f32, 10.0, 5.0]),
            textures: s.textures.iter().map(|t| t.to_string()).collect(),
            texture_offset_index_map: map,
            header: WmoHeader {
                n_materials: s.materials as u32,
                n_groups: s.groups as u32,
                n_portals: s.portals as u32,
                n_lights: s.lights as u32,
                n_doodad_names: s.doodads as u32,
                n_doodad_defs: s.doodads as u32,
                n_doodad_sets: s.sets as u32,
                flags: WmoFlags::from_bits_truncate(flags),
                ambient_color: col(64, 64, 64, 255),
            },
            doodad_defs,
            groups,
            skybox: s.skybox.map(|x| x.to_string()),
            convex_volume_planes: None,
        }
    }

    fn root_bytes(r: &WmoRoot, ver: WmoVersion) -> Option<Vec<u8>> {
        let mut c = Cursor::new(Vec::new());
        WmoWriter::new().write_root(&mut c, r, ver).ok()?;
        Some(c.into_inner())
    }
    fn group_bytes(g: &WmoGroup, ver: WmoVersion) -> Option<Vec<u8>> {
        let mut c = Cursor::new(Vec::new());
        WmoWriter::new().write_group(&mut c, g, ver).ok()?;
        Some(c.into_inner())
    }

    fn magic_at(b: &[u8], p: usize) -> Option<String> {
        let m = b.get(p..p + 4)?;
        Some(String::from_utf8_lossy(&[m[3], m[2], m[1], m[0]]).to_string())
    }

    /// Re-emit a written root with a 64-byte MOHD and an MOMT whose size field covers the
    /// 64 bytes per material that were written. None if the stream does not tile afterwards.
    fn fix_root(b: &[u8]) -> Option<Vec<u8>> {
        let mut out = vec![];
        let mut p = 0usize;
        let mut n_mat = 0usize;
        while p + 8 <= b.len() {
            let name = magic_at(b, p)?;
            let mut size = u32at(b, p + 4) as usize;
            if !name.bytes().all(|c| c.is_ascii_uppercase() || c.is_ascii_digit()) {
                return None;
            }
            if name == "MOMT" && size == 40 * n_mat {
                size = 64 * n_mat;
            }
            let d = b.get(p + 8..p + 8 + size)?;
            if name == "MOHD" && size == 60 {
                n_mat = u32at(d, 0) as usize;
                let mut h = d[..32].to_vec();
                h.extend_from_slice(&0u32.to_le_bytes()); // wmoID
                h.extend_from_slice(&d[36..60]); // bounding box
                h.extend_from_slice(&d[32..34]); // flags
                h.extend_from_slice(&0u16.to_le_bytes()); // numLod
                rck(&mut out, "MOHD", &h);
            } else {
                if name == "MOHD" {
                    n_mat = u32at(d, 0) as usize;
                }
                rck(&mut out, &name, d);
            }
            p += 8 + size;
        }
        (p == b.len()).then_some(out)
    }

    const SUB: [&str; 12] = ["MOPY", "MOVI", "MOVT", "MONR", "MOTV", "MOBA", "MOLR", "MODR", "MOBN", "MOBR", "MOCV", "MLIQ"];

    /// Re-emit a written group with a 68-byte MOGP header (and a corrected MLIQ size).
    fn fix_group(b: &[u8]) -> Option<Vec<u8>> {
        if magic_at(b, 0)? != "MVER" || magic_at(b, 12)? != "MOGP" {
            return None;
        }
        let d = 20usize; // MOGP payload
        // the writer's 36-byte header: nameOffset, flags, box, u16 0, u16 index — or already 68
        let hdr = if SUB.contains(&magic_at(b, d + 36)?.as_str()) || d + 36 == b.len() { 36 } else { 68 };
        let mut body = vec![];
        if hdr == 36 {
            body.extend_from_slice(&b[d..d + 4]); // groupName
            body.extend_from_slice(&0u32.to_le_bytes()); // descriptiveGroupName
            body.extend_from_slice(&b[d + 4..d + 32]); // flags + bounding box
            body.extend_from_slice(&[0u8; 32]);
        } else {
            body.extend_from_slice(b.get(d..d + 68)?);
        }
        let mut p = d + hdr;
        while p + 8 <= b.len() {
            let name = magic_at(b, p)?;
            if !SUB.contains(&name.as_str()) {
                return None;
            }
            let mut size = u32at(b, p + 4) as usize;
            if name == "MLIQ" {
                let next_ok = |s: usize| p + 8 + s == b.len() || magic_at(b, p + 8 + s).is_some_and(|m| SUB.contains(&m.as_str()));
                if !next_ok(size) && next_ok(size + 8) {
                    size += 8;
                }
            }
            rck(&mut body, &name, b.get(p + 8..p + 8 + size)?);
            p += 8 + size;
        }
        if p != b.len() {
            return None;
        }
        let mut out = vec![];
        rck(&mut out, "MVER", &17u32.to_le_bytes());
        rck(&mut out, "MOGP", &body);
        Some(out)
    }

    struct GroupShape {
        verts: usize,
        batches: usize,
        colors: bool,
        bsp: usize,
        liquid: Option<(u32, u32)>,
        doodads: usize,
    }

    fn group(s: &GroupShape, sm: &mut Sm) -> WmoGroup {
        let n = s.verts;
        let tris = n / 3;
        WmoGroup {
            header: WmoGroupHeader {
                flags: WmoGroupFlags::from_bits_truncate(0x1 | if s.colors { 0x4 } else { 0 } | if s.liquid.is_some() { 0x1000 } else { 0 } | if s.doodads > 0 { 0x800 } else { 0 }),
                bounding_box: bb([-10.0, -10.0, 0.0], [10.0, 10.0, 8.0]),
                name_offset: 0,
                group_index: 1,
            },
            materials: vec![],
            vertices: (0..n).map(|_| v3(sm.f3())).collect(),
            normals: (0..n).map(|_| v3([0.0, 0.0, 1.0])).collect(),
            tex_coords: (0..n).map(|i| TexCoord { u: (i % 2) as f32, v: (i / 2 % 2) as f32 }).collect(),
            batches: (0..s.batches)
                .map(|i| WmoBatch {
                    flags: [0; 10],
                    material_id: i as u16,
                    start_index: (i * 3) as u32,
                    count: 3,
                    start_vertex: (i * 3) as u16,
                    end_vertex: (i * 3 + 2) as u16,
                    use_large_material_id: false,
                })
                .collect(),
            indices: (0..(tris * 3) as u16).collect(),
            vertex_colors: s.colors.then(|| (0..n).map(|i| col(i as u8 * 9, 128, 255 - i as u8, 255)).collect()),
            bsp_nodes: (s.bsp > 0).then(|| {
                (0..s.bsp)
                    .map(|i| WmoBspNode {
                        plane: WmoPlane { normal: v3([[1.0, 0.0, 0.0], [0.0, 1.0, 0.0], [0.0, 0.0, 1.0]][i % 3]), distance: i as f32 },
                        children: if i + 2 < s.bsp { [i as i16 + 1, i as i16 + 2] } else { [-1, -1] },
                        first_face: i as u16,
                        num_faces: 1,
                    })
                    .collect()
            }),
            liquid: s.liquid.map(|(w, h)| WmoLiquid {
                liquid_type: 13,
                flags: 0,
                width: w,
                height: h,
                vertices: (0..w * h).map(|i| WmoLiquidVertex { position: v3([(i % w) as f32 * 4.0, (i / w) as f32 * 4.0, 1.0]), height: 1.0 + 0.125 * i as f32 }).collect(),
                tile_flags: Some(vec![0x0F; ((w - 1) * (h - 1)) as usize]),
            }),
            doodad_refs: (s.doodads > 0).then(|| (0..s.doodads as u16).collect()),
        }
    }

    /// root file in the documented layout, every chunk root_parser knows
    fn hand_root(sm: &mut Sm) -> Vec<u8> {
        let textures = ["dungeons\\textures\\wall01.blp", "dungeons\\textures\\floor02.blp", "dungeons\\textures\\trim.blp"];
        let names = ["Antechamber", "MainHall"];
        let doodads = ["world\\generic\\torch.m2", "world\\generic\\barrel01.m2"];
        let (n_mat, n_grp, n_portal, n_light, n_dd, n_set) = (3u32, 2u32, 1u32, 2u32, 3u32, 2u32);
        let mut o = vec![];
        rck(&mut o, "MVER", &17u32.to_le_bytes());
        let mut w = W::default();
        w.u32(n_mat).u32(n_grp).u32(n_portal).u32(n_light).u32(doodads.len() as u32).u32(n_dd).u32(n_set);
        w.raw(&[0x40, 0x40, 0x40, 0xFF]).u32(4711).fs(&[-20.0, -20.0, 0.0, 20.0, 20.0, 12.0]).u16(0x0022).u16(0);
        rck(&mut o, "MOHD", &w.0);
        rck(&mut o, "MOTX", &cstrings(&textures));
        let mut w = W::default();
        let toff = [0u32, textures[0].len() as u32 + 1, (textures[0].len() + textures[1].len()) as u32 + 2];
        for i in 0..n_mat {
            w.u32(i & 3).u32(i % 4).u32(i % 2).u32(toff[i as usize]).raw(&[0, 0, 0, 255]).raw(&[1, 2, 3, 255]);
            w.u32(toff[(i as usize + 1) % 3]).raw(&[200, 180, 160, 255]).u32(i).u32(0).u32(0).u32(0).zeros(16);
        }
        rck(&mut o, "MOMT", &w.0);
        rck(&mut o, "MOGN", &[vec![0u8, 0], cstrings(&names)].concat());
        let mut w = W::default();
        w.u32(0x8).fs(&[-20.0, -20.0, 0.0, 0.0, 20.0, 12.0]).u32(2);
        w.u32(0x2000).fs(&[0.0, -20.0, 0.0, 20.0, 20.0, 12.0]).u32(2 + names[0].len() as u32 + 1);
        rck(&mut o, "MOGI", &w.0);
        rck(&mut o, "MOSB", &cstrings(&["environments\\stars\\deathskybox.m2"]));
        let mut w = W::default();
        w.fs(&[0.0, -2.0, 0.0, 0.0, 2.0, 0.0, 0.0, 2.0, 5.0, 0.0, -2.0, 5.0]);
        rck(&mut o, "MOPV", &w.0);
        let mut w = W::default();
        w.u16(0).u16(4).fs(&[1.0, 0.0, 0.0, 0.0]);
        rck(&mut o, "MOPT", &w.0);
        let mut w = W::default();
        w.u16(0).u16(1).i16(1).u16(0).u16(0).u16(0).i16(-1).u16(0);
        rck(&mut o, "MOPR", &w.0);
        let mut w = W::default();
        w.fs(&[0.0, 0.0, 0.0, 1.0, 0.0, 0.0, 1.0, 1.0, 0.0, 0.0, 1.0, 0.0]);
        rck(&mut o, "MOVV", &w.0);
        let mut w = W::default();
        w.u16(0).u16(4);
        rck(&mut o, "MOVB", &w.0);
        let mut w = W::default();
        for i in 0..n_light {
            w.u8(i as u8).u8(1).u16(0).raw(&[255, 220, 180, 255]).fs(&sm.f3()).f32(1.25).fs(&[0.0, 0.0, 0.0, 1.0]).f32(3.0).f32(11.0);
        }
        rck(&mut o, "MOLT", &w.0);
        let mut w = W::default();
        w.fixstr("Set_$DefaultGlobal", 20).u32(0).u32(2).u32(0);
        w.fixstr("Night", 20).u32(2).u32(1).u32(0);
        rck(&mut o, "MODS", &w.0);
        rck(&mut o, "MODN", &cstrings(&doodads));
        let mut w = W::default();
        for i in 0..n_dd {
            let name_off = if i % 2 == 0 { 0 } else { doodads[0].len() as u32 + 1 };
            w.u32(name_off | (i & 1) << 24).fs(&sm.f3()).fs(&[0.0, 0.0, 0.0, 1.0]).f32(1.0 + i as f32 * 0.25).raw(&[255, 255, 255, 255]);
        }
        rck(&mut o, "MODD", &w.0);
        let mut w = W::default();
        w.u32(0).fs(&[0.0, 0.0, 3.0]).f32(5.0).f32(25.0).f32(100.0).f32(0.25).raw(&[80, 90, 100, 255]).f32(50.0).f32(0.5).raw(&[10, 20, 60, 255]);
        rck(&mut o, "MFOG", &w.0);
        let mut w = W::default();
        w.fs(&[0.0, 0.0, 1.0, -12.0, 0.0, 0.0, -1.0, 0.0]);
        rck(&mut o, "MCVP", &w.0);
        let mut w = W::default();
        w.fs(&[0.1, 0.0, 0.0, 0.2]).fs(&[0.0; 4]).fs(&[0.0; 4]);
        rck(&mut o, "MOUV", &w.0);
        rck(&mut o, "GFID", &[5_100_001u32, 5_100_002].iter().flat_map(|x| x.to_le_bytes()).collect::<Vec<u8>>());
        rck(&mut o, "MODI", &[5_200_001u32, 5_200_002].iter().flat_map(|x| x.to_le_bytes()).collect::<Vec<u8>>());
        o
    }

    /// group file in the documented layout: 68-byte MOGP header, every sub-chunk group_parser knows
    fn hand_group(sm: &mut Sm, n_vert: usize, extras: bool) -> Vec<u8> {
        let tris = n_vert / 3;
        let mut body = W::default();
        body.u32(2).u32(14).u32(0x1 | 0x4 | 0x200 | 0x800 | 0x1000).fs(&[-10.0, -10.0, 0.0, 10.0, 10.0, 8.0]);
        body.u16(0).u16(1).u16(0).u16(1).u16(tris.saturating_sub(1) as u16).u16(0).raw(&[0, 0, 0, 0]).u32(15).u32(1234).u32(0).i16(-1).i16(-1);
        let mut sub = vec![];
        rck(&mut sub, "MOPY", &(0..tris).flat_map(|i| [0x20u8, (i % 3) as u8]).collect::<Vec<u8>>());
        rck(&mut sub, "MOVI", &(0..(tris * 3) as u16).flat_map(|i| i.to_le_bytes()).collect::<Vec<u8>>());
        rck(&mut sub, "MOVT", &sm.fbytes(3 * n_vert));
        rck(&mut sub, "MONR", &(0..n_vert).flat_map(|_| [0f32, 0.0, 1.0]).flat_map(|x| x.to_le_bytes()).collect::<Vec<u8>>());
        rck(&mut sub, "MOTV", &(0..n_vert).flat_map(|i| [(i % 2) as f32, (i / 2 % 2) as f32]).flat_map(|x| x.to_le_bytes()).collect::<Vec<u8>>());
        let mut w = W::default();
        for i in 0..tris.min(3) {
            w.i16(-10).i16(-10).i16(0).i16(10).i16(10).i16(8).u32(i as u32 * 3).u16(3).u16(i as u16 * 3).u16(i as u16 * 3 + 2).u8(0).u8(i as u8);
        }
        rck(&mut sub, "MOBA", &w.0);
        rck(&mut sub, "MOLR", &[0u16, 1].iter().flat_map(|x| x.to_le_bytes()).collect::<Vec<u8>>());
        rck(&mut sub, "MODR", &[0u16, 2, 1].iter().flat_map(|x| x.to_le_bytes()).collect::<Vec<u8>>());
        let mut w = W::default();
        w.u16(0).i16(1).i16(2).u16(0).u32(0).f32(0.0);
        w.u16(4).i16(-1).i16(-1).u16(tris as u16 / 2).u32(0).f32(0.0);
        w.u16(4).i16(-1).i16(-1).u16((tris - tris / 2) as u16).u32(tris as u32 / 2).f32(0.0);
        rck(&mut sub, "MOBN", &w.0);
        rck(&mut sub, "MOBR", &(0..tris as u16).flat_map(|i| i.to_le_bytes()).collect::<Vec<u8>>());
        rck(&mut sub, "MOCV", &(0..n_vert).flat_map(|i| [i as u8, 128, 255 - i as u8, 255]).collect::<Vec<u8>>());
        let (xv, yv) = (3u32, 3u32);
        let mut w = W::default();
        w.u32(xv).u32(yv).u32(xv - 1).u32(yv - 1).fs(&[-4.0, -4.0, 1.0]).u16(2);
        for i in 0..xv * yv {
            w.raw(&[0, 0, 10, 20]).f32(1.0 + i as f32 * 0.0625);
        }
        w.raw(&[0x04, 0x04, 0x0F, 0x44]);
        rck(&mut sub, "MLIQ", &w.0);
        if extras {
            rck(&mut sub, "MORI", &(0..6u16).flat_map(|i| i.to_le_bytes()).collect::<Vec<u8>>());
            let mut w = W::default();
            w.u32(0).u16(6).u16(0).u16(5);
            rck(&mut sub, "MORB", &w.0);
            rck(&mut sub, "MOTA", &[0i16, 1, 2, 3].iter().flat_map(|x| x.to_le_bytes()).collect::<Vec<u8>>());
            let mut w = W::default();
            w.u32(0).u16(3).u16(0).u16(2);
            rck(&mut sub, "MOBS", &w.0);
            rck(&mut sub, "MOGX", &0u32.to_le_bytes());
            rck(&mut sub, "MPY2", &(0..tris).flat_map(|i| [0x20u16, (i % 3) as u16]).flat_map(|x| x.to_le_bytes()).collect::<Vec<u8>>());
            rck(&mut sub, "MOVX", &(0..(tris * 3) as u32).flat_map(|i| i.to_le_bytes()).collect::<Vec<u8>>());
            rck(&mut sub, "MOQG", &(0..tris as u32).flat_map(|i| i.to_le_bytes()).collect::<Vec<u8>>());
        }
        body.raw(&sub);
        let mut o = vec![];
        rck(&mut o, "MVER", &17u32.to_le_bytes());
        rck(&mut o, "MOGP", &body.0);
        o
    }

    pub fn seeds(v: &mut Vec<Seed>) {
        let mut sm = Sm(0xC05_0300);
        let full = RootShape {
            textures: vec!["a\\wall.blp", "a\\floor.blp"],
            materials: 2,
            groups: 2,
            portals: 1,
            lights: 2,
            doodads: 3,
            sets: 2,
            skybox: None,
        };
        for (name, ver, shape) in [
            ("classic-mat-grp-portal-light-doodads", WmoVersion::Classic, &full),
            ("mop-mat-grp-portal-light-doodads", WmoVersion::Mop, &full),
            (
                "wotlk-skybox-1group-no-materials",
                WmoVersion::Wotlk,
                &RootShape { textures: vec!["t.blp"], materials: 0, groups: 1, portals: 0, lights: 0, doodads: 0, sets: 1, skybox: Some("sky\\box.m2") },
            ),
            (
                "legion-3groups-1material",
                WmoVersion::Legion,
                &RootShape { textures: vec!["t.blp", "u.blp", "v.blp"], materials: 1, groups: 3, portals: 2, lights: 1, doodads: 1, sets: 1, skybox: None },
            ),
        ] {
            let r = root(ver, shape, &mut sm);
            if let Some(b) = root_bytes(&r, ver) {
                if let Some(f) = fix_root(&b) {
                    push(v, "wmo_root", format!("{name}-fixed"), f);
                }
                push(v, "wmo_root", format!("{name}-as-written"), b);
            }
        }
        push(v, "wmo_root", "hand-all-root-chunks", hand_root(&mut sm));

        for (name, ver, shape) in [
            ("classic-12v-2batch-colors-bsp-liquid-doodads", WmoVersion::Classic, GroupShape { verts: 12, batches: 2, colors: true, bsp: 3, liquid: Some((3, 2)), doodads: 2 }),
            ("wotlk-6v-1batch", WmoVersion::Wotlk, GroupShape { verts: 6, batches: 1, colors: false, bsp: 0, liquid: None, doodads: 0 }),
            ("mop-24v-4batch-bsp", WmoVersion::Mop, GroupShape { verts: 24, batches: 4, colors: true, bsp: 5, liquid: None, doodads: 1 }),
        ] {
            let g = group(&shape, &mut sm);
            if let Some(b) = group_bytes(&g, ver) {
                if let Some(f) = fix_group(&b) {
                    push(v, "wmo_group", format!("{name}-fixed"), f);
                }
                push(v, "wmo_group", format!("{name}-as-written"), b);
            }
        }
        push(v, "wmo_group", "hand-12v-all-classic-subchunks", hand_group(&mut sm, 12, false));
        push(v, "wmo_group", "hand-18v-modern-subchunks", hand_group(&mut sm, 18, true));
    }
}
// ---------------------------------------------------------------------------------------
// BLP textures (image_to_blp + encode_blp / encode_blp0, plus the crate's own fixtures)

mod blps {
    use super::*;
    use image::{DynamicImage, RgbaImage};
    use wow_blp::convert::{AlphaBits, Blp2Format, BlpOldFormat, BlpTarget, DxtAlgorithm, FilterType, image_to_blp};
    use wow_blp::encode::{encode_blp, encode_blp0};

    fn picture(w: u32, h: u32, alpha: bool) -> DynamicImage {
        let img = RgbaImage::from_fn(w, h, |x, y| {
            let a = if alpha { ((x * 255) / w.max(1)) as u8 } else { 255 };
            image::Rgba([(x * 255 / w.max(1)) as u8, (y * 255 / h.max(1)) as u8, ((x ^ y) * 16) as u8, a])
        });
        DynamicImage::ImageRgba8(img)
    }

    pub fn seeds(v: &mut Vec<Seed>) {
        let dxt = DxtAlgorithm::RangeFit;
        // square power-of-two sizes only: the mip chain of other shapes is written short (open
        // C16 findings) and DXT levels with partial blocks are truncated on parse
        let cases: Vec<(&str, u32, u32, bool, bool, BlpTarget)> = vec![
            ("blp1-raw1-a8-16x16-mips", 16, 16, true, true, BlpTarget::Blp1(BlpOldFormat::Raw1 { alpha_bits: AlphaBits::Bit8 })),
            ("blp2-raw1-a1-16x16-mips", 16, 16, true, true, BlpTarget::Blp2(Blp2Format::Raw1 { alpha_bits: AlphaBits::Bit1 })),
            ("blp2-raw3-8x8-mips", 8, 8, true, true, BlpTarget::Blp2(Blp2Format::Raw3)),
            ("blp2-dxt1-alpha-16x16-mips", 16, 16, true, true, BlpTarget::Blp2(Blp2Format::Dxt1 { has_alpha: true, compress_algorithm: dxt })),
            ("blp2-dxt3-32x32-mips", 32, 32, true, true, BlpTarget::Blp2(Blp2Format::Dxt3 { has_alpha: true, compress_algorithm: dxt })),
            ("blp2-dxt5-16x16-nomips", 16, 16, true, false, BlpTarget::Blp2(Blp2Format::Dxt5 { has_alpha: true, compress_algorithm: dxt })),
            ("blp2-jpeg-alpha-16x16-mips", 16, 16, true, true, BlpTarget::Blp2(Blp2Format::Jpeg { has_alpha: true })),
        ];
        for (name, w, h, alpha, mips, target) in cases {
            if let Ok(img) = image_to_blp(picture(w, h, alpha), mips, target, FilterType::Triangle) {
                if let Ok(b) = encode_blp(&img) {
                    push(v, "blp", name, b);
                }
            }
        }
        // BLP0 keeps every image in external .b00 … files: the main file alone is header (+ palette
        // / JPEG header) only, parse_blp needs parse_blp_with_externals to get further
        for (name, target) in [("blp0-raw1-a8-8x8-main-file-only", BlpTarget::Blp0(BlpOldFormat::Raw1 { alpha_bits: AlphaBits::Bit8 }))] {
            if let Ok(img) = image_to_blp(picture(8, 8, true), true, target, FilterType::Nearest) {
                if let Ok(r) = encode_blp0(&img) {
                    push(v, "blp", name, r.blp_bytes);
                }
            }
        }
        // the crate's own fixtures: BLP1 JPEG and BLP1 palettised, 2x2 / 2x3 with mip chain
        push(v, "blp", "fixture-test_simple_jpg", include_bytes!("/repo/file-formats/graphics/wow-blp/test-data/test_simple_jpg.blp").to_vec());
        push(v, "blp", "fixture-test_rect_with_alpha", include_bytes!("/repo/file-formats/graphics/wow-blp/test-data/test_rect_with_alpha.blp").to_vec());
    }
}

// ---------------------------------------------------------------------------------------
// DBC tables (hand-encoded WDBC / WDB2 / WDB5; the crate's writer needs a RecordSet that only
// its parser can create)

mod dbcs {
    use super::*;

    #[derive(Clone, Copy)]
    enum Col {
        U32,
        I32,
        F32,
        Str,
        U8,
        U16,
    }

    /// records + interned string block (offset 0 = empty string)
    fn table(cols: &[Col], rows: u32, sm: &mut Sm) -> (Vec<u8>, Vec<u8>, u32) {
        let words = ["", "Stormwind", "Orgrimmar", "Ironforge", "Darnassus", "Thunder Bluff", "Undercity", "Ünïcödé — 名前"];
        let mut strings = vec![0u8];
        let mut at = vec![0u32];
        for w in &words[1..] {
            at.push(strings.len() as u32);
            strings.extend_from_slice(w.as_bytes());
            strings.push(0);
        }
        let mut rec = W::default();
        for r in 0..rows {
            for (c, col) in cols.iter().enumerate() {
                match col {
                    Col::U32 => rec.u32(if c == 0 { r + 1 } else { sm.u32() >> (r % 24) }),
                    Col::I32 => rec.u32((sm.u32() as i32 >> 8) as u32),
                    Col::F32 => rec.f32(sm.f()),
                    Col::Str => rec.u32(at[(r as usize + c) % at.len()]),
                    Col::U8 => rec.u8(sm.u8()),
                    Col::U16 => rec.u16(sm.u16()),
                };
            }
        }
        let size: u32 = cols.iter().map(|c| match c { Col::U8 => 1, Col::U16 => 2, _ => 4 }).sum();
        (rec.0, strings, size)
    }

    fn wdbc(cols: &[Col], rows: u32, with_strings: bool, sm: &mut Sm) -> Vec<u8> {
        let (rec, strings, size) = table(cols, rows, sm);
        let strings = if with_strings { strings } else { vec![0u8] };
        let mut w = W::default();
        w.raw(b"WDBC").u32(rows).u32(cols.len() as u32).u32(size).u32(strings.len() as u32).raw(&rec).raw(&strings);
        w.0
    }

    pub fn seeds(v: &mut Vec<Seed>) {
        let mut sm = Sm(0xC05_0DBC);
        use Col::*;
        push(v, "dbc", "wdbc-id-int-float-string-8rows", wdbc(&[U32, I32, F32, Str], 8, true, &mut sm));
        push(v, "dbc", "wdbc-ints-only-3rows-1byte-stringblock", wdbc(&[U32, U32, I32], 3, false, &mut sm));
        push(v, "dbc", "wdbc-2strings-40rows", wdbc(&[U32, Str, Str, F32, F32, U32], 40, true, &mut sm));
        push(v, "dbc", "wdbc-empty-table-5fields", wdbc(&[U32, U32, F32, Str, I32], 0, true, &mut sm));
        push(v, "dbc", "wdbc-1row-1field", wdbc(&[U32], 1, false, &mut sm));
        // packed columns: field_count 5, record_size 12 (needs a schema to read records right;
        // without one the parser reads field_count 32-bit words per record)
        push(v, "dbc", "wdbc-mixed-widths-u32-u8-u8-u16-str-6rows", wdbc(&[U32, U8, U8, U16, Str], 6, true, &mut sm));
        // WDB2, basic 28-byte header (build <= 12880)
        let cols = [U32, F32, Str];
        let (rec, strings, size) = table(&cols, 5, &mut sm);
        let mut w = W::default();
        w.raw(b"WDB2").u32(5).u32(cols.len() as u32).u32(size).u32(strings.len() as u32).u32(0x1234_5678).u32(12340).u32(0x4F00_0000);
        w.raw(&rec).raw(&strings);
        push(v, "dbc", "wdb2-basic-header-5rows", w.0);
        // WDB2, extended header (build > 12880) with index + string-length arrays for ids 1..=4
        let (rec, strings, size) = table(&cols, 4, &mut sm);
        let mut w = W::default();
        w.raw(b"WDB2").u32(4).u32(cols.len() as u32).u32(size).u32(strings.len() as u32).u32(0x8765_4321).u32(15595).u32(0x4F00_0000);
        w.u32(1).u32(4).u32(0).u32(0);
        for i in 0..4u32 {
            w.u32(i + 1);
        }
        for _ in 0..4 {
            w.u16(0);
        }
        w.raw(&rec).raw(&strings);
        push(v, "dbc", "wdb2-extended-header-index-arrays-4rows", w.0);
        // WDB5: 48-byte header (the parser reads 44 bytes and starts the records at 48)
        let (rec, strings, size) = table(&cols, 6, &mut sm);
        let mut w = W::default();
        w.raw(b"WDB5").u32(6).u32(cols.len() as u32).u32(size).u32(strings.len() as u32).u32(0xAABB_CCDD).u32(0x1122_3344).u32(1).u32(6).u32(0);
        w.u16(0).u16(0).u32(0);
        w.raw(&rec).raw(&strings);
        push(v, "dbc", "wdb5-6rows", w.0);
    }
}

// ---------------------------------------------------------------------------------------
// WDT map definitions (WdtWriter). Names start with the version token WdtReader::new needs.

mod wdts {
    use super::*;
    use wow_wdt::chunks::maid::MaidSection;
    use wow_wdt::chunks::mphd::FileDataIds;
    use wow_wdt::chunks::{MaidChunk, ModfChunk, ModfEntry, MphdFlags, MwmoChunk};
    use wow_wdt::version::WowVersion;
    use wow_wdt::{WdtFile, WdtWriter};

    fn bytes(f: &WdtFile) -> Option<Vec<u8>> {
        let mut buf = Vec::new();
        WdtWriter::new(&mut buf).write(f).ok()?;
        Some(buf)
    }

    fn tiles(w: &mut WdtFile, t: &[(usize, usize, u32)]) {
        for &(x, y, area) in t {
            if let Some(e) = w.main.get_mut(x, y) {
                e.flags = 1;
                e.area_id = area;
            }
        }
    }

    fn modf(id: u32, uid: u32) -> ModfEntry {
        ModfEntry {
            id,
            unique_id: uid,
            position: [17000.0, 120.0, 16500.0],
            rotation: [0.0, 90.0, 0.0],
            lower_bounds: [16900.0, 100.0, 16400.0],
            upper_bounds: [17100.0, 200.0, 16600.0],
            flags: 0,
            doodad_set: 0,
            name_set: 0,
            scale: 0,
        }
    }

    pub fn seeds(v: &mut Vec<Seed>) {
        let block: Vec<(usize, usize, u32)> = (30..34).flat_map(|y| (28..33).map(move |x| (x, y, (x * 64 + y) as u32))).collect();

        // Classic terrain map: MAIN tiles + (empty) MWMO
        let mut w = WdtFile::new(WowVersion::Classic);
        tiles(&mut w, &block);
        tiles(&mut w, &[(0, 0, 1), (63, 63, 2), (0, 63, 3)]);
        w.mwmo = Some(MwmoChunk::new());
        if let Some(b) = bytes(&w) {
            push(v, "wdt", "classic-terrain-23tiles-empty-mwmo", b);
        }

        // WotLK WMO-only map: flag 1, MWMO + MODF
        let mut w = WdtFile::new(WowVersion::WotLK);
        w.mphd.flags = MphdFlags::from_bits_truncate(0x1);
        let mut m = MwmoChunk::new();
        m.add_filename("World\\wmo\\Dungeon\\KL_Orgrimmar\\Orgrimmar.wmo".to_string());
        w.mwmo = Some(m);
        let mut c = ModfChunk::new();
        c.add_entry(modf(0, 4242));
        w.modf = Some(c);
        if let Some(b) = bytes(&w) {
            push(v, "wdt", "wotlk-wmo-only-mwmo-modf", b);
        }

        // Cataclysm terrain map (no MWMO), MPHD flags
        let mut w = WdtFile::new(WowVersion::Cataclysm);
        w.mphd.flags = MphdFlags::from_bits_truncate(0x2 | 0x4 | 0x8);
        tiles(&mut w, &block);
        if let Some(b) = bytes(&w) {
            push(v, "wdt", "cata-terrain-20tiles-flags", b);
        }

        // MoP empty map
        if let Some(b) = bytes(&WdtFile::new(WowVersion::MoP)) {
            push(v, "wdt", "mop-empty-map", b);
        }

        // BfA: file-data ids in MPHD + MAID (one section, 16 KiB; the full 8-section table is 128 KiB)
        let mut w = WdtFile::new(WowVersion::BfA);
        w.mphd.flags = MphdFlags::from_bits_truncate(0x2 | 0x4 | 0x40);
        w.mphd.set_file_data_ids(FileDataIds { lgt: 1_000_001, occ: 1_000_002, fogs: 1_000_003, mpv: 1_000_004, tex: 1_000_005, wdl: 1_000_006, pd4: 1_000_007 });
        tiles(&mut w, &block[..6]);
        let mut m = MaidChunk::with_section_count(1);
        for (i, &(x, y, _)) in block[..6].iter().enumerate() {
            let _ = m.set(MaidSection::all()[0], x, y, 2_000_000 + i as u32);
        }
        w.maid = Some(m);
        if let Some(b) = bytes(&w) {
            push(v, "wdt", "bfa-terrain-6tiles-maid-1section-filedataids", b);
        }

        // Legion WMO-only with two names and two placements
        let mut w = WdtFile::new(WowVersion::Legion);
        w.mphd.flags = MphdFlags::from_bits_truncate(0x1);
        let mut m = MwmoChunk::new();
        m.add_filename("world/wmo/a.wmo".to_string());
        m.add_filename("world/wmo/b.wmo".to_string());
        w.mwmo = Some(m);
        let mut c = ModfChunk::new();
        c.add_entry(modf(0, 1));
        c.add_entry(modf(1, 2));
        w.modf = Some(c);
        if let Some(b) = bytes(&w) {
            push(v, "wdt", "legion-wmo-only-2mwmo-2modf", b);
        }
    }
}

// ---------------------------------------------------------------------------------------
// WDL low-resolution maps (WdlParser::write)

mod wdls {
    use super::*;
    use wow_wdl::parser::WdlParser;
    use wow_wdl::types::{BoundingBox, HeightMapTile, HolesData, M2Placement, M2VisibilityInfo, ModelPlacement, Vec3d, WdlFile};
    use wow_wdl::version::WdlVersion;

    fn tile(x: u32, y: u32) -> HeightMapTile {
        let h = |i: u32| ((i * 7 + x * 13 + y * 31) % 400) as i16 - 100;
        HeightMapTile { outer_values: (0..289).map(h).collect(), inner_values: (289..545).map(h).collect() }
    }

    fn file(ver: WdlVersion, tiles: &[(u32, u32)], holes: &[(u32, u32)]) -> WdlFile {
        let mut f = WdlFile::with_version(ver);
        for &(x, y) in tiles {
            f.heightmap_tiles.insert((x, y), tile(x, y));
        }
        for &(x, y) in holes {
            let mut m = [0u16; 16];
            for (i, v) in m.iter_mut().enumerate() {
                *v = (0x8001u16).rotate_left(i as u32) ^ (x + y) as u16;
            }
            f.holes_data.insert((x, y), HolesData { hole_masks: m });
        }
        f
    }

    fn bytes(f: &WdlFile, ver: WdlVersion) -> Option<Vec<u8>> {
        let mut c = Cursor::new(Vec::new());
        WdlParser::with_version(ver).write(&mut c, f).ok()?;
        Some(c.into_inner())
    }

    fn place(id: u32) -> ModelPlacement {
        ModelPlacement {
            id,
            wmo_id: id,
            position: Vec3d::new(17000.0, 100.0, 16000.0 + id as f32),
            rotation: Vec3d::new(0.0, 45.0, 0.0),
            bounds: BoundingBox::new(Vec3d::new(16900.0, 50.0, 15900.0), Vec3d::new(17100.0, 300.0, 16100.0)),
            flags: 0,
            doodad_set: 0,
            name_set: 0,
            padding: 0,
        }
    }

    pub fn seeds(v: &mut Vec<Seed>) {
        let three = [(31, 31), (32, 31), (31, 32)];
        if let Some(b) = bytes(&file(WdlVersion::Vanilla, &three, &[]), WdlVersion::Vanilla) {
            push(v, "wdl", "vanilla-3tiles", b);
        }
        // WotLK: holes on some tiles, WMO names / indices / placements
        let mut f = file(WdlVersion::Wotlk, &[(0, 0), (63, 63), (10, 20), (20, 10), (33, 34)], &[(10, 20), (33, 34)]);
        f.wmo_filenames = vec!["World\\wmo\\Azeroth\\Buildings\\Stormwind\\Stormwind.wmo".to_string(), "world/wmo/b.wmo".to_string()];
        f.wmo_indices = vec![0, 54];
        f.wmo_placements = vec![place(0), place(1)];
        if let Some(b) = bytes(&f, WdlVersion::Wotlk) {
            push(v, "wdl", "wotlk-5tiles-2holes-mwmo-mwid-modf", b);
        }
        if let Some(b) = bytes(&file(WdlVersion::Wotlk, &[], &[]), WdlVersion::Wotlk) {
            push(v, "wdl", "wotlk-empty", b);
        }
        // MoP: a strip of tiles, all with holes
        let strip: Vec<(u32, u32)> = (25..37).map(|x| (x, 30)).collect();
        let mut f = file(WdlVersion::Mop, &strip, &strip);
        f.wmo_filenames = vec!["a.wmo".to_string()];
        f.wmo_indices = vec![0];
        f.wmo_placements = vec![place(0)];
        if let Some(b) = bytes(&f, WdlVersion::Mop) {
            push(v, "wdl", "mop-12tiles-all-holes-1wmo", b);
        }
        // Legion: model placement chunks (MLDD / MLDX / MLMD / MLMX)
        let mut f = file(WdlVersion::Legion, &three, &[(31, 31)]);
        f.m2_placements = (0..3)
            .map(|i| M2Placement { id: i, m2_id: 900_000 + i, position: Vec3d::new(17000.0 + i as f32, 10.0, 16000.0), rotation: Vec3d::new(0.0, 0.0, 0.0), scale: 1.0, flags: 0 })
            .collect();
        f.m2_visibility = (0..3)
            .map(|i| M2VisibilityInfo { bounds: BoundingBox::new(Vec3d::new(-1.0, -1.0, 0.0), Vec3d::new(1.0, 1.0, 2.0 + i as f32)), radius: 3.0 })
            .collect();
        f.wmo_legion_placements = vec![M2Placement { id: 7, m2_id: 800_001, position: Vec3d::new(16000.0, 0.0, 16000.0), rotation: Vec3d::new(0.0, 180.0, 0.0), scale: 1.0, flags: 1 }];
        f.wmo_legion_visibility = vec![M2VisibilityInfo { bounds: BoundingBox::new(Vec3d::new(-50.0, -50.0, 0.0), Vec3d::new(50.0, 50.0, 80.0)), radius: 95.0 }];
        if let Some(b) = bytes(&f, WdlVersion::Legion) {
            push(v, "wdl", "legion-3tiles-1hole-mldd-mldx-mlmd-mlmx", b);
        }
        if let Some(b) = bytes(&file(WdlVersion::Bfa, &[(5, 5)], &[(5, 5)]), WdlVersion::Bfa) {
            push(v, "wdl", "bfa-1tile-1hole", b);
        }
    }
}

// ---------------------------------------------------------------------------------------
// (attributes) special file, hand-encoded: version 100, flags, then CRC32[n], FILETIME[n], MD5[n],
// patch bits ceil(n/8) in that order. Input encoding of the family: [block_count u16 LE][file data].

pub mod attrs {
    use super::{Seed, Sm, push};

    pub const CRC32: u32 = 1;
    pub const FILETIME: u32 = 2;
    pub const MD5: u32 = 4;
    pub const PATCH_BIT: u32 = 8;

    /// exact-size well-formed (attributes) data for `n` blocks
    pub fn file(n: usize, flags: u32, seed: u64) -> Vec<u8> {
        let mut r = Sm(seed);
        let mut d = vec![];
        d.extend_from_slice(&100u32.to_le_bytes());
        d.extend_from_slice(&flags.to_le_bytes());
        if flags & CRC32 != 0 {
            for _ in 0..n {
                d.extend_from_slice(&(r.next() as u32).to_le_bytes());
            }
        }
        if flags & FILETIME != 0 {
            for _ in 0..n {
                d.extend_from_slice(&r.next().to_le_bytes());
            }
        }
        if flags & MD5 != 0 {
            for _ in 0..n {
                d.extend_from_slice(&r.next().to_le_bytes());
                d.extend_from_slice(&r.next().to_le_bytes());
            }
        }
        if flags & PATCH_BIT != 0 {
            for _ in 0..n.div_ceil(8) {
                d.push(r.next() as u8 | 1);
            }
        }
        d
    }

    pub fn input(n: usize, data: &[u8]) -> Vec<u8> {
        let mut b = (n as u16).to_le_bytes().to_vec();
        b.extend_from_slice(data);
        b
    }

    pub fn seeds(v: &mut Vec<Seed>) {
        for n in [0usize, 1, 3, 7, 8, 9, 64] {
            for flags in 0u32..16 {
                let d = file(n, flags, 0xA77 ^ ((n as u64) << 8) ^ flags as u64);
                push(v, "attributes", format!("n{n}-f{flags:x}"), input(n, &d));
                // the parser deliberately accepts a patch-bit array that is one byte short
                if flags & PATCH_BIT != 0 && n > 0 {
                    push(v, "attributes", format!("n{n}-f{flags:x}-patchbits-1short"), input(n, &d[..d.len() - 1]));
                }
            }
        }
    }
}

// ---------------------------------------------------------------------------------------
// (listfile) special file

mod listfiles {
    use super::{Seed, push};

    pub fn seeds(v: &mut Vec<Seed>) {
        let names = ["Interface\\Icons\\INV_Misc_QuestionMark.blp", "World\\Maps\\Azeroth\\Azeroth.wdt", "DBFilesClient\\Spell.dbc", "d0\\f0.bin", "a"];
        let join = |sep: &str| names.iter().map(|n| format!("{n}{sep}")).collect::<String>().into_bytes();
        push(v, "listfile", "lf", join("\n"));
        push(v, "listfile", "crlf", join("\r\n"));
        push(v, "listfile", "semicolon", join(";"));
        push(v, "listfile", "semicolon-metadata-lines", names.iter().enumerate().map(|(i, n)| format!("{n};{i};0x{i:08x}\r\n")).collect::<String>().into_bytes());
        let mut bom = vec![0xEF, 0xBB, 0xBF];
        bom.extend(join("\r\n"));
        push(v, "listfile", "utf8-bom", bom);
        push(v, "listfile", "empty-lines-comments", b"\n\n; comment\n# other\n\r\n  \t \nfile1.txt\n\n\n ;x\nfile2.txt".to_vec());
        let mut long = vec![b'x'; 20_000];
        long.extend_from_slice(b"\nshort.txt\n");
        push(v, "listfile", "very-long-line", long);
        let mut bad = b"ok.txt\n".to_vec();
        bad.extend_from_slice(&[0xFF, 0xFE, 0xC3, 0x28, 0x80, b'\n', 0xE2, 0x82, b';', 0xF0, 0x9F, b'\r', b'\n', 0xC0, 0xAF]);
        bad.extend_from_slice(b"\nlast.txt");
        push(v, "listfile", "non-utf8", bad);
        push(v, "listfile", "no-trailing-newline-nul", b"a.txt\0b.txt\nc.txt".to_vec());
    }
}
