//! Structural "deep nesting" mutator of engine A.
//!
//! Chunked formats are (id, u32 size, payload)* sequences, and some ids are containers whose payload is
//! a chunk sequence again. A parser that walks containers by recursion has a depth bounded only by
//! `file size / 8`; prefixes, field substitution, chunk shuffling and havoc on valid files never build
//! such a shape. This module builds it on purpose:
//!
//! * **dictionary** — built at run time, per format family, from the *source files of the crate under
//!   test* (every four-character token over `[A-Z0-9_ ]` with a letter in it: identifiers such as
//!   `ChunkId::MCNK`, string / byte-string literals `"MOMO"` / `b"OMOM"`, byte arrays
//!   `[b'R', b'E', b'V', b'M']`, `0x4D564552`-style constants, words in comments) plus every chunk and
//!   sub-chunk id of the family's seed files. Each id is used in both byte orders (the crates store
//!   ids reversed on disk but write them forwards in match arms and documentation). Ids the parser
//!   knows but no valid file of the seed set contains (a container only old clients wrote, say) are
//!   reached this way.
//! * **shape** — the seed's leading chunk (MVER / MD21) followed by `depth` nested headers of the id with
//!   sizes `8·(depth−1)`, …, `8`, `0` (every container holds exactly the next one), with or without the
//!   rest of the seed behind it, and the same nest appended to the sub-chunk sequence of a container
//!   chunk of the seed (container size fixed up).
//!   For a container with a fixed header before its sub-chunks (MCNK: 128 bytes, MOGP: 68; detected in the
//!   seed) the container is also nested in itself with that many zero bytes at every level (≤ 4 MiB).
//! * **depth** — 20 000 and 120 000 levels (160 KB / 960 KB of input), judged on a thread with the default
//!   stack of `std::thread` (2 MiB): 120 000 frames of ≥ 18 bytes exhaust it, 20 000 frames of ≥ 105 bytes.
//!
//! The scan root is the directory the harness' path dependency points at (`Cargo.toml` next to
//! `CARGO_MANIFEST_DIR`, read at run time), overridden by `VERIF_REPO`, falling back to `/repo`.
use super::{Case, Mutation, chunks_of, seeds::Seed, splitmix};
use serde::{Deserialize, Serialize};
use serde_json::{Value, json};
use std::collections::{BTreeMap, BTreeSet};
use std::path::{Path, PathBuf};
use vcheck::engine::Tier;

/// where the nest goes
#[derive(Clone, Debug, Serialize, Deserialize, PartialEq)]
pub enum Place {
    /// behind the first top-level chunk of the seed; `keep_tail`: the other chunks of the seed follow the nest
    Top { keep_tail: bool },
    /// appended to the payload of top-level chunk `chunk` (a container: its payload ends in a sub-chunk
    /// sequence); the container's size field is fixed up, the rest of the file follows
    In { chunk: usize },
}

pub const GRID_DEPTHS: [usize; 2] = [20_000, 120_000];
/// stack of the thread nest cases are judged on: the default of `std::thread` (Rust's documented 2 MiB)
pub const THREAD_STACK: usize = 2 << 20;
/// replay files are free text: never build more than 8 MiB of nest
const MAX_BYTES: usize = 8 << 20;
/// nests with padded levels may take up to 4 MiB of input (30 840 levels of a 128-byte header)
const PADDED_BYTES: usize = 4 << 20;

/// format family → (crate name in the harness manifest, crate directory below the repository root)
const FAMILIES: [(&str, &str, &str); 8] = [
    ("m2", "wow-m2", "file-formats/graphics/wow-m2"),
    ("skin", "wow-m2", "file-formats/graphics/wow-m2"),
    ("anim", "wow-m2", "file-formats/graphics/wow-m2"),
    ("adt", "wow-adt", "file-formats/world-data/wow-adt"),
    ("wmo_root", "wow-wmo", "file-formats/graphics/wow-wmo"),
    ("wmo_group", "wow-wmo", "file-formats/graphics/wow-wmo"),
    ("wdt", "wow-wdt", "file-formats/world-data/wow-wdt"),
    ("wdl", "wow-wdl", "file-formats/world-data/wow-wdl"),
];

/// families whose seed set contains chunk-tiled files: an empty nest grid for one of them is a vacuous run
pub const EXPECTED_HOSTS: [&str; 6] = ["m2", "adt", "wmo_root", "wmo_group", "wdt", "wdl"];

fn id_char(c: u8) -> bool {
    c.is_ascii_uppercase() || c.is_ascii_digit() || c == b'_' || c == b' '
}

fn is_id(id: &[u8]) -> bool {
    id.len() == 4 && id.iter().all(|&c| id_char(c)) && id.iter().any(|c| c.is_ascii_uppercase())
}

fn id4(s: &str) -> [u8; 4] {
    let mut id = [b' '; 4];
    for (i, c) in s.bytes().take(4).enumerate() {
        id[i] = c;
    }
    id
}

// ------------------------------------------------------------------------------- input builder

/// `depth` headers, ids cycled, each container holding `pad` zero bytes (the fixed header containers such as
/// MCNK / MOGP put before their sub-chunks) and then exactly the next one
pub fn nest_bytes(ids: &[String], depth: usize, pad: usize) -> Vec<u8> {
    let pad = pad.min(4096);
    let depth = depth.min(MAX_BYTES / (8 + pad));
    let mut v = Vec::with_capacity(depth * (8 + pad));
    if ids.is_empty() {
        return v;
    }
    for level in 0..depth {
        v.extend_from_slice(&id4(&ids[level % ids.len()]));
        v.extend_from_slice(&(((depth - 1 - level) * (8 + pad) + pad) as u32).to_le_bytes());
        v.resize(v.len() + pad, 0);
    }
    v
}

pub fn apply(seed: &[u8], ids: &[String], depth: usize, pad: usize, place: &Place) -> Vec<u8> {
    let nest = nest_bytes(ids, depth, pad);
    let chunks = chunks_of(seed);
    let mut out = Vec::with_capacity(seed.len() + nest.len());
    match place {
        Place::In { chunk } if chunks.get(*chunk).is_some() => {
            let (s, l) = chunks[*chunk];
            out.extend_from_slice(&seed[..s + l]);
            out.extend_from_slice(&nest);
            out.extend_from_slice(&seed[s + l..]);
            let size = ((l - 8 + nest.len()) as u64).min(u32::MAX as u64) as u32;
            out[s + 4..s + 8].copy_from_slice(&size.to_le_bytes());
        }
        _ => {
            let lead = chunks.first().map(|&(s, l)| s + l).unwrap_or(0);
            out.extend_from_slice(&seed[..lead]);
            out.extend_from_slice(&nest);
            if matches!(place, Place::Top { keep_tail: true } | Place::In { .. }) {
                out.extend_from_slice(&seed[lead..]);
            }
        }
    }
    out
}

/// mutator part of the class signature: placement × depth class (never the id)
pub fn label(depth: usize, pad: usize, place: &Place, container: Option<&str>) -> String {
    let d = match (depth, pad) {
        (0..=999, _) => "shallow",
        (1_000..=49_999, 0) => "d<50k",
        (_, 0) => "d>=50k",
        (1_000..=49_999, _) => "d<50k-padded",
        _ => "d>=50k-padded",
    };
    match place {
        Place::Top { keep_tail: false } => format!("nest-top-{d}"),
        Place::Top { keep_tail: true } => format!("nest-top+tail-{d}"),
        Place::In { .. } => format!("nest-in-{}-{d}", container.unwrap_or("container")),
    }
}

/// id of top-level chunk `chunk` of the seed in reading order (for the class signature)
pub fn container_name(seed: &[u8], place: &Place) -> Option<String> {
    let Place::In { chunk } = place else { return None };
    let &(s, _) = chunks_of(seed).get(*chunk)?;
    let id = &seed[s..s + 4];
    if !is_id(id) {
        return None;
    }
    let fwd: Vec<u8> = if id[3] == b'M' && id[0] != b'M' { id.iter().rev().copied().collect() } else { id.to_vec() };
    Some(String::from_utf8_lossy(&fwd).trim().to_string())
}

// ----------------------------------------------------------------------------------- hosts

/// top-level chunks when the file is one complete sequence of ≥ 2 chunks with printable ids
fn tiling(b: &[u8]) -> Option<Vec<(usize, usize)>> {
    let c = chunks_of(b);
    let end = c.last().map(|&(s, l)| s + l)?;
    (c.len() >= 2 && end == b.len() && c.iter().all(|&(s, _)| is_id(&b[s..s + 4]))).then_some(c)
}

/// ids of the sub-chunk sequence the payload of chunk (s, l) ends in, behind a fixed header of 0..=256 bytes
fn sub_ids(b: &[u8], s: usize, l: usize) -> Option<Vec<[u8; 4]>> {
    sub_chunks(b, s, l).map(|x| x.1)
}

/// (size of the fixed header, ids of the sub-chunks behind it)
fn sub_chunks(b: &[u8], s: usize, l: usize) -> Option<(usize, Vec<[u8; 4]>)> {
    let (p0, end) = (s + 8, s + l);
    for h in (0..=256usize).step_by(4) {
        let mut p = p0 + h;
        let mut ids = vec![];
        while p + 8 <= end && is_id(&b[p..p + 4]) {
            let sz = u32::from_le_bytes(b[p + 4..p + 8].try_into().unwrap()) as usize;
            if p + 8 + sz > end {
                break;
            }
            ids.push(b[p..p + 4].try_into().unwrap());
            p += 8 + sz;
        }
        if p == end && !ids.is_empty() {
            return Some((h, ids));
        }
    }
    None
}

// ------------------------------------------------------------------------------ dictionary

fn manifest_paths() -> BTreeMap<String, PathBuf> {
    // `wow-wmo = { path = "/repo/file-formats/graphics/wow-wmo" … }` lines of the manifest this binary was built from
    let mut m = BTreeMap::new();
    let Ok(text) = std::fs::read_to_string(Path::new(env!("CARGO_MANIFEST_DIR")).join("Cargo.toml")) else { return m };
    for line in text.lines() {
        let Some((name, rest)) = line.split_once('=') else { continue };
        let Some(i) = rest.find("path") else { continue };
        let mut q = rest[i..].split('"');
        if let (Some(_), Some(p)) = (q.next(), q.next()) {
            m.insert(name.trim().to_string(), PathBuf::from(p));
        }
    }
    m
}

/// source directory of the crate a family is parsed by
pub fn crate_dir(format: &str) -> Option<PathBuf> {
    let &(_, krate, rel) = FAMILIES.iter().find(|f| f.0 == format)?;
    if let Ok(root) = std::env::var("VERIF_REPO") {
        if !root.is_empty() {
            return Some(Path::new(&root).join(rel));
        }
    }
    if let Some(p) = manifest_paths().get(krate) {
        if p.join("src").is_dir() {
            return Some(p.clone());
        }
    }
    Some(Path::new("/repo").join(rel))
}

fn rs_files(dir: &Path, out: &mut Vec<PathBuf>) {
    let Ok(rd) = std::fs::read_dir(dir) else { return };
    let mut entries: Vec<PathBuf> = rd.flatten().map(|e| e.path()).collect();
    entries.sort();
    for p in entries {
        if p.is_dir() {
            rs_files(&p, out);
        } else if p.extension().is_some_and(|e| e == "rs") {
            out.push(p);
        }
    }
}

/// every four-character id spelled in a source text (in the order written)
pub fn scan_ids(t: &[u8], out: &mut BTreeSet<[u8; 4]>) {
    let word = |c: u8| c.is_ascii_alphanumeric() || c == b'_';
    let mut i = 0;
    // byte-character run: `b'R', b'E', b'V', b'M'`
    let mut run: Vec<u8> = vec![];
    let mut run_end = 0usize;
    let flush = |run: &mut Vec<u8>, out: &mut BTreeSet<[u8; 4]>| {
        if run.len() == 4 && is_id(run) {
            out.insert([run[0], run[1], run[2], run[3]]);
        }
        run.clear();
    };
    while i < t.len() {
        let c = t[i];
        // quoted literal of four id characters (spaces allowed): "MVER", b"REVM", "DXT "
        if c == b'"' && i + 5 < t.len() && t[i + 5] == b'"' && is_id(&t[i + 1..i + 5]) {
            out.insert(t[i + 1..i + 5].try_into().unwrap());
        }
        if c == b'b' && i + 3 < t.len() && t[i + 1] == b'\'' && t[i + 3] == b'\'' && (i == 0 || !word(t[i - 1])) {
            let gap_ok = t[run_end..i].iter().all(|&g| g == b',' || g.is_ascii_whitespace());
            if !run.is_empty() && !gap_ok {
                flush(&mut run, out);
            }
            run.push(t[i + 2]);
            run_end = i + 4;
            i += 4;
            continue;
        }
        if word(c) && (i == 0 || !word(t[i - 1])) {
            let mut j = i;
            while j < t.len() && word(t[j]) {
                j += 1;
            }
            let w = &t[i..j];
            if is_id(w) {
                out.insert(w.try_into().unwrap());
            }
            // 0x4D564552 / 0x4D56_4552
            if w.len() >= 10 && (w.starts_with(b"0x") || w.starts_with(b"0X")) {
                let hex: Vec<u8> = w[2..].iter().copied().filter(|&h| h != b'_').collect();
                let hex = if hex.ends_with(b"u32") { &hex[..hex.len() - 3] } else { &hex[..] };
                if hex.len() == 8 {
                    if let Ok(s) = std::str::from_utf8(hex) {
                        if let Ok(v) = u32::from_str_radix(s, 16) {
                            let b = v.to_be_bytes();
                            if is_id(&b) {
                                out.insert(b);
                            }
                        }
                    }
                }
            }
            i = j;
            continue;
        }
        i += 1;
    }
    flush(&mut run, out);
}

pub struct Dictionary {
    pub dir: PathBuf,
    pub files: usize,
    pub from_source: usize,
    pub from_seeds: usize,
    /// ids as stored on disk, both byte orders of everything found, sorted
    pub ids: Vec<String>,
}

fn dictionary(format: &str, seeds: &[Seed]) -> Dictionary {
    let dir = crate_dir(format).unwrap_or_else(|| PathBuf::from("/nonexistent"));
    let mut files = vec![];
    rs_files(&dir.join("src"), &mut files);
    let mut src = BTreeSet::new();
    for f in &files {
        if let Ok(t) = std::fs::read(f) {
            scan_ids(&t, &mut src);
        }
    }
    let mut from_seeds = BTreeSet::new();
    for s in seeds.iter().filter(|s| s.format == format) {
        if let Some(c) = tiling(&s.bytes) {
            for &(cs, cl) in &c {
                from_seeds.insert(<[u8; 4]>::try_from(&s.bytes[cs..cs + 4]).unwrap());
                from_seeds.extend(sub_ids(&s.bytes, cs, cl).unwrap_or_default());
            }
        }
    }
    let mut all = BTreeSet::new();
    for id in src.iter().chain(from_seeds.iter()) {
        all.insert(*id);
        all.insert([id[3], id[2], id[1], id[0]]);
    }
    Dictionary {
        dir,
        files: files.len(),
        from_source: src.len(),
        from_seeds: from_seeds.len(),
        ids: all.iter().map(|id| String::from_utf8_lossy(id).to_string()).collect(),
    }
}

// ------------------------------------------------------------------------------------ cases

/// grid + random nest cases for all seeds; the evidence record (per format: scan directory, files, dictionary
/// size, hosts, containers, cases); and the number of ids found in the crate sources per format
pub fn cases(seeds: &[Seed], tier: Tier, rng_seed: u64) -> (Vec<Case>, Value, BTreeMap<String, usize>) {
    let quick = tier == Tier::Quick;
    let mut out = vec![];
    let mut report = serde_json::Map::new();
    let mut dicts: BTreeMap<&str, Dictionary> = BTreeMap::new();
    let mut seen_hosts: BTreeSet<(String, Vec<u8>)> = BTreeSet::new();
    for (idx, s) in seeds.iter().enumerate() {
        let Some(chunks) = tiling(&s.bytes) else { continue };
        // one host per (format, ids of the first two chunks): root / split-texture / split-object ADTs and the
        // WDL layouts go through different parsers, the versions of one layout do not
        let key: Vec<u8> = chunks.iter().take(2).flat_map(|&(cs, _)| s.bytes[cs..cs + 4].to_vec()).collect();
        if !seen_hosts.insert((s.format.to_string(), key)) {
            continue;
        }
        let first_host = !report.contains_key(s.format);
        let dict = dicts.entry(s.format).or_insert_with(|| dictionary(s.format, seeds));
        // containers of this host: first chunk of each id whose payload ends in a sub-chunk sequence
        let mut containers: Vec<(usize, String, usize)> = vec![];
        for (ci, &(cs, cl)) in chunks.iter().enumerate() {
            let id = String::from_utf8_lossy(&s.bytes[cs..cs + 4]).to_string();
            if let Some((header, _)) = sub_chunks(&s.bytes, cs, cl) {
                if !containers.iter().any(|c| c.1 == id) {
                    containers.push((ci, id, header));
                }
            }
        }
        let before = out.len();
        let fmt = s.format.to_string();
        let mk = |ids: Vec<String>, depth: usize, place: Place| Case { format: fmt.clone(), seed: idx, m: Mutation::Nest { ids, depth, pad: 0, place } };
        let mk_padded = |ids: Vec<String>, pad: usize, place: Place| {
            let depth = GRID_DEPTHS[1].min(PADDED_BYTES / (8 + pad));
            Case { format: fmt.clone(), seed: idx, m: Mutation::Nest { ids, depth, pad, place } }
        };
        for id in &dict.ids {
            // the family's first host gets the whole grid, further layouts the deep nest alone and with the tail
            for &depth in &GRID_DEPTHS {
                if first_host || depth == GRID_DEPTHS[1] {
                    out.push(mk(vec![id.clone()], depth, Place::Top { keep_tail: false }));
                }
            }
            out.push(mk(vec![id.clone()], GRID_DEPTHS[1], Place::Top { keep_tail: true }));
            for (ci, _, _) in &containers {
                out.push(mk(vec![id.clone()], GRID_DEPTHS[1], Place::In { chunk: *ci }));
                if !quick {
                    out.push(mk(vec![id.clone()], GRID_DEPTHS[0], Place::In { chunk: *ci }));
                }
            }
        }
        // containers with a fixed header before their sub-chunks (MCNK: 128 bytes, MOGP: 68): the container nested in
        // itself with that header at every level, so that "skip the header, walk the sub-chunks" descends once per level
        for (ci, id, header) in containers.iter().filter(|c| c.2 > 0) {
            for place in [Place::Top { keep_tail: false }, Place::Top { keep_tail: true }, Place::In { chunk: *ci }] {
                out.push(mk_padded(vec![id.clone()], *header, place));
            }
        }
        // random branch: 1..3 ids of the dictionary cycled, depth log-uniform in [2^10, 2^17), any placement
        let mut r = rng_seed ^ 0x6E65_7374 ^ ((idx as u64) << 24);
        if !dict.ids.is_empty() {
            for _ in 0..(if quick { 12 } else { 300 }) {
                let n = 1 + (splitmix(&mut r) % 3) as usize;
                let ids: Vec<String> = (0..n).map(|_| dict.ids[(splitmix(&mut r) as usize) % dict.ids.len()].clone()).collect();
                let e = 10 + splitmix(&mut r) % 7;
                let depth = ((1u64 << e) + splitmix(&mut r) % (1u64 << e)) as usize;
                let k = (splitmix(&mut r) as usize) % (2 + containers.len());
                let place = match k {
                    0 => Place::Top { keep_tail: false },
                    1 => Place::Top { keep_tail: true },
                    k => Place::In { chunk: containers[k - 2].0 },
                };
                // one in four with a per-level header of one of the seed's containers (or 4 bytes)
                let pad = match splitmix(&mut r) % 4 {
                    0 => containers.get((splitmix(&mut r) as usize) % containers.len().max(1)).map(|c| c.2).filter(|&h| h > 0).unwrap_or(4),
                    _ => 0,
                };
                let depth = depth.min(PADDED_BYTES / (8 + pad));
                out.push(Case { format: fmt.clone(), seed: idx, m: Mutation::Nest { ids, depth, pad, place } });
            }
        }
        let n = out.len() - before;
        let entry = report.entry(s.format.to_string()).or_insert_with(|| {
            json!({
                "scan_dir": dict.dir.join("src").to_string_lossy(),
                "source_files": dict.files,
                "ids_in_source": dict.from_source,
                "ids_in_seeds": dict.from_seeds,
                "dictionary": dict.ids.len(),
                "hosts": [],
                "cases": 0,
            })
        });
        if let Some(h) = entry["hosts"].as_array_mut() {
            h.push(json!({"seed": s.name, "containers": containers.iter().map(|c| format!("{} (header {})", c.1, c.2)).collect::<Vec<_>>(), "cases": n}));
        }
        entry["cases"] = json!(entry["cases"].as_u64().unwrap_or(0) + n as u64);
    }
    let source_ids: BTreeMap<String, usize> = dicts.iter().map(|(f, d)| (f.to_string(), d.from_source)).collect();
    (out, Value::Object(report), source_ids)
}
