//! Engine B of C05 as seen from the check binary: run the libFuzzer campaigns (`/verif/fuzz/run.sh`),
//! read their summary, and classify every artifact through engine A's supervised worker and `judge()`.
//!
//! Nothing libFuzzer says is a verdict by itself. An artifact (crash-/oom-/timeout-) is wrapped into a
//! `Case { seed: usize::MAX, m: Mutation::Raw { hex } }`, re-run in the worker (tracking allocator,
//! CPU budget, panic capture) and judged exactly like a mutated seed: a failure goes through
//! `check.fail` (known → KNOWN-FINDING, unknown → VIOLATION with a self-contained replay file).
//! An artifact that does not fail in the worker is re-run once under the sanitizer build of its own
//! target (only `crash-*`): a panic there keeps its C05 signature, an AddressSanitizer report becomes
//! `asan:<kind>@<format>` (memory unsafety is invisible to the non-sanitized worker). Everything else is
//! counted as `fuzz-artifact-not-reproduced:<kind>` (libFuzzer's `-malloc_limit_mb` is below engine A's
//! allocation rule; `-timeout` is wall time on a loaded machine) and kept in the evidence.
use crate::{Case, Mutation, judge};
use serde_json::{Value, json};
use std::path::{Path, PathBuf};
use vcheck::engine::supervise::{self, Spec};
use vcheck::engine::{self, Check, Fail, Tier};

/// a campaign counts as non-trivial when libFuzzer reports more covered edges than this (an
/// un-instrumented or immediately rejecting target stays in the low tens)
const MIN_COV: u64 = 50;

pub fn fuzz_dir() -> PathBuf {
    PathBuf::from(std::env::var("VERIF_FUZZ_DIR").unwrap_or_else(|_| "/verif/fuzz".into()))
}
/// every run gets its own output directory (two C05 runs side by side must not clear each other's
/// campaign state); directories of runs whose process is gone are removed first
fn out_dir(tier: &str) -> PathBuf {
    if let Ok(p) = std::env::var("VERIF_FUZZ_OUT") {
        return PathBuf::from(p);
    }
    let base = PathBuf::from("/verif/target/fuzz-out");
    if let Ok(rd) = std::fs::read_dir(&base) {
        for e in rd.flatten() {
            let n = e.file_name().to_string_lossy().to_string();
            let stale = match n.rsplit_once('-').and_then(|(_, pid)| pid.parse::<u32>().ok()) {
                Some(pid) => !Path::new(&format!("/proc/{pid}")).exists(),
                None => true,
            };
            if stale {
                let _ = if e.path().is_dir() { std::fs::remove_dir_all(e.path()) } else { std::fs::remove_file(e.path()) };
            }
        }
    }
    base.join(format!("{tier}-{}", std::process::id()))
}
fn target_bin(format: &str) -> PathBuf {
    PathBuf::from(std::env::var("VERIF_FUZZ_TARGET_DIR").unwrap_or_else(|_| "/verif/target/fuzz".into()))
        .join("x86_64-unknown-linux-gnu/release")
        .join(format)
}

pub fn enabled() -> bool {
    std::env::var("VERIF_C05_FUZZ").map(|v| v != "0").unwrap_or(true) && fuzz_dir().join("run.sh").exists()
}

/// crash | oom | timeout | leak | slow-unit | other — from libFuzzer's artifact file name
pub fn kind_of(path: &Path) -> &'static str {
    let n = path.file_name().map(|n| n.to_string_lossy().to_string()).unwrap_or_default();
    for k in ["crash", "oom", "timeout", "leak", "slow-unit"] {
        if n.starts_with(&format!("{k}-")) {
            return k;
        }
    }
    "other"
}

/// re-run one input under the sanitizer build of its target; Some(fail) when that run shows a panic
/// (same signature as engine A would build) or an AddressSanitizer report
fn rerun_under_sanitizer(format: &str, artifact: &Path) -> Option<Fail> {
    let bin = target_bin(format);
    if !bin.exists() {
        return None;
    }
    let scratch = engine::scratch("c05fz");
    let out = std::process::Command::new(&bin)
        .args(["-timeout=10", "-malloc_limit_mb=256", "-rss_limit_mb=3072", "-detect_leaks=0", "-runs=1"])
        .arg(artifact)
        .env("VERIF_FUZZ_SCRATCH", scratch.path())
        .env_remove("VERIF_FUZZ_STATS")
        .stdin(std::process::Stdio::null())
        .output()
        .ok()?;
    if out.status.success() {
        return None;
    }
    let err = String::from_utf8_lossy(&out.stderr);
    for l in err.lines() {
        if let Some(sig) = l.strip_prefix("FUZZ-PANIC signature=") {
            let detail = err.lines().skip_while(|x| !x.starts_with("FUZZ-PANIC")).nth(1).unwrap_or("").trim().to_string();
            return Some(Fail::new(sig.trim().to_string(), format!("panics in the sanitizer build of the fuzz target only: {detail}")));
        }
    }
    for l in err.lines() {
        if let Some(i) = l.find("ERROR: AddressSanitizer: ") {
            let rest = &l[i + 25..];
            let kind: String = rest.chars().take_while(|c| c.is_ascii_alphanumeric() || *c == '-' || *c == '_').collect();
            // ASan's own allocation-size / out-of-memory reports are allocation limits of the tool, judged by engine A's rule
            if kind == "allocation-size-too-big" || kind == "out-of-memory" || kind == "requested" {
                return None;
            }
            let frame = err
                .lines()
                .filter(|x| x.trim_start().starts_with('#') && (x.contains("/repo/") || x.contains("file-formats/")))
                .map(|x| x.trim().to_string())
                .next()
                .unwrap_or_default();
            return Some(Fail::new(format!("asan:{kind}@{format}"), format!("AddressSanitizer: {} — first /repo frame: {}", engine::truncate(rest, 160), engine::truncate(&frame, 240))));
        }
    }
    None
}

/// Classify artifacts `(format, file)`. Returns one JSON record per artifact.
pub fn classify(check: &Check, spec: &Spec, arts: &[(String, PathBuf)]) -> Vec<Value> {
    let mut cases = vec![];
    let mut recs = vec![];
    for (format, path) in arts {
        let kind = kind_of(path);
        match std::fs::read(path) {
            Ok(bytes) => cases.push((format.clone(), path.clone(), kind, Case { format: format.clone(), seed: usize::MAX, m: Mutation::Raw { hex: hex::encode(&bytes) } })),
            Err(e) => {
                check.bump(&format!("fuzz-artifact-unreadable:{kind}"), 1);
                recs.push(json!({"format": format, "artifact": path, "kind": kind, "result": format!("unreadable: {e}")}));
            }
        }
    }
    let vals: Vec<Value> = cases.iter().map(|c| serde_json::to_value(&c.3).unwrap()).collect();
    let outs = supervise::run_cases(spec, &vals, engine::WORKERS);
    for ((format, path, kind, case), o) in cases.iter().zip(outs.iter()) {
        let case_json = serde_json::to_value(case).unwrap();
        let verdict = match judge(case, o) {
            Err(f) => Some((f, "worker")),
            Ok(_) if *kind == "crash" => rerun_under_sanitizer(format, path).map(|f| (f, "sanitizer-build")),
            Ok(_) => None,
        };
        match verdict {
            Some((f, how)) => {
                check.count(&format!("fuzz:{format}:artifact:{kind}:reproduced-in-{how}"), true);
                let known = check.is_known(&f.signature);
                check.fail(&f, case_json);
                recs.push(json!({"format": format, "artifact": path, "kind": kind, "result": "reproduced", "where": how, "signature": f.signature, "known": known, "detail": engine::truncate(&f.message, 300)}));
            }
            None => {
                let class = judge(case, o).unwrap_or_default();
                check.count(&format!("fuzz:{format}:artifact:{kind}:not-reproduced"), false);
                check.bump(&format!("fuzz-artifact-not-reproduced:{kind}"), 1);
                recs.push(json!({"format": format, "artifact": path, "kind": kind, "result": "not-reproduced", "worker_outcome": class}));
            }
        }
    }
    recs
}

/// Run the campaigns of the current tier and fold their results into the check.
pub fn run(check: &Check, spec: &Spec) {
    let dir = fuzz_dir();
    let tier = check.tier.name();
    let out = out_dir(tier);
    // a sibling, not a child: the driver clears its output directory after writing the seed corpus
    let corpus = out.with_file_name(format!("corpus-{}", out.file_name().unwrap_or_default().to_string_lossy()));
    let driver_log = std::env::temp_dir().join(format!("c05-fuzz-driver-{}.log", std::process::id()));
    let log_file = match std::fs::File::create(&driver_log) {
        Ok(f) => f,
        Err(e) => {
            check.inconclusive(&format!("engine B: cannot create driver log {driver_log:?}: {e}"));
            return;
        }
    };
    let exe = std::env::current_exe().expect("current_exe");
    // libFuzzer takes a 32-bit seed; run.sh derives one per campaign from this number
    let status = std::process::Command::new(dir.join("run.sh"))
        .arg(tier)
        .arg((check.sub_seed("c05-fuzz") % 4_000_000_000).to_string())
        .env("VERIF_C05_BIN", &exe)
        .env("VERIF_FUZZ_OUT", &out)
        .env("VERIF_FUZZ_CORPUS", &corpus)
        .stdin(std::process::Stdio::null())
        .stdout(log_file.try_clone().expect("dup"))
        .stderr(log_file)
        .status();
    let tail = || {
        let t = std::fs::read_to_string(&driver_log).unwrap_or_default();
        let l: Vec<&str> = t.lines().collect();
        l[l.len().saturating_sub(8)..].join(" / ")
    };
    let code = match status {
        Ok(s) => s.code().unwrap_or(-1),
        Err(e) => {
            check.inconclusive(&format!("engine B: cannot start {:?}: {e}", dir.join("run.sh")));
            return;
        }
    };
    if code != 0 {
        check.inconclusive(&format!("engine B: fuzz driver exit {code} (3 = build failed, 4 = a campaign could not run): {}", engine::truncate(&tail(), 600)));
    }
    let _ = std::fs::remove_file(&driver_log);
    let summary: Value = match std::fs::read_to_string(out.join("summary.json")).ok().and_then(|s| serde_json::from_str(&s).ok()) {
        Some(v) => v,
        None => {
            if code == 0 {
                check.inconclusive("engine B: fuzz driver wrote no readable summary.json");
            }
            return;
        }
    };
    let mut arts: Vec<(String, PathBuf)> = vec![];
    let mut seen_targets = std::collections::BTreeSet::new();
    let mut table = vec![];
    for c in summary["campaigns"].as_array().cloned().unwrap_or_default() {
        let t = c["target"].as_str().unwrap_or("?").to_string();
        let kind = c["corpus_kind"].as_str().unwrap_or("?").to_string();
        let key = if kind == "seeded" { format!("fuzz:{t}") } else { format!("fuzz:{t}:{kind}") };
        let (runs, want, cov, corp) = (c["runs"].as_u64().unwrap_or(0), c["runs_requested"].as_u64().unwrap_or(0), c["cov"].as_u64().unwrap_or(0), c["corpus"].as_u64().unwrap_or(0));
        check.bump(&format!("{key}:runs"), runs);
        check.bump(&format!("{key}:cov"), cov);
        check.bump(&format!("{key}:corpus"), corp);
        check.count(&format!("{key}:campaign"), cov > MIN_COV);
        seen_targets.insert(t.clone());
        for st in c["stats"].as_array().cloned().unwrap_or_default() {
            for (sig, n) in st["tolerated"].as_object().cloned().unwrap_or_default() {
                check.bump(&format!("fuzz:tolerated:{sig}"), n.as_u64().unwrap_or(0));
                // a tolerated panic is a measured hit of an open known finding
                if n.as_u64().unwrap_or(0) > 0 {
                    check.known_hit(&sig, &format!("tolerated in libFuzzer target {t} ({kind} corpus), {n} inputs"));
                }
            }
        }
        let a: Vec<PathBuf> = c["artifacts"].as_array().cloned().unwrap_or_default().iter().filter_map(|x| x.as_str().map(PathBuf::from)).collect();
        let failing = a.iter().filter(|p| kind_of(p) != "slow-unit").count();
        if runs < want && failing == 0 {
            check.inconclusive(&format!("engine B: campaign {t}/{kind} executed {runs} of {want} runs without leaving an artifact (log {})", c["log"].as_str().unwrap_or("?")));
        }
        if cov == 0 {
            check.inconclusive(&format!("engine B: campaign {t}/{kind} reported no coverage (instrumentation or status-line problem)"));
        }
        table.push(json!({"target": t, "corpus": kind, "runs": runs, "runs_requested": want, "cov": cov, "ft": c["ft"], "corpus_units": corp, "exec_per_s": c["exec_per_s"], "wall_s": c["wall_s"], "restarts": c["restarts"], "artifacts": a.len()}));
        for p in a {
            if kind_of(&p) != "slow-unit" {
                arts.push((t.clone(), p));
            }
        }
    }
    for f in vcheck::targets::FORMATS {
        if !seen_targets.contains(f) {
            check.inconclusive(&format!("engine B: no campaign for target {f}"));
        }
    }
    let classified = classify(check, spec, &arts);
    // the campaign output directory is volatile: keep the inputs that did not reproduce (reproduced ones are
    // inside their replay file or belong to a known finding)
    let mut kept = vec![];
    let not_repro: Vec<&Value> = classified.iter().filter(|r| r["result"] == "not-reproduced").collect();
    if !not_repro.is_empty() {
        let keep = engine::verif_root().join("replays").join("C05").join("fuzz-artifacts");
        let _ = std::fs::create_dir_all(&keep);
        for r in not_repro {
            let p = PathBuf::from(r["artifact"].as_str().unwrap_or(""));
            let dst = keep.join(format!("{}-{}", r["format"].as_str().unwrap_or("x"), p.file_name().unwrap_or_default().to_string_lossy()));
            if std::fs::copy(&p, &dst).is_ok() {
                kept.push(dst);
            }
        }
    }
    check.set_extra(
        "fuzz",
        json!({
            "driver": dir.join("run.sh"), "tier": tier, "driver_seed": summary["seed"], "wall_s": summary["wall_s"], "flags": summary["flags"],
            "campaigns": table, "artifacts": classified, "artifact_copies": kept, "min_cov_for_nontrivial": MIN_COV,
        }),
    );
    if check.tier == Tier::Thorough {
        check.bump("fuzz:tier-thorough", 1);
    }
    // campaign corpora are large and volatile; logs stay until the next run removes the directory
    let _ = std::fs::remove_dir_all(out.join("work"));
    let _ = std::fs::remove_dir_all(&corpus);
}
