//! C05 — parsers are total: bad input gives an error, never a crash, hang or huge allocation.
//! Engine A: deterministic structured mutation of valid seeds, judged in supervised workers
//! with a tracking allocator and a CPU budget.
//! Engine B: libFuzzer campaigns over the same `vcheck::targets::run_target` (crate /verif/fuzz,
//! driver /verif/fuzz/run.sh); their artifacts come back as `Mutation::Raw` cases and are judged by
//! the same worker and `judge()` (module `engb`).
//!
//! Extra command lines (besides `--tier`, `--replay`):
//!   c05 --dump-seeds <dir>                    write every valid seed to <dir>/<format>/<name>
//!   c05 --dump-input <replay.json> <out>      materialise the input of a replay file
//!   c05 --classify <format> <artifact-file>…  judge raw inputs (libFuzzer artifacts) in the worker
use serde::{Deserialize, Serialize};
use serde_json::{json, Value};
use vcheck::engine::supervise::{self, Outcome, Spec, TrackingAlloc};
use vcheck::engine::{self, Check, Fail, Tier};
use vcheck::gens::mpq::*;
use vcheck::oracle::refcrypt as rc;

mod engb;
mod nest;
mod seeds;

#[global_allocator]
static ALLOC: TrackingAlloc = TrackingAlloc;

#[derive(Clone, Debug, Serialize, Deserialize)]
enum Mutation {
    None,
    Prefix(usize),
    /// write `val` as `width`-byte little endian at `off`
    Subst { off: usize, width: u8, val: u64 },
    /// two fields at once (a size together with a count, a position together with a length): 32-bit values
    Subst2 { off1: usize, val1: u32, off2: usize, val2: u32 },
    /// same, but inside an encrypted MPQ table region: decrypt [start..end) with `key`, substitute, re-encrypt
    TableSubst { start: usize, end: usize, key: u32, off: usize, width: u8, val: u64 },
    /// generic chunk operations on (magic,u32 size,payload)* files
    ChunkDelete(usize),
    ChunkDup(usize),
    ChunkSwap(usize),
    ChunkSize { idx: usize, delta: i64 },
    Havoc(u64),
    /// replace the whole input by seeded garbage of this length (keeps the first 4 bytes = magic)
    Garbage { len: usize, seed: u64, keep_magic: bool },
    /// deep nesting: `depth` chunk headers (`ids` cycled, as stored on disk), each one containing exactly the next,
    /// placed behind the seed's leading chunk or appended to the payload of a container chunk (module `nest`)
    /// `pad`: zero bytes between a header and the next one (fixed header of containers such as MCNK / MOGP)
    Nest {
        ids: Vec<String>,
        depth: usize,
        #[serde(default)]
        pad: usize,
        place: nest::Place,
    },
    /// the input itself, hex-encoded, independent of any seed (`Case::seed` = usize::MAX): libFuzzer
    /// artifacts of engine B are wrapped into this so that replay files stay self-contained
    Raw { hex: String },
}

#[derive(Clone, Debug, Serialize, Deserialize)]
struct Case {
    format: String,
    seed: usize,
    m: Mutation,
}

// ------------------------------------------------------------------------------------ seeds

fn mpq_seeds() -> Vec<seeds::Seed> {
    let dir = engine::scratch("c05seed");
    let mut out = vec![];
    let mk = |name: &str, spec: ArchiveSpec| -> Option<seeds::Seed> {
        let p = dir.path().join("s.mpq");
        spec.builder().build(&p).ok()?;
        Some(seeds::Seed { format: "mpq", name: name.to_string(), bytes: std::fs::read(&p).ok()? })
    };
    let files = |enc: bool| -> Vec<FileSpec> {
        (0..5)
            .map(|i| FileSpec {
                name: format!("d{}\\f{i}.bin", i % 2),
                class: ALL_CLASSES[i % ALL_CLASSES.len()],
                len: LenSpec { halves: (i as u8) * 2 % 7, delta: 17 },
                seed: i as u32,
                method: [M_ZLIB, M_NONE, M_BZIP2, M_SPARSE, M_LZMA][i],
                enc: if enc && i % 2 == 1 { Enc::FixKey } else { Enc::None },
                locale: 0,
            })
            .collect()
    };
    for (v, attrs, ct, enc) in [
        (1u8, Attrs::None, false, false),
        (1, Attrs::Full, false, true),
        (2, Attrs::Crc32, false, true),
        (3, Attrs::None, false, false),
        (3, Attrs::Crc32, true, true),
        (4, Attrs::None, false, true),
        (4, Attrs::Full, true, false),
    ] {
        if let Some(s) = mk(
            &format!("v{v}-{attrs:?}-ct{}-enc{}", ct as u8, enc as u8),
            ArchiveSpec { version: v, shift: 0, crcs: false, attrs, listfile: true, compress_tables: ct, table_method: M_ZLIB, files: files(enc) },
        ) {
            out.push(s);
        }
    }
    // sector checksums: builder-made, and written by the independent writer with a checksum sector that is
    // well-formed or lacks its last entries (12 and 24 sectors of constant / text data: the checksum sector is
    // stored compressed, and a short one still decompresses to "about" the expected size)
    for v in [1u8, 4] {
        if let Some(s) = mk(&format!("v{v}-sector-crcs"), ArchiveSpec { version: v, shift: 0, crcs: true, attrs: Attrs::None, listfile: true, compress_tables: false, table_method: M_ZLIB, files: files(false) }) {
            out.push(s);
        }
    }
    for (sectors, class, drop) in [(12usize, ContentClass::Constant, 0usize), (12, ContentClass::Constant, 1), (24, ContentClass::Text, 1), (24, ContentClass::Constant, 2), (40, ContentClass::Constant, 3)] {
        use vcheck::oracle::refmpq::{RefFile, RefSpec};
        let spec = RefSpec {
            v2: sectors == 24,
            shift: 0,
            hash_log2: 3,
            lead_units: 0,
            ghosts: vec![],
            reverse: false,
            files: vec![
                RefFile { name: "d0\\f0.bin".into(), data_class: class, len: sectors * 512 - 7, seed: 5, method: 0x02, single_unit: false, encrypted: false, fix_key: false, gap: 0, crc: true },
                RefFile { name: "d1\\f1.bin".into(), data_class: ContentClass::Text, len: 300, seed: 6, method: 0x02, single_unit: true, encrypted: false, fix_key: false, gap: 0, crc: false },
            ],
        };
        out.push(seeds::Seed { format: "mpq", name: format!("ref-sector-crc-{sectors}sectors-{class:?}-short{drop}"), bytes: spec.write_malformed(drop) });
    }
    // archives behind a user data header (MPQ\x1B: user data size, offset of the archive header, size of this
    // header), at a sector boundary and inside the first sector
    if let Some(first) = out.first().map(|s| s.bytes.clone()) {
        for (label, header_offset) in [("sector", 512u32), ("three-sectors", 1536), ("inside-first-sector", 0x40)] {
            let mut b = vec![];
            b.extend_from_slice(b"MPQ\x1B");
            b.extend_from_slice(&0x20u32.to_le_bytes());
            b.extend_from_slice(&header_offset.to_le_bytes());
            b.extend_from_slice(&16u32.to_le_bytes());
            b.resize(header_offset as usize, 0xA5);
            b.extend_from_slice(&first);
            out.push(seeds::Seed { format: "mpq", name: format!("user-data-header-{label}"), bytes: b });
        }
    }
    // one archive whose (attributes) file carries CRC32|PATCH_BIT: written by hand and handed to the builder
    // as an external attributes file; the block count the reader will use (files + special files) is found
    // by trial: the first count for which `load_attributes` accepts the archive
    for n in [7usize, 6, 8, 5] {
        let ap = dir.path().join("ext.attributes");
        if std::fs::write(&ap, seeds::attrs::file(n, seeds::attrs::CRC32 | seeds::attrs::PATCH_BIT, 0x9A7C)).is_err() {
            break;
        }
        let spec = ArchiveSpec { version: 1, shift: 0, crcs: false, attrs: Attrs::None, listfile: true, compress_tables: false, table_method: M_ZLIB, files: files(false) };
        let p = dir.path().join("s.mpq");
        if spec.builder().attributes_option(wow_mpq::AttributesOption::External(ap)).build(&p).is_err() {
            continue;
        }
        let accepted = wow_mpq::Archive::open(&p).ok().map(|mut a| a.load_attributes().is_ok() && a.find_file("(attributes)").ok().flatten().is_some()).unwrap_or(false);
        if accepted {
            if let Ok(bytes) = std::fs::read(&p) {
                out.push(seeds::Seed { format: "mpq", name: format!("v1-patchbit-attrs-n{n}"), bytes });
            }
            break;
        }
    }
    out
}

fn md5(b: &[u8]) -> [u8; 16] {
    use md5::{Digest, Md5};
    let mut h = Md5::new();
    h.update(b);
    h.finalize().into()
}

fn ptch(kind: &[u8; 4], size_before: u32, size_after: u32, patch_data_size: u32, md5b: [u8; 16], md5a: [u8; 16], payload: &[u8]) -> Vec<u8> {
    let mut d = vec![];
    d.extend_from_slice(b"PTCH");
    d.extend_from_slice(&patch_data_size.to_le_bytes());
    d.extend_from_slice(&size_before.to_le_bytes());
    d.extend_from_slice(&size_after.to_le_bytes());
    d.extend_from_slice(b"MD5_");
    d.extend_from_slice(&40u32.to_le_bytes());
    d.extend_from_slice(&md5b);
    d.extend_from_slice(&md5a);
    d.extend_from_slice(b"XFRM");
    d.extend_from_slice(&(12 + payload.len() as u32).to_le_bytes());
    d.extend_from_slice(kind);
    d.extend_from_slice(payload);
    d
}

fn rle(data: &[u8]) -> Vec<u8> {
    // header dword + literal runs only (valid RLE)
    let mut o = (data.len() as u32).to_le_bytes().to_vec();
    for ch in data.chunks(128) {
        o.push(0x80 | (ch.len() as u8 - 1));
        o.extend_from_slice(ch);
    }
    o
}

fn patch_seeds() -> Vec<seeds::Seed> {
    let base = vcheck::targets::patch_base();
    let new = materialize(ContentClass::Text, 420, 43);
    let copy = ptch(b"COPY", base.len() as u32, new.len() as u32, new.len() as u32, md5(&base), md5(&new), &new);
    // BSD0: two control blocks: add 200 (diff against base), extra 120, seek +10; add 100, extra 0, seek -5
    let mut newb = vec![0u8; 420];
    let mut ctrl = vec![];
    let mut diff = vec![];
    let mut extra = vec![];
    let (mut no, mut oo) = (0usize, 0usize);
    for (add, mov, seek) in [(200usize, 120usize, 10i32), (100, 0, -5)] {
        ctrl.extend_from_slice(&(add as u32).to_le_bytes());
        ctrl.extend_from_slice(&(mov as u32).to_le_bytes());
        let raw = if seek < 0 { 0x8000_0000u32.wrapping_add((-seek) as u32) } else { seek as u32 };
        ctrl.extend_from_slice(&raw.to_le_bytes());
        for j in 0..add {
            let d = (j as u8).wrapping_mul(3);
            diff.push(d);
            let old = if oo + j < base.len() { base[oo + j] } else { 0 };
            newb[no + j] = d.wrapping_add(old);
        }
        no += add;
        oo += add;
        for j in 0..mov {
            let e = (j as u8) ^ 0x5A;
            extra.push(e);
            newb[no + j] = e;
        }
        no += mov;
        if seek < 0 {
            oo = oo.saturating_sub((-seek) as usize);
        } else {
            oo += seek as usize;
        }
    }
    let mut bs = vec![];
    bs.extend_from_slice(&0x3034464649445342u64.to_le_bytes());
    bs.extend_from_slice(&(ctrl.len() as u64).to_le_bytes());
    bs.extend_from_slice(&(diff.len() as u64).to_le_bytes());
    bs.extend_from_slice(&(newb.len() as u64).to_le_bytes());
    bs.extend_from_slice(&ctrl);
    bs.extend_from_slice(&diff);
    bs.extend_from_slice(&extra);
    let bsd0 = ptch(b"BSD0", base.len() as u32, newb.len() as u32, bs.len() as u32, md5(&base), md5(&newb), &rle(&bs));
    vec![
        seeds::Seed { format: "patch", name: "copy".into(), bytes: copy },
        seeds::Seed { format: "patch", name: "bsd0".into(), bytes: bsd0 },
    ]
}

fn decompress_seeds() -> Vec<seeds::Seed> {
    // input format of the target: [method u8][expected_len u16 LE][payload]
    let mut out = vec![];
    let text = materialize(ContentClass::Text, 1500, 1);
    let pcm = materialize(ContentClass::Period, 1024, 4);
    for m in [0x02u8, 0x10, 0x12, 0x20, 0x08, 0x40, 0x80, 0x42, 0x01, 0x04, 0x22] {
        let src = if m & 0xC0 != 0 { &pcm } else { &text };
        let payload = match std::panic::catch_unwind(|| wow_mpq::compression::compress(src, m)) {
            Ok(Ok(c)) if c.len() < src.len() && !c.is_empty() => c[1..].to_vec(),
            _ => src[..200].to_vec(),
        };
        let mut b = vec![m];
        b.extend_from_slice(&(src.len() as u16).to_le_bytes());
        b.extend_from_slice(&payload);
        out.push(seeds::Seed { format: "decompress", name: format!("m{m:#04x}"), bytes: b });
    }
    out
}

/// seeds are built once by the parent and handed to (re)started workers through a directory
fn load_seeds(dir: &std::path::Path) -> Vec<seeds::Seed> {
    let idx: Vec<(String, String)> = serde_json::from_str(&std::fs::read_to_string(dir.join("index.json")).expect("seed index")).expect("json");
    idx.into_iter()
        .enumerate()
        .map(|(i, (f, n))| {
            let fmt: &'static str = Box::leak(f.into_boxed_str());
            seeds::Seed { format: fmt, name: n, bytes: std::fs::read(dir.join(format!("{i}.bin"))).expect("seed file") }
        })
        .collect()
}

fn store_seeds(dir: &std::path::Path, seeds: &[seeds::Seed]) {
    let idx: Vec<(String, String)> = seeds.iter().map(|s| (s.format.to_string(), s.name.clone())).collect();
    for (i, s) in seeds.iter().enumerate() {
        std::fs::write(dir.join(format!("{i}.bin")), &s.bytes).expect("write seed");
    }
    std::fs::write(dir.join("index.json"), serde_json::to_string(&idx).unwrap()).expect("write index");
}

fn all_seeds() -> Vec<seeds::Seed> {
    let mut v = mpq_seeds();
    v.extend(patch_seeds());
    v.extend(decompress_seeds());
    v.extend(seeds::format_seeds());
    v
}

// --------------------------------------------------------------------------------- mutators

fn chunks_of(b: &[u8]) -> Vec<(usize, usize)> {
    // (start, total_len) of top-level (magic, size, payload) chunks, as far as they tile
    let mut v = vec![];
    let mut p = 0usize;
    while p + 8 <= b.len() {
        let sz = u32::from_le_bytes(b[p + 4..p + 8].try_into().unwrap()) as usize;
        if p + 8 + sz > b.len() {
            break;
        }
        v.push((p, 8 + sz));
        p += 8 + sz;
    }
    v
}

fn splitmix(s: &mut u64) -> u64 {
    *s = s.wrapping_add(0x9E3779B97F4A7C15);
    let mut z = *s;
    z = (z ^ (z >> 30)).wrapping_mul(0xBF58476D1CE4E5B9);
    z = (z ^ (z >> 27)).wrapping_mul(0x94D049BB133111EB);
    z ^ (z >> 31)
}

fn put(b: &mut [u8], off: usize, width: u8, val: u64) {
    for i in 0..width as usize {
        if off + i < b.len() {
            b[off + i] = (val >> (8 * i)) as u8;
        }
    }
}

fn apply(seed: &[u8], m: &Mutation) -> Vec<u8> {
    let mut b = seed.to_vec();
    match m {
        Mutation::None => {}
        Mutation::Prefix(n) => b.truncate(*n),
        Mutation::Subst { off, width, val } => put(&mut b, *off, *width, *val),
        Mutation::Subst2 { off1, val1, off2, val2 } => {
            put(&mut b, *off1, 4, *val1 as u64);
            put(&mut b, *off2, 4, *val2 as u64);
        }
        Mutation::TableSubst { start, end, key, off, width, val } => {
            let (s, e) = (*start, (*end).min(b.len()));
            if s < e {
                rc::decrypt_bytes(&mut b[s..e], *key);
                put(&mut b[s..e], *off, *width, *val);
                rc::encrypt_bytes(&mut b[s..e], *key);
            }
        }
        Mutation::ChunkDelete(i) => {
            let c = chunks_of(&b);
            if let Some(&(s, l)) = c.get(*i) {
                b.drain(s..s + l);
            }
        }
        Mutation::ChunkDup(i) => {
            let c = chunks_of(&b);
            if let Some(&(s, l)) = c.get(*i) {
                let dup = b[s..s + l].to_vec();
                let at = s + l;
                b.splice(at..at, dup);
            }
        }
        Mutation::ChunkSwap(i) => {
            let c = chunks_of(&b);
            if let (Some(&(s1, l1)), Some(&(s2, l2))) = (c.get(*i), c.get(*i + 1)) {
                let a = b[s1..s1 + l1].to_vec();
                let bb = b[s2..s2 + l2].to_vec();
                let mut n = b[..s1].to_vec();
                n.extend(bb);
                n.extend(a);
                n.extend_from_slice(&b[s2 + l2..]);
                b = n;
            }
        }
        Mutation::ChunkSize { idx, delta } => {
            let c = chunks_of(&b);
            if let Some(&(s, l)) = c.get(*idx) {
                let cur = (l - 8) as i64;
                let nv = if *delta == i64::MAX { 0xFFFF_FFFFu32 } else { (cur + delta).max(0) as u32 };
                b[s + 4..s + 8].copy_from_slice(&nv.to_le_bytes());
            }
        }
        Mutation::Havoc(seed0) => {
            let mut s = *seed0;
            let n = 1 + (splitmix(&mut s) % 8) as usize;
            for _ in 0..n {
                if b.is_empty() {
                    break;
                }
                let r = splitmix(&mut s);
                let pos = (splitmix(&mut s) as usize) % b.len();
                match r % 6 {
                    0 => b[pos] ^= 1 << (r >> 8 & 7),
                    1 => b[pos] = (r >> 16) as u8,
                    2 => {
                        let ins: Vec<u8> = (0..(1 + (r >> 8) % 16)).map(|i| (r >> (i % 8)) as u8).collect();
                        b.splice(pos..pos, ins);
                    }
                    3 => {
                        let l = ((r >> 8) % 16) as usize;
                        let e = (pos + l).min(b.len());
                        b.drain(pos..e);
                    }
                    4 => {
                        let l = (1 + (r >> 8) % 64) as usize;
                        let src = (splitmix(&mut s) as usize) % b.len();
                        let chunk: Vec<u8> = b[src..(src + l).min(b.len())].to_vec();
                        for (i, x) in chunk.iter().enumerate() {
                            if pos + i < b.len() {
                                b[pos + i] = *x;
                            }
                        }
                    }
                    _ => {
                        let vals = [0u32, 1, 0x7FFF_FFFF, 0x8000_0000, 0xFFFF_FFFF, b.len() as u32];
                        put(&mut b, pos, 4, vals[(r >> 8) as usize % 6] as u64);
                    }
                }
            }
        }
        Mutation::Raw { hex } => b = hex::decode(hex).unwrap_or_default(),
        Mutation::Nest { ids, depth, pad, place } => b = nest::apply(seed, ids, *depth, *pad, place),
        Mutation::Garbage { len, seed, keep_magic } => {
            let mut s = *seed;
            let magic: Vec<u8> = b.iter().take(4).cloned().collect();
            b = (0..*len).map(|_| splitmix(&mut s) as u8).collect();
            if *keep_magic {
                for (i, x) in magic.iter().enumerate() {
                    if i < b.len() {
                        b[i] = *x;
                    }
                }
            }
        }
    }
    b
}

fn boundary_values(len: usize, old: u64) -> Vec<u64> {
    let l = len as u64;
    vec![0, 1, 0x7FFF_FFFF, 0x8000_0000, 0xFFFF_FFFF, l.saturating_sub(1), l, l + 1, old.wrapping_add(1), old.wrapping_sub(1), 0xFFFF, 0x7FFF_FFFF_FFFF_FFFF]
}

/// enumerate the mutations for one seed
fn mutations_for(seed: &seeds::Seed, idx: usize, tier: Tier, rng_seed: u64) -> Vec<Case> {
    let b = &seed.bytes;
    let fmt = seed.format.to_string();
    let mut out = vec![Case { format: fmt.clone(), seed: idx, m: Mutation::None }];
    let quick = tier == Tier::Quick;
    // (i) prefixes
    // the (attributes) files are tiny and the parser has a deliberate "one byte short" tolerance: every
    // truncation length is a case there, in both tiers
    let pstride = if seed.format == "attributes" {
        1
    } else if b.len() <= 4096 { if quick { 3 } else { 1 } } else if quick { b.len() / 300 + 1 } else { b.len() / 3000 + 1 };
    let mut p = 0;
    while p < b.len() {
        out.push(Case { format: fmt.clone(), seed: idx, m: Mutation::Prefix(p) });
        p += if p < 96 { 1 } else { pstride };
    }
    // chunk boundaries ±1
    let chunks = if matches!(seed.format, "adt" | "wmo_root" | "wmo_group" | "wdt" | "wdl") { chunks_of(b) } else { vec![] };
    for &(s, l) in &chunks {
        for q in [s + 4, s + 8, s + l - 1, s + l, s + l + 1] {
            if q > 0 && q < b.len() {
                out.push(Case { format: fmt.clone(), seed: idx, m: Mutation::Prefix(q) });
            }
        }
    }
    // (ii) boundary substitution in the head region (all aligned offsets) and sampled beyond
    let head = b.len().min(if quick { 512 } else { 4096 });
    let mut offs: Vec<usize> = (0..head).step_by(if quick { 4 } else { 2 }).collect();
    let mut s = rng_seed ^ (idx as u64) << 20;
    for _ in 0..(if quick { 40 } else { 600 }) {
        if b.len() > head {
            offs.push(head + (splitmix(&mut s) as usize) % (b.len() - head));
        }
    }
    for &(cs, _) in &chunks {
        offs.push(cs + 4);
    }
    for off in offs {
        let old = {
            let mut w = [0u8; 8];
            for i in 0..8 {
                if off + i < b.len() {
                    w[i] = b[off + i];
                }
            }
            u32::from_le_bytes(w[..4].try_into().unwrap()) as u64
        };
        let vals = boundary_values(b.len(), old);
        let widths: &[u8] = if quick { &[4] } else { &[2, 4, 8] };
        for &w in widths {
            for (vi, v) in vals.iter().enumerate() {
                if quick && off >= 128 && vi % 2 == 1 {
                    continue;
                }
                out.push(Case { format: fmt.clone(), seed: idx, m: Mutation::Subst { off, width: w, val: *v } });
            }
        }
    }
    // (ii-a) two header fields at once: every ordered pair of the first 12 dwords, one set to a small value and
    // the other to a large one (a zero record size together with a huge record count, a position with a length …)
    {
        let slots = (b.len() / 4).min(if quick { 10 } else { 16 });
        for i in 0..slots {
            for j in 0..slots {
                if i == j {
                    continue;
                }
                for (v1, v2) in [(0u32, 4_000_000u32), (0, 0x7FFF_FFFF), (1, 0xFFFF_FFFF), (0xFFFF_FFFF, 0xFFFF_FFFF)] {
                    if quick && v2 == 0xFFFF_FFFF && (i + j) % 2 == 1 {
                        continue;
                    }
                    out.push(Case { format: fmt.clone(), seed: idx, m: Mutation::Subst2 { off1: 4 * i, val1: v1, off2: 4 * j, val2: v2 } });
                }
            }
        }
    }
    // (ii-b) narrow fields deep inside chunked files: byte-wide substitution over the first bytes of every
    // chunk payload, and over every byte of the ADT MH2O liquid instances (x/y offset, width, height and the
    // vertex format are single bytes / words 3 KiB into the chunk, out of reach of the head region above)
    const BYTE_VALUES: [u64; 10] = [0, 1, 2, 7, 8, 9, 0x10, 0x7F, 0x80, 0xFF];
    let mut dense: Vec<usize> = vec![];
    for &(cs, cl) in chunks.iter().take(if quick { 24 } else { 400 }) {
        dense.extend((cs + 8..cs + cl).take(if quick { 16 } else { 64 }));
        if seed.format == "adt" && &b[cs..cs + 4] == b"O2HM" {
            let p0 = cs + 8;
            let rd = |o: usize| if o + 4 <= cs + cl { u32::from_le_bytes(b[o..o + 4].try_into().unwrap()) as usize } else { 0 };
            let mut instances = 0;
            for e in 0..256 {
                let (off, layers) = (rd(p0 + e * 12), rd(p0 + e * 12 + 4));
                for l in 0..layers.min(4) {
                    let at = p0 + off + l * 24;
                    if off != 0 && at + 24 <= cs + cl && instances < if quick { 6 } else { 64 } {
                        instances += 1;
                        dense.extend(at..at + 24);
                    }
                }
            }
        }
    }
    for off in dense {
        for (vi, v) in BYTE_VALUES.iter().enumerate() {
            if *v != b[off] as u64 && !(quick && vi % 2 == 1 && !(7..=9).contains(v)) {
                out.push(Case { format: fmt.clone(), seed: idx, m: Mutation::Subst { off, width: 1, val: *v } });
            }
        }
    }
    // encrypted MPQ tables
    if seed.format == "mpq" {
        let hk = rc::hash_string(b"(hash table)", rc::HASH_FILE_KEY);
        let bk = rc::hash_string(b"(block table)", rc::HASH_FILE_KEY);
        let rd32 = |o: usize| u32::from_le_bytes(b[o..o + 4].try_into().unwrap()) as usize;
        let rd64 = |o: usize| u64::from_le_bytes(b[o..o + 8].try_into().unwrap()) as usize;
        let (htp, btp, hn, bn) = (rd32(16), rd32(20), rd32(24), rd32(28));
        let ver = u16::from_le_bytes([b[12], b[13]]);
        let mut tables = vec![(htp, htp + hn * 16, hk), (btp, btp + bn * 16, bk)];
        if ver >= 2 && b.len() >= 68 {
            let (betp, hetp) = (rd64(52), rd64(60));
            let mut st = vec![hetp, betp, htp, btp];
            st.sort();
            let next = |p: usize| st.iter().copied().find(|&x| x > p).unwrap_or(p);
            if hetp != 0 && hetp + 12 < b.len() {
                tables.push((hetp + 12, next(hetp), hk));
            }
            if betp != 0 && betp + 12 < b.len() {
                tables.push((betp + 12, next(betp), bk));
            }
        }
        for (st, en, key) in tables {
            if st >= en || en > b.len() {
                continue;
            }
            let step = if quick { 8 } else { 4 };
            for off in (0..(en - st).min(if quick { 256 } else { 2048 })).step_by(step) {
                for v in [0u64, 1, 0x7FFF_FFFF, 0x8000_0000, 0xFFFF_FFFF, 0xFFFF_FFFE, b.len() as u64, b.len() as u64 + 1] {
                    out.push(Case { format: fmt.clone(), seed: idx, m: Mutation::TableSubst { start: st, end: en, key, off, width: 4, val: v } });
                }
            }
        }
    }
    // (iii) chunk ops
    for i in 0..chunks.len().min(if quick { 12 } else { 64 }) {
        out.push(Case { format: fmt.clone(), seed: idx, m: Mutation::ChunkDelete(i) });
        out.push(Case { format: fmt.clone(), seed: idx, m: Mutation::ChunkDup(i) });
        out.push(Case { format: fmt.clone(), seed: idx, m: Mutation::ChunkSwap(i) });
        for d in [-1i64, 1, -8, 8, i64::MAX] {
            out.push(Case { format: fmt.clone(), seed: idx, m: Mutation::ChunkSize { idx: i, delta: d } });
        }
    }
    // (iv) havoc + garbage
    // 160 tiny seeds in the attributes family: fewer havoc rounds per seed keep the family's share of the budget level
    let havoc_rounds = match (seed.format, quick) {
        ("attributes", true) => 100,
        ("attributes", false) => 1500,
        (_, true) => 500,
        (_, false) => 6000,
    };
    for h in 0..havoc_rounds {
        out.push(Case { format: fmt.clone(), seed: idx, m: Mutation::Havoc(rng_seed ^ ((idx as u64) << 32) ^ h) });
    }
    for (gi, len) in [0usize, 1, 3, 4, 8, 20, 64, 100, 300, 4096].iter().enumerate() {
        for km in [false, true] {
            out.push(Case { format: fmt.clone(), seed: idx, m: Mutation::Garbage { len: *len, seed: rng_seed ^ gi as u64, keep_magic: km } });
        }
    }
    out
}

// ---------------------------------------------------------------------------------- targets

// `run_target` lives in the library (`vcheck::targets`): engine B (/verif/fuzz) drives the same function
use vcheck::targets::run_target;

// ----------------------------------------------------------------------------------- driver

fn worker() -> ! {
    engine::install_panic_hook();
    let seeds = match std::env::var("VERIF_C05_SEEDS") {
        Ok(d) => load_seeds(std::path::Path::new(&d)),
        Err(_) => all_seeds(),
    };
    // workers leave through process::exit, which runs no destructors: keep the scratch directory inside the
    // parent's seed directory so that the parent removes it together with the seeds
    let own;
    let dir: std::path::PathBuf = match std::env::var("VERIF_C05_SEEDS") {
        Ok(d) => {
            let p = std::path::Path::new(&d).join(format!("w-{}", std::process::id()));
            std::fs::create_dir_all(&p).expect("worker scratch");
            p
        }
        Err(_) => {
            own = engine::scratch("c05w");
            own.path().to_path_buf()
        }
    };
    supervise::worker_loop(|v| {
        let c: Case = match serde_json::from_value(v) {
            Ok(c) => c,
            Err(e) => return json!({"class": format!("bad-case:{e}")}),
        };
        let input = match (&c.m, seeds.get(c.seed)) {
            (Mutation::Raw { hex }, _) => match hex::decode(hex) {
                Ok(b) => b,
                Err(e) => return json!({"class": format!("bad-case:hex:{e}")}),
            },
            (_, Some(seed)) => apply(&seed.bytes, &c.m),
            (_, None) => return json!({"class": "bad-seed"}),
        };
        eprintln!("CASE {} {} len={}", c.format, c.seed, input.len());
        let single = (64usize << 20).max(256 * input.len());
        supervise::set_alloc_limits(single, 1 << 30);
        let r = if matches!(c.m, Mutation::Nest { .. }) {
            // deep-nesting cases are judged on the stack every `std::thread::spawn` / rayon / tokio caller hands the
            // parser (Rust's default of 2 MiB), not on the 8 MiB of a main thread: 120 000 levels then overflow
            // with any frame above 17 bytes, 20 000 levels with frames above 104 bytes
            std::thread::scope(|sc| {
                std::thread::Builder::new()
                    .name("c05-nest-default-2MiB-stack".into())
                    .stack_size(nest::THREAD_STACK)
                    .spawn_scoped(sc, || engine::guard(&c.format, || run_target(&c.format, &input, &dir)))
                    .expect("spawn nest thread")
                    .join()
                    .unwrap_or_else(|_| Err(Fail::new(format!("panic@{}:?:?", c.format), "nest thread panicked outside the guard")))
            })
        } else {
            engine::guard(&c.format, || run_target(&c.format, &input, &dir))
        };
        supervise::clear_alloc_limits();
        match r {
            Ok(class) => json!({"class": class, "len": input.len(), "peak": supervise::peak_single()}),
            Err(f) => json!({"sig": f.signature, "msg": f.message, "len": input.len()}),
        }
    })
}

fn frame_of(stderr: &str) -> String {
    // "ALLOC-LIMIT kind=single size=N live=M frames=<n>: path::func at /repo/...:line | ..."
    for l in stderr.lines().rev() {
        if let Some(i) = l.find("frames=") {
            let f = &l[i + 7..];
            let first = f.split(" | ").next().unwrap_or("");
            let func = first.split(" at ").next().unwrap_or("").trim();
            let func = func.split_once(": ").map(|x| x.1).unwrap_or(func);
            // strip hash suffix ::h0123…
            let func = match func.rfind("::h") {
                Some(p) if func.len() - p == 19 => &func[..p],
                _ => func,
            };
            if !func.is_empty() {
                return func.to_string();
            }
        }
    }
    "?".into()
}

fn main() {
    if std::env::args().nth(1).as_deref() == Some("--worker") {
        worker();
    }
    // `c05 --dump-input <replay.json> <out-file>`: materialise the mutated input of a replay file
    if std::env::args().nth(1).as_deref() == Some("--dump-input") {
        let a: Vec<String> = std::env::args().collect();
        let v: Value = serde_json::from_str(&std::fs::read_to_string(&a[2]).expect("replay")).expect("json");
        let c: Case = serde_json::from_value(v["case"].clone()).expect("case");
        let seeds = all_seeds();
        let (name, bytes) = match (&c.m, seeds.get(c.seed)) {
            (Mutation::Raw { hex }, _) => ("raw".to_string(), hex::decode(hex).expect("hex")),
            (_, Some(s)) => (s.name.clone(), apply(&s.bytes, &c.m)),
            (_, None) => panic!("no seed {}", c.seed),
        };
        std::fs::write(&a[3], bytes).expect("write");
        println!("{} {} -> {}", c.format, name, a[3]);
        return;
    }
    // `c05 --dump-seeds <dir>`: write every valid seed to <dir>/<format>/<name> (seed corpus of engine B)
    if std::env::args().nth(1).as_deref() == Some("--dump-seeds") {
        let dir = std::path::PathBuf::from(std::env::args().nth(2).expect("usage: c05 --dump-seeds <dir>"));
        let seeds = all_seeds();
        for s in &seeds {
            let d = dir.join(s.format);
            std::fs::create_dir_all(&d).expect("mkdir");
            let name: String = s.name.chars().map(|c| if c.is_ascii_alphanumeric() || "-_.".contains(c) { c } else { '_' }).collect();
            std::fs::write(d.join(name), &s.bytes).expect("write seed");
        }
        println!("{} seeds -> {}", seeds.len(), dir.display());
        return;
    }
    let (check, args) = Check::new("C05", "exploration");
    check.set_rule(
        "valid seeds (8 MPQ archives V1..V4 with attributes/encryption/compressed tables, one of them carrying a hand-written CRC32|PATCH_BIT (attributes) file; 160 hand-encoded (attributes) files = block counts {0,1,3,7,8,9,64} × all 16 flag sets plus the accepted one-byte-short patch-bit variants, given to Attributes::parse as [block_count u16][data] with every per-block accessor touched; \
         9 (listfile) texts (LF, CRLF, `;`, BOM, empty lines/comments, 20 KB line, invalid UTF-8, NUL); COPY and BSD0 patch files, compressed streams for 11 method bytes, and 3..10 files each for M2, skin, anim, ADT, WMO root/group, BLP, DBC, WDT, WDL built with the crates' own writers) × deterministic structured mutation: \
         (i) prefixes (every length below 96, strided above, chunk boundaries ±1; every length for (attributes) files, so 'ideal size − 1' and '− 2' with PATCH_BIT are hit by construction); (ii) boundary values {0, 1, 2^31−1, 2^31, 2^32−1, len−1, len, len+1, old±1, …} as u16/u32/u64 at aligned offsets of the head region and sampled offsets beyond, and inside decrypted hash/block/HET/BET tables of MPQ archives (decrypt → substitute → re-encrypt); \
         (iii) chunk delete / duplicate / swap / size ±1, ±8, 0xFFFFFFFF for chunked formats; \
         (iii-b) deep nesting for the chunked families (ADT, WMO root/group, WDT, WDL, chunked M2; one host seed per chunk layout): the leading chunk of the seed followed by 20 000 / 120 000 nested headers of one id with sizes 8·(n−1) … 8, 0 (each container holds exactly the next; 160 KB / 960 KB), without and with the rest of the seed behind it, and the same nest appended to the sub-chunk sequence of each container chunk of the seed (MCNK, MOGP; size fixed up; a container with a fixed header before its sub-chunks is also nested in itself with that header at every level, ≤ 4 MiB), \
         for every id of a run-time dictionary = all four-character tokens over [A-Z0-9_ ] in the source files of the crate under test (identifiers, string / byte-string literals, byte arrays, hex constants, comments; the directory the harness' path dependency points at, or VERIF_REPO) ∪ the chunk and sub-chunk ids of the seeds, each in both byte orders, plus seeded random nests (1–3 ids cycled, 2^10…2^17 levels, any placement); these cases run on a thread with Rust's default 2 MiB stack (what std::thread / rayon / tokio callers give a parser; 120 000 levels overflow it with any frame above 17 bytes), a stack overflow there is signed process-stack-overflow@<family>:nested-chunks; class = family × nest-<placement>-<depth class> × outcome; \
         (iv) seeded havoc (1–8 flips, inserts, deletes, block copies, boundary dwords) and garbage with/without the magic. Each case runs every public entry point of its format in a supervised worker with a tracking allocator \
         (one request > max(64 MiB, 256×input) or live > 1 GiB ⇒ violation), a 10 CPU-second budget, and panic capture. non-trivial = the mutated input got past the first validation layer (result Ok, or an error after a first stage succeeded); distinct = format × mutator × outcome class. \
         Engine B (when /verif/fuzz/run.sh exists and VERIF_C05_FUZZ != 0): one libFuzzer target per family calling the same entry points, two fixed-work campaigns each (seed corpus = the valid seeds above; empty corpus) with -len_control=0 -max_len=64 KiB (mpq 256 KiB) -timeout=10 -malloc_limit_mb=256 -rss_limit_mb=3072 and -seed derived from VERIF_SEED; \
         quick = 15 k…400 k runs per campaign (smoke depth), thorough = 350 k…5 M; each campaign is one evaluated class `fuzz:<target>[:empty]:campaign`, non-trivial when libFuzzer reports > 50 covered edges; every artifact is one more evaluated case, judged by the same worker",
    );
    check.assume("results themselves are not judged (only: returns, no panic/abort/overflow/hang/huge allocation)");
    check.assume(
        "engine B: libFuzzer (ASan build, release + debug assertions + overflow checks) is trusted only to *propose* inputs: every artifact is re-judged in engine A's worker (crash artifacts that do not fail there are re-run once under the sanitizer build of their target; an AddressSanitizer report or a panic there counts); \
         libFuzzer's -malloc_limit_mb/-timeout artifacts that engine A's rules do not confirm are counted as fuzz-artifact-not-reproduced, not as violations; campaigns are fixed work but libFuzzer's corpus evolution is not guaranteed bit-reproducible; \
         panics matching an open known finding are tolerated inside the targets and counted (fuzz:tolerated:*); absence of crashes outside the explored inputs is not shown",
    );

    let seeds = all_seeds();
    let seed_dir = engine::scratch("c05seeds");
    store_seeds(seed_dir.path(), &seeds);
    let spec = Spec {
        cpu_secs: 10,
        wall_grace_secs: 40,
        rlimit_as: 8 << 30,
        env: vec![("VERIF_C05_SEEDS".into(), seed_dir.path().to_string_lossy().to_string())],
        ..Spec::new("c05")
    };
    if let Some(p) = check.replay.clone() {
        let v: Value = serde_json::from_str(&std::fs::read_to_string(&p).expect("replay")).expect("json");
        let out = supervise::run_cases(&spec, &[v["case"].clone()], 1);
        let c: Case = serde_json::from_value(v["case"].clone()).expect("case");
        if let Err(f) = judge(&c, &out[0]) {
            check.fail(&f, v["case"].clone());
        }
        check.count("replay-pad", true);
        check.count("replay-pad2", true);
        let _ = std::fs::remove_dir_all(seed_dir.path());
        check.finish();
    }
    // `c05 --classify <format> <artifact-file>…`: judge raw inputs (libFuzzer artifacts) like mutated seeds
    if args.rest.first().map(|s| s.as_str()) == Some("--classify") {
        let format = args.rest.get(1).cloned().unwrap_or_default();
        if !vcheck::targets::FORMATS.contains(&format.as_str()) || args.rest.len() < 3 {
            eprintln!("usage: c05 --classify <{}> <artifact-file>…", vcheck::targets::FORMATS.join("|"));
            std::process::exit(2);
        }
        let arts: Vec<(String, std::path::PathBuf)> = args.rest[2..].iter().map(|p| (format.clone(), std::path::PathBuf::from(p))).collect();
        preserve_evidence_file();
        let recs = engb::classify(&check, &spec, &arts);
        for r in &recs {
            println!("{r}");
        }
        let _ = std::fs::remove_dir_all(seed_dir.path());
        check.finish();
    }

    let mut per_format: std::collections::BTreeMap<&str, usize> = Default::default();
    for s in &seeds {
        *per_format.entry(s.format).or_default() += 1;
    }
    check.set_extra("seeds_per_format", json!(per_format));
    for f in vcheck::targets::FORMATS {
        if per_format.get(f).copied().unwrap_or(0) == 0 {
            check.inconclusive(&format!("no seed for format {f}"));
        }
    }
    let mut cases = vec![];
    for (i, s) in seeds.iter().enumerate() {
        cases.extend(mutations_for(s, i, check.tier, check.sub_seed("c05-mut")));
    }
    // by construction: every exact-size (attributes) seed with PATCH_BIT and ≥ 1 block is also run one byte short
    // (the length the parser deliberately tolerates) and two bytes short (the first length it must reject)
    {
        let have: std::collections::BTreeSet<(usize, usize)> = cases.iter().filter_map(|c| if let Mutation::Prefix(p) = c.m { Some((c.seed, p)) } else { None }).collect();
        let mut expected = 0;
        for (i, s) in seeds.iter().enumerate() {
            let b = &s.bytes;
            if s.format != "attributes" || b.len() < 10 || s.name.ends_with("1short") {
                continue;
            }
            let (n, flags) = (u16::from_le_bytes([b[0], b[1]]), u32::from_le_bytes([b[6], b[7], b[8], b[9]]));
            if n > 0 && flags & seeds::attrs::PATCH_BIT != 0 {
                expected += 1;
                if have.contains(&(i, b.len() - 1)) && have.contains(&(i, b.len() - 2)) {
                    check.bump("attributes:patchbit-seed-truncated-by-1-and-2", 1);
                }
            }
        }
        if expected == 0 || check.counter("attributes:patchbit-seed-truncated-by-1-and-2") != expected {
            check.inconclusive("essential class empty: PATCH_BIT (attributes) seeds truncated by one and two bytes");
        }
    }
    // deep nesting of every chunk id the crate under test spells in its sources (module `nest`): by construction,
    // per chunked family, dictionary × {20 000, 120 000 levels} × {behind the leading chunk, + rest of the seed,
    // inside each container of the seed}
    {
        let (nested, report, source_ids) = nest::cases(&seeds, check.tier, check.sub_seed("c05-mut"));
        for f in nest::EXPECTED_HOSTS {
            let n = report[f]["cases"].as_u64().unwrap_or(0);
            check.bump(&format!("nest:cases:{f}"), n);
            if n == 0 {
                check.inconclusive(&format!("essential class empty: no deep-nesting case for chunked family {f}"));
            }
            if source_ids.get(f).copied().unwrap_or(0) == 0 {
                check.inconclusive(&format!(
                    "deep-nesting dictionary of family {f}: no chunk id found in the sources under {} (set VERIF_REPO to the tree under test)",
                    report[f]["scan_dir"].as_str().unwrap_or("?")
                ));
            }
        }
        check.set_extra("nest", report);
        cases.extend(nested);
    }
    let vals: Vec<Value> = cases.iter().map(|c| serde_json::to_value(c).unwrap()).collect();
    let outs = supervise::run_cases(&spec, &vals, engine::WORKERS);
    let mut nest_outcomes: std::collections::BTreeMap<String, u64> = Default::default();
    for (c, o) in cases.iter().zip(outs.iter()) {
        let nest_label;
        let mk = match &c.m {
            Mutation::Nest { depth, pad, place, .. } => {
                nest_label = nest::label(*depth, *pad, place, seeds.get(c.seed).and_then(|s| nest::container_name(&s.bytes, place)).as_deref());
                nest_label.as_str()
            }
            Mutation::None => "intact",
            Mutation::Prefix(_) => "prefix",
            Mutation::Subst { .. } => "subst",
            Mutation::Subst2 { .. } => "subst2",
            Mutation::TableSubst { .. } => "table-subst",
            Mutation::ChunkDelete(_) | Mutation::ChunkDup(_) | Mutation::ChunkSwap(_) => "chunk-op",
            Mutation::ChunkSize { .. } => "chunk-size",
            Mutation::Havoc(_) => "havoc",
            Mutation::Garbage { .. } => "garbage",
            Mutation::Raw { .. } => "raw",
        };
        match judge(c, o) {
            Ok(class) => {
                let nt = class == "ok" || class.contains(';');
                check.count(&format!("{}:{mk}:{class}", c.format), nt);
                if matches!(c.m, Mutation::Nest { .. }) {
                    *nest_outcomes.entry(format!("{}:{mk}:{class}", c.format)).or_default() += 1;
                    if nt {
                        check.bump(&format!("nest:accepted:{}", c.format), 1);
                    }
                }
                if nt {
                    check.sample(&format!("{}{mk}", c.format), || json!({"format": c.format, "seed": seeds[c.seed].name, "mutation": c.m, "outcome": class}));
                }
                if matches!(c.m, Mutation::None) && class != "ok" && !class.contains(';') {
                    check.bump(&format!("seed_not_accepted:{}:{}", c.format, seeds[c.seed].name), 1);
                }
            }
            Err(f) => {
                if matches!(c.m, Mutation::Nest { .. }) {
                    *nest_outcomes.entry(format!("{}:{mk}:VIOLATION", c.format)).or_default() += 1;
                }
                check.count(&format!("{}:{mk}:VIOLATION", c.format), true);
                check.fail(&f, serde_json::to_value(c).unwrap());
            }
        }
    }
    check.set_extra("nest_outcomes", json!(nest_outcomes));
    // engine B: coverage-guided campaigns over the same targets; artifacts are judged by the worker above
    if engb::enabled() {
        engb::run(&check, &spec);
    } else {
        check.bump("fuzz:engine-b-skipped", 1);
    }
    // `finish` exits the process without running destructors
    let _ = std::fs::remove_dir_all(seed_dir.path());
    check.finish();
}

/// `--classify` is a side entrance: it must not replace the evidence of the last full run. `Check::finish`
/// always writes evidence/C05.json, so the previous content is put back when the process exits.
fn preserve_evidence_file() {
    static SAVED: std::sync::OnceLock<(std::path::PathBuf, Option<Vec<u8>>)> = std::sync::OnceLock::new();
    extern "C" fn restore() {
        if let Some((p, old)) = SAVED.get() {
            match old {
                Some(b) => {
                    let _ = std::fs::write(p, b);
                }
                None => {
                    let _ = std::fs::remove_file(p);
                }
            }
        }
    }
    let p = engine::verif_root().join("evidence").join("C05.json");
    let old = std::fs::read(&p).ok();
    if SAVED.set((p, old)).is_ok() {
        unsafe {
            libc::atexit(restore);
        }
    }
}

fn judge(c: &Case, o: &Outcome) -> Result<String, Fail> {
    match o {
        Outcome::Done(v) => {
            if let Some(cl) = v["class"].as_str() {
                Ok(cl.to_string())
            } else {
                // engine::guard yields `panic@<format>:<file>:<message>`; the root cause is the panic site,
                // not the entry point, so the signature leads with the site: `panic:<file>:<message>@<format>`
                // (one known-finding entry `panic:dep:<crate>/*` then covers a dependency that panics on
                // untrusted data whatever the entry point)
                let sig = vcheck::targets::c05_panic_signature(v["sig"].as_str().unwrap_or("?"));
                Err(Fail::new(sig, format!("{} (input {} bytes)", v["msg"].as_str().unwrap_or(""), v["len"])))
            }
        }
        Outcome::Died { how, stderr_tail } => {
            let what = if how == "alloc-limit" {
                format!("huge-allocation@{}:{}", c.format, frame_of(stderr_tail))
            } else if matches!(c.m, Mutation::Nest { .. }) && matches!(how.as_str(), "stack-overflow" | "segv" | "abort") {
                // the defect is the parser family's walk over nested chunks, whatever id made it descend
                format!("process-{how}@{}:nested-chunks", c.format)
            } else {
                format!("process-{how}@{}", c.format)
            };
            let last = stderr_tail.lines().rev().find(|l| l.starts_with("ALLOC-LIMIT") || l.contains("panicked") || l.contains("overflowed")).unwrap_or("").to_string();
            Err(Fail::new(what, format!("worker died ({how}): {}", engine::truncate(&last, 400))))
        }
        Outcome::Deadlock { .. } => Err(Fail::new(format!("hang@{}", c.format), "no answer and no CPU progress")),
    }
}
