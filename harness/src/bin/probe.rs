use vcheck::gens::mpq::*;
fn main() {
    let dir = vcheck::engine::scratch("probe");
    for (v, ct) in [(3u8, false), (4, false), (3, true), (4, true)] {
        for n in [1usize, 2, 3, 5, 8] {
            let spec = ArchiveSpec { version: v, shift: 0, crcs: false, attrs: Attrs::None, listfile: true, compress_tables: ct, table_method: M_ZLIB,
                files: (0..n).map(|i| FileSpec { name: format!("a\\f{i}.txt"), class: ContentClass::Text, len: LenSpec{halves:0,delta:100+i as i16}, seed: i as u32, method: M_ZLIB, enc: Enc::None }).collect() };
            let p = dir.path().join("x.mpq");
            spec.builder().build(&p).unwrap();
            let a = wow_mpq::Archive::open(&p).unwrap();
            let het = a.het_table().is_some();
            let bet = a.bet_table().is_some();
            let mut found_via = "n/a";
            if let (Some(h), Some(b)) = (a.het_table(), a.bet_table()) {
                let (_, cands) = h.find_file_with_collision_info("a\\f0.txt");
                found_via = if cands.iter().any(|&c| b.verify_file_hash(c, "a\\f0.txt")) { "hetbet" } else if cands.is_empty() { "het-miss" } else { "bet-hash-mismatch" };
            }
            println!("V{v} ct={ct} n={n}: het={het} bet={bet} lookup={found_via}");
        }
    }
}
