//! A fully materialised case, its archive builder, the process runner and the oracle.

use crate::names::{self, Feat};
use crate::sandbox::{self, Sandbox};
use serde::{Deserialize, Serialize};
use serde_json::{Value, json};
use std::collections::BTreeMap;
use std::os::unix::process::CommandExt;
use std::path::PathBuf;
use std::process::{Command, Stdio};
use std::sync::atomic::{AtomicU64, Ordering};
use vcheck::engine::{CaseResult, Check, Fail, truncate};
use wow_mpq::{ArchiveBuilder, FormatVersion, ListfileOption};

#[derive(Clone, Debug, PartialEq, Eq, Serialize, Deserialize)]
pub struct Ent {
    /// archive name template (`{SBX}` = sandbox root without leading '/')
    pub name: String,
    pub len: u16,
    pub seed: u8,
}

#[derive(Clone, Debug, PartialEq, Eq, Serialize, Deserialize)]
pub enum Lf {
    /// builder-generated (listfile): the entry names as given (after the builder's `/`→`\`)
    Generate,
    None,
    /// external listfile with exactly these lines (templates); lines need not match an entry
    External(Vec<String>),
}

#[derive(Clone, Debug, PartialEq, Eq, Serialize, Deserialize)]
pub struct Arc {
    pub version: u8,
    pub lf: Lf,
    pub files: Vec<Ent>,
}

#[derive(Clone, Copy, Debug, PartialEq, Eq, Serialize, Deserialize)]
pub enum OutMode {
    /// `-o OUT`, directory exists
    Rel,
    /// `-o OUT`, directory does not exist yet
    RelMissing,
    /// `-o <abs path of OUT>`
    Abs,
    /// `-o ./OUT/`
    DotSlash,
}

#[derive(Clone, Debug, PartialEq, Eq, Serialize, Deserialize)]
pub struct Case {
    pub base: Arc,
    pub patches: Vec<Arc>,
    pub preserve: bool,
    /// explicit names on the command line (templates); None = whole archive
    pub explicit: Option<Vec<String>>,
    pub skip_errors: bool,
    pub threads: Option<u8>,
    pub file_type: Option<String>,
    pub out_mode: OutMode,
    /// how many names the exclusion switch rewrote when this case was generated
    #[serde(default)]
    pub excl_rewrites: u32,
    /// canary / grid label (empty for random cases)
    #[serde(default)]
    pub label: String,
}

impl Case {
    pub fn archives(&self) -> impl Iterator<Item = &Arc> {
        std::iter::once(&self.base).chain(self.patches.iter())
    }
    pub fn archives_mut(&mut self) -> impl Iterator<Item = &mut Arc> {
        std::iter::once(&mut self.base).chain(self.patches.iter_mut())
    }
    /// every name template that can reach the extractor: entry names, listfile lines, explicit
    pub fn all_names(&self) -> Vec<&String> {
        let mut v = vec![];
        for a in self.archives() {
            for f in &a.files {
                v.push(&f.name);
            }
            if let Lf::External(l) = &a.lf {
                v.extend(l.iter());
            }
        }
        if let Some(e) = &self.explicit {
            v.extend(e.iter());
        }
        v
    }
    pub fn feat(&self) -> Feat {
        self.all_names()
            .iter()
            .fold(Feat::default(), |f, n| f.union(Feat::of(n)))
    }
    /// apply the exclusion switch: with --preserve-paths every escape-capable name is rewritten
    /// to its contained form.  Returns the number of rewritten names.
    pub fn apply_exclusion(&mut self) -> u32 {
        if !self.preserve {
            return 0;
        }
        let mut n = 0;
        let mut fix = |s: &mut String| {
            if Feat::of(s).escape_capable() {
                *s = names::contain(s);
                n += 1;
            }
        };
        for a in self.archives_mut() {
            for f in a.files.iter_mut() {
                fix(&mut f.name);
            }
            if let Lf::External(l) = &mut a.lf {
                l.iter_mut().for_each(&mut fix);
            }
        }
        if let Some(e) = &mut self.explicit {
            e.iter_mut().for_each(&mut fix);
        }
        self.dedup();
        self.excl_rewrites += n;
        n
    }
    /// drop logically duplicate entry names inside one archive, special names and empty names
    pub fn dedup(&mut self) {
        for a in self.archives_mut() {
            let mut seen = std::collections::BTreeSet::new();
            a.files.retain(|f| {
                let k = names::fold(&f.name);
                !f.name.is_empty()
                    && k != "(LISTFILE)"
                    && k != "(ATTRIBUTES)"
                    && k != "(SIGNATURE)"
                    && seen.insert(k)
            });
        }
        if let Some(e) = &self.explicit
            && e.is_empty()
        {
            self.explicit = None;
        }
    }
    pub fn to_json(&self) -> Value {
        serde_json::to_value(self).unwrap()
    }
}

pub fn content(arc_idx: usize, file_idx: usize, e: &Ent) -> Vec<u8> {
    let head = format!("C11|a{arc_idx}|f{file_idx}|s{}|", e.seed);
    let mut v = head.into_bytes();
    let want = (e.len as usize).max(v.len());
    let mut x = (e.seed as u32)
        .wrapping_mul(2654435761)
        .wrapping_add(arc_idx as u32 * 977 + file_idx as u32)
        .wrapping_add(12345);
    while v.len() < want {
        x = x.wrapping_mul(1664525).wrapping_add(1013904223);
        v.push(b'a' + ((x >> 24) % 26) as u8);
    }
    v
}

fn version(v: u8) -> FormatVersion {
    match v {
        1 => FormatVersion::V1,
        2 => FormatVersion::V2,
        3 => FormatVersion::V3,
        _ => FormatVersion::V4,
    }
}

pub fn arc_file_name(i: usize) -> String {
    if i == 0 {
        "base.mpq".into()
    } else {
        format!("patch-{i}.mpq")
    }
}

fn build_archive(sb: &Sandbox, idx: usize, a: &Arc) -> Result<(), String> {
    let path = sb.arch.join(arc_file_name(idx));
    let mut b = ArchiveBuilder::new().version(version(a.version));
    b = match &a.lf {
        Lf::Generate => b.listfile_option(ListfileOption::Generate),
        Lf::None => b.listfile_option(ListfileOption::None),
        Lf::External(lines) => {
            let lp = sb.arch.join(format!("listfile-{idx}.txt"));
            let mut text = String::new();
            for l in lines {
                text.push_str(&names::substitute(l, &sb.sbx_rel));
                text.push_str("\r\n");
            }
            std::fs::write(&lp, text).map_err(|e| e.to_string())?;
            b.listfile_option(ListfileOption::External(lp))
        }
    };
    for (i, f) in a.files.iter().enumerate() {
        b = b.add_file_data(content(idx, i, f), &names::substitute(&f.name, &sb.sbx_rel));
    }
    b.build(&path).map_err(|e| e.to_string())
}

pub struct Ctx {
    pub cli: PathBuf,
    pub scratch: PathBuf,
    pub counter: AtomicU64,
    /// Landlock ABI (the child is always confined to its sandbox root, see confine.rs)
    pub landlock_abi: i32,
    /// grid labels whose process actually ran
    pub ran: std::sync::Mutex<std::collections::BTreeSet<String>>,
}

pub struct Run {
    pub exit: Option<i32>,
    pub stderr: String,
    pub timed_out: bool,
}

fn run_cli(ctx: &Ctx, sb: &Sandbox, c: &Case) -> std::io::Result<(Vec<String>, Run)> {
    let mut args: Vec<String> = vec!["mpq".into(), "extract".into()];
    args.push(format!("archives/{}", arc_file_name(0)));
    args.push("-o".into());
    args.push(match c.out_mode {
        OutMode::Rel | OutMode::RelMissing => "OUT".into(),
        OutMode::Abs => sb.out.to_str().unwrap().to_string(),
        OutMode::DotSlash => "./OUT/".into(),
    });
    if c.preserve {
        args.push("--preserve-paths".into());
    }
    for i in 1..=c.patches.len() {
        args.push("--patch".into());
        args.push(format!("archives/{}", arc_file_name(i)));
    }
    if c.skip_errors {
        args.push("--skip-errors".into());
    }
    if let Some(t) = c.threads {
        args.push("--threads".into());
        args.push(t.to_string());
    }
    if let Some(t) = &c.file_type {
        args.push("--file-type".into());
        args.push(t.clone());
    }
    if let Some(e) = &c.explicit {
        args.push("--".into());
        for n in e {
            args.push(names::substitute(n, &sb.sbx_rel));
        }
    }
    let mut cmd = Command::new(&ctx.cli);
    cmd.args(&args)
        .current_dir(&sb.work)
        .env_clear()
        .env("PATH", "/usr/bin:/bin")
        .env("HOME", &sb.home)
        .env("XDG_CONFIG_HOME", sb.home.join(".config"))
        .env("XDG_DATA_HOME", sb.home.join(".local/share"))
        .env("XDG_STATE_HOME", sb.home.join(".local/state"))
        .env("XDG_CACHE_HOME", sb.home.join(".cache"))
        .env("XDG_RUNTIME_DIR", sb.home.join("run"))
        .env("TMPDIR", sb.home.join("tmp"))
        .env("NO_COLOR", "1")
        .env("RUST_BACKTRACE", "0")
        .stdin(Stdio::null())
        .stdout(Stdio::piped())
        .stderr(Stdio::piped());
    // kernel-level confinement: no write-type access outside this case's sandbox root.
    // If it cannot be set up the child is not started at all.
    let ruleset = crate::confine::ruleset_for(&sb.root, ctx.landlock_abi)?;
    let ruleset_fd = std::os::fd::AsRawFd::as_raw_fd(&ruleset);
    unsafe {
        cmd.pre_exec(move || {
            crate::confine::restrict_self(ruleset_fd)?;
            // CPU seconds / file size bounds for the child (harness safety, not an oracle)
            let cpu = libc::rlimit {
                rlim_cur: 120,
                rlim_max: 120,
            };
            libc::setrlimit(libc::RLIMIT_CPU, &cpu);
            let fsz = libc::rlimit {
                rlim_cur: 256 << 20,
                rlim_max: 256 << 20,
            };
            libc::setrlimit(libc::RLIMIT_FSIZE, &fsz);
            let core = libc::rlimit {
                rlim_cur: 0,
                rlim_max: 0,
            };
            libc::setrlimit(libc::RLIMIT_CORE, &core);
            Ok(())
        });
    }
    let child = cmd.spawn()?;
    drop(ruleset);
    let pid = child.id();
    let (tx, rx) = std::sync::mpsc::channel();
    let h = std::thread::spawn(move || {
        let _ = tx.send(child.wait_with_output());
    });
    // harness watchdog only: a child that neither exits nor burns its CPU limit
    let res = match rx.recv_timeout(std::time::Duration::from_secs(600)) {
        Ok(r) => {
            let o = r?;
            Run {
                exit: o.status.code(),
                stderr: String::from_utf8_lossy(&o.stderr).into_owned(),
                timed_out: false,
            }
        }
        Err(_) => {
            unsafe {
                libc::kill(pid as i32, libc::SIGKILL);
            }
            let _ = rx.recv();
            Run {
                exit: None,
                stderr: String::new(),
                timed_out: true,
            }
        }
    };
    let _ = h.join();
    Ok((args, res))
}

fn tail(s: &str, n: usize) -> String {
    let t = s.trim_end();
    if t.len() <= n {
        return t.to_string();
    }
    let mut start = t.len() - n;
    while !t.is_char_boundary(start) {
        start += 1;
    }
    format!("…{}", &t[start..])
}

/// Evaluate one case: fresh sandbox, guard, build, snapshot, run, snapshot, judge.
/// Calls `check.count` exactly once.
pub fn eval(check: &Check, ctx: &Ctx, c: &Case) -> CaseResult {
    let id = ctx.counter.fetch_add(1, Ordering::Relaxed);
    let sb = match Sandbox::create(&ctx.scratch, id, c.out_mode != OutMode::RelMissing) {
        Ok(s) => s,
        Err(e) => {
            check.count("harness:sandbox-error", false);
            check.inconclusive(&format!("cannot create sandbox: {e}"));
            return Ok(());
        }
    };
    let r = eval_in(check, ctx, c, &sb);
    sb.destroy();
    r
}

fn eval_in(check: &Check, ctx: &Ctx, c: &Case, sb: &Sandbox) -> CaseResult {
    // ---- safety guard: nothing runs unless every name provably stays inside the sandbox
    for n in c.all_names() {
        let concrete = names::substitute(n, &sb.sbx_rel);
        let verdict = names::check_safe_template(n).and_then(|_| {
            names::check_safe_concrete(&concrete, &sb.root, &[&sb.out, &sb.work])
        });
        if let Err(why) = verdict {
            check.count("harness:guard-refused", false);
            check.bump("guard_refused", 1);
            check.inconclusive(&format!("generator produced an unsafe name {n:?}: {why}"));
            return Ok(());
        }
    }

    // ---- build
    for (i, a) in c.archives().enumerate() {
        if let Err(e) = build_archive(sb, i, a) {
            check.count(&format!("build-error:{}", if i == 0 { "base" } else { "patch" }), false);
            check.bump("build_errors", 1);
            check.sample("build-error", || json!({"build_error": e, "case": c.to_json()}));
            return Ok(());
        }
    }
    // expected content → entry names (to attribute written files to their source names)
    let mut by_md5: BTreeMap<[u8; 16], Vec<&String>> = BTreeMap::new();
    for (ai, a) in c.archives().enumerate() {
        for (fi, f) in a.files.iter().enumerate() {
            by_md5
                .entry(sandbox::md5_of(&content(ai, fi, f)))
                .or_default()
                .push(&f.name);
        }
    }

    // ---- observe
    let before = match sandbox::snapshot(&sb.root) {
        Ok(s) => s,
        Err(e) => return harness_err(check, "snapshot", e),
    };
    let (args, run) = match run_cli(ctx, sb, c) {
        Ok(r) => r,
        Err(e) => return harness_err(check, "spawn", e),
    };
    let after = match sandbox::snapshot(&sb.root) {
        Ok(s) => s,
        Err(e) => return harness_err(check, "snapshot", e),
    };
    if run.timed_out {
        check.count("harness:watchdog", false);
        check.inconclusive(&format!("child did not finish within the harness watchdog: {args:?}"));
        return Ok(());
    }
    let changes = sandbox::diff(&before, &after);
    let outside: Vec<&sandbox::Change> = changes
        .iter()
        .filter(|ch| !sandbox::inside_out(&ch.path, &sb.out_rel))
        .collect();
    let written: Vec<&sandbox::Change> = changes
        .iter()
        .filter(|ch| ch.kind == "file" && ch.what != "deleted")
        .collect();
    let hostile_written = written
        .iter()
        .filter(|ch| {
            by_md5
                .get(&ch.md5)
                .map(|ns| ns.iter().any(|n| Feat::of(n).hostile()))
                .unwrap_or(false)
        })
        .count();

    // ---- classify
    let feat = c.feat();
    let branch = match c.patches.len() {
        0 => "single",
        1 => "chain1",
        _ => "chain2",
    };
    let lf = |a: &Arc| match a.lf {
        Lf::Generate => 'g',
        Lf::None => 'n',
        Lf::External(_) => 'x',
    };
    let lfs: String = c.archives().map(lf).collect();
    let class = format!(
        "{branch}:{}:{}:{}:t{}:lf{lfs}:{}:w{}",
        if c.preserve { "pp" } else { "flat" },
        if c.explicit.is_some() { "explicit" } else { "whole" },
        if c.skip_errors { "skip" } else { "strict" },
        match c.threads {
            None => "-".to_string(),
            Some(1) => "1".into(),
            Some(_) => "n".into(),
        },
        hostile_letters(&feat),
        match written.len() {
            0 => "0",
            1 => "1",
            _ => "n",
        }
    );
    let nontrivial = hostile_written > 0;
    check.count(&class, nontrivial);
    check.bump("process_runs", 1);
    if c.label.starts_with("grid:") {
        ctx.ran.lock().unwrap().insert(c.label.clone());
    }
    if std::env::var("VERIF_C11_DEBUG").is_ok() {
        eprintln!("[c11] {:?} exit={:?} wrote={} stderr={}", args, run.exit, written.len(), tail(&run.stderr, 200).replace('\n', " | "));
    }
    check.bump(&format!("exit:{}", run.exit.map(|x| x.to_string()).unwrap_or("signal".into())), 1);
    check.bump("files_written", written.len() as u64);
    check.bump("hostile_files_written", hostile_written as u64);
    if !written.is_empty() {
        check.bump("runs_that_wrote", 1);
    }
    if run.stderr.contains("panicked at") {
        check.bump("child_panics", 1);
    }
    if nontrivial {
        check.sample(
            &format!("{branch}{}{}{}", c.preserve, c.explicit.is_some(), feat.absolute),
            || {
                json!({
                    "args": args,
                    "exit": run.exit,
                    "name_features": feat.letters(),
                    "written": written.iter().map(|w| w.path.clone()).collect::<Vec<_>>(),
                    "entry_names": c.archives().flat_map(|a| a.files.iter().map(|f| f.name.clone())).collect::<Vec<_>>(),
                })
            },
        );
    }

    // ---- judge
    let mode = if c.preserve { "preserve-paths" } else { "flat" };
    let chain = if c.patches.is_empty() { "single-archive" } else { "patch-chain" };
    if outside.is_empty() {
        // Everything inside the sandbox is writable for the child (same uid, own directories), so
        // EACCES can only come from the Landlock confinement: the child tried to create or modify
        // something outside the sandbox root, i.e. certainly outside OUT.
        if run.stderr.contains("Permission denied") && run.stderr.contains("os error 13") {
            check.bump("blocked_outside_sandbox", 1);
            return Err(Fail::new(
                format!("escape:{mode}:blocked-outside-sandbox:{chain}"),
                format!(
                    "`warcraft-rs {}` tried to write outside the sandbox root (denied by the harness's Landlock confinement): exit {:?}; stderr: {}; names: {:?}",
                    args.join(" "),
                    run.exit,
                    truncate(&tail(&run.stderr, 300), 320),
                    c.all_names().iter().take(8).collect::<Vec<_>>(),
                ),
            ));
        }
        return Ok(());
    }
    // cause: which name explains the first offending path?
    let mut cause = "unexplained";
    let mut culprit = String::new();
    'find: for ch in &outside {
        // by content
        if ch.kind == "file"
            && let Some(ns) = by_md5.get(&ch.md5)
        {
            for n in ns {
                let f = Feat::of(n);
                if f.hostile() {
                    cause = cause_of(f);
                    culprit = (*n).clone();
                    break 'find;
                }
            }
        }
        // by lexical landing of any name in play (covers directories created before a failed write)
        let abs = sb.root.join(&ch.path);
        for n in c.all_names() {
            let walk = names::visited(&sb.out, &names::conv(&names::substitute(n, &sb.sbx_rel)));
            if walk.iter().any(|w| *w == abs) {
                cause = cause_of(Feat::of(n));
                culprit = n.clone();
                break 'find;
            }
        }
    }
    let sig = format!("escape:{mode}:{cause}:{chain}");
    let list: Vec<String> = outside
        .iter()
        .take(6)
        .map(|ch| format!("{} {} {}", ch.what, ch.kind, ch.path))
        .collect();
    Err(Fail::new(
        sig,
        format!(
            "`warcraft-rs {}` (cwd = work/, requested output dir = {}) changed {} path(s) outside OUT: [{}]; culprit name {:?}; exit {:?}; stderr: {}",
            args.join(" "),
            sb.out_rel,
            outside.len(),
            list.join("; "),
            culprit,
            run.exit,
            truncate(&tail(&run.stderr, 300), 320),
        ),
    ))
}

/// class key: which hostile kinds are present + whether any other grammar token is
fn hostile_letters(f: &Feat) -> String {
    let mut s = String::new();
    for (on, ch) in [
        (f.parent, 'P'),
        (f.net_escape, 'X'),
        (f.absolute, 'A'),
        (f.drive, 'D'),
        (f.verbatim, 'V'),
        (f.curdir || f.empty || f.long || f.deep || f.utf8 || f.trailing, 'o'),
    ] {
        if on {
            s.push(ch);
        }
    }
    if s.is_empty() {
        s.push('-');
    }
    s
}

fn cause_of(f: Feat) -> &'static str {
    if f.absolute {
        "absolute"
    } else if f.parent {
        "parent-component"
    } else if f.drive || f.verbatim {
        "prefix-component"
    } else {
        "other-name"
    }
}

/// not a defect of the code under test: the run is reported as inconclusive (exit 2)
fn harness_err(check: &Check, what: &str, e: std::io::Error) -> CaseResult {
    check.count(&format!("harness:{what}-error"), false);
    check.inconclusive(&format!("harness {what} failed: {e}"));
    Ok(())
}
