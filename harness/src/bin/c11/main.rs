//! C11 — `warcraft-rs mpq extract` never writes outside the chosen output directory.
//!
//! Every case runs the real CLI binary in a fresh sandbox
//! `<scratch>/cNNNNNNN/n01/…/n12/work/{OUT,archives}` (cwd = work, HOME/XDG_* inside the sandbox)
//! and compares a recursive snapshot of the whole sandbox before and after the run.
//! See `names.rs` for the safety guard that keeps every generated name inside the sandbox.

mod case;
mod confine;
mod names;
mod sandbox;
mod strat;

use case::{Arc, Case, Ctx, Ent, Lf, OutMode};
use names::SBX;
use serde_json::json;
use std::path::PathBuf;
use std::sync::atomic::AtomicU64;
use vcheck::engine::{self, Check, pt};

fn ent(name: &str, seed: u8) -> Ent {
    Ent {
        name: name.to_string(),
        len: 40,
        seed,
    }
}

/// the grammar's token classes, each with one representative name (essential classes)
fn features() -> Vec<(&'static str, String)> {
    let deep: String = (0..30).map(|i| format!("d{}\\", i % 7)).collect::<String>() + "x.txt";
    vec![
        ("parent-escape", "..\\..\\x.txt".into()),
        ("parent-escape-1", "..\\victim.txt".into()),
        ("parent-escape-12", format!("{}victim.txt", "..\\".repeat(12))),
        ("parent-contained", "a\\b\\..\\..\\c\\x.txt".into()),
        ("parent-mixed-sep", "a/..\\../..\\x.txt".into()),
        ("parent-after-ghost", "ghost\\..\\..\\victim.txt".into()),
        ("curdir", ".\\a\\.\\x.txt".into()),
        ("empty-component", "a\\\\b\\x.txt".into()),
        ("trailing-separator", "a\\b\\".into()),
        ("forward-slash", "a/b/x.txt".into()),
        ("absolute-backslash", format!("\\{SBX}\\abs_target\\x.txt")),
        ("absolute-slash", format!("/{SBX}/abs_target/victim.txt")),
        ("absolute-double-lead", format!("\\\\{SBX}\\abs_target\\x.txt")),
        ("absolute-verbatim-inside", format!("\\{SBX}\\\\?\\C:\\x.txt")),
        ("drive", "C:\\dir\\x.txt".into()),
        ("drive-glued", "C:x.txt".into()),
        ("drive-then-parents", "C:\\..\\..\\x.txt".into()),
        ("verbatim-prefix-mid", ".\\\\?\\C:\\x.txt".into()),
        ("unc-prefix-mid", ".\\\\server\\share\\x.txt".into()),
        ("component-255", format!("dir\\{}.txt", "L".repeat(251))),
        ("component-256", format!("dir\\{}.txt", "L".repeat(252))),
        ("deep-nesting", deep),
        ("utf-8", "Ünï\\日本語\\ж.txt".into()),
        ("trailing-dot", "dir.\\x.txt.".into()),
        ("trailing-space-dir", "dir \\x.txt".into()),
        ("trailing-space-leaf", "dir\\x.txt ".into()),
        ("near-parent", "...\\.. \\x.txt".into()),
    ]
}

/// deterministic grid: feature × preserve × two (branch, selection) rows
fn grid() -> Vec<Case> {
    let mut v = vec![];
    for (fi, (label, name)) in features().into_iter().enumerate() {
        for preserve in [false, true] {
            for row in 0..2usize {
                let chain = (fi + row) % 2 == 1;
                let explicit = row == 1;
                let k = fi * 4 + preserve as usize * 2 + row;
                let hostile = ent(&name, k as u8);
                let benign = ent("readme.txt", 200);
                let (base, patches) = if !chain {
                    (vec![benign, hostile], vec![])
                } else if k % 3 == 0 {
                    // hostile name only in the patch
                    (vec![benign], vec![vec![hostile, ent("Patch\\note.txt", 7)]])
                } else {
                    // hostile name in the base, overridden by a re-spelled entry in patch 2
                    (
                        vec![benign, hostile],
                        vec![
                            vec![ent("other\\p1.txt", 9)],
                            vec![ent(&names::spell(&name, 1 + (k % 3) as u8), 11)],
                        ],
                    )
                };
                let mk = |files: Vec<Ent>, i: usize| Arc {
                    version: [1u8, 2, 1, 4, 2, 3][(k + i) % 6],
                    lf: if (k + i) % 5 == 4 {
                        let mut l: Vec<String> =
                            files.iter().map(|f| names::spell(&f.name, (k % 6) as u8)).collect();
                        l.push("no\\such\\..\\..\\..\\entry.txt".into());
                        Lf::External(l)
                    } else {
                        Lf::Generate
                    },
                    files,
                };
                let patches: Vec<Arc> = patches.into_iter().enumerate().map(|(i, f)| mk(f, i + 1)).collect();
                let c = Case {
                    base: mk(base, 0),
                    patches,
                    preserve,
                    explicit: explicit.then(|| vec![names::spell(&name, (k % 6) as u8), "readme.txt".into()]),
                    // an external listfile with a non-matching line needs --skip-errors to get anywhere
                    skip_errors: k % 2 == 0 || k % 5 >= 3,
                    threads: [None, Some(1), Some(2), Some(4)][k % 4],
                    file_type: None,
                    out_mode: [OutMode::Rel, OutMode::RelMissing, OutMode::Abs, OutMode::DotSlash][(k / 2) % 4],
                    excl_rewrites: 0,
                    label: format!("grid:{label}:{}", if preserve { "pp" } else { "flat" }),
                };
                v.push(c);
            }
        }
    }
    // controls: benign names only (something must get written on any working tree)
    for (i, preserve) in [false, true].into_iter().enumerate() {
        for chain in [false, true] {
            v.push(Case {
                base: Arc {
                    version: 1 + i as u8,
                    lf: Lf::Generate,
                    files: vec![ent("readme.txt", 1), ent("Interface\\Icons\\a.blp", 2)],
                },
                patches: if chain {
                    vec![Arc {
                        version: 2,
                        lf: Lf::Generate,
                        files: vec![ent("interface/icons/A.BLP", 3)],
                    }]
                } else {
                    vec![]
                },
                preserve,
                explicit: None,
                skip_errors: false,
                threads: None,
                file_type: None,
                out_mode: OutMode::Rel,
                excl_rewrites: 0,
                label: format!("grid:control:{}", if preserve { "pp" } else { "flat" }),
            });
        }
    }
    v
}

/// fixed canary set inside the region the exclusion switch steers around
fn canaries() -> Vec<Case> {
    let hostile: Vec<(&str, String)> = vec![
        ("parent", "..\\..\\x.txt".into()),
        ("parent-1-victim", "..\\victim.txt".into()),
        ("parent-1-late", "a\\b\\..\\..\\..\\x.txt".into()),
        ("parent-12", format!("{}victim.txt", "..\\".repeat(12))),
        ("parent-mixed", "a/..\\..\\../x.txt".into()),
        ("absolute", format!("\\{SBX}\\abs_target\\x.txt")),
        ("absolute-victim", format!("/{SBX}/abs_target/victim.txt")),
        ("absolute-double", format!("\\\\{SBX}\\x.txt")),
    ];
    let mut v = vec![];
    for (hi, (label, name)) in hostile.iter().enumerate() {
        for chain in [false, true] {
            for explicit in [false, true] {
                let h = ent(name, hi as u8);
                let (base, patches) = if !chain {
                    (vec![ent("readme.txt", 1), h], vec![])
                } else if explicit {
                    (vec![ent("readme.txt", 1), h], vec![vec![ent("p.txt", 2)]])
                } else {
                    (vec![ent("readme.txt", 1)], vec![vec![h]])
                };
                let mk = |files: Vec<Ent>| Arc {
                    version: 1 + (hi % 2) as u8,
                    lf: Lf::Generate,
                    files,
                };
                v.push(Case {
                    base: mk(base),
                    patches: patches.into_iter().map(mk).collect(),
                    preserve: true,
                    explicit: explicit.then(|| vec![names::spell(name, hi as u8 % 2)]),
                    skip_errors: hi % 2 == 0,
                    threads: None,
                    file_type: None,
                    out_mode: OutMode::Rel,
                    excl_rewrites: 0,
                    label: format!(
                        "canary:{label}:{}:{}",
                        if chain { "chain" } else { "single" },
                        if explicit { "explicit" } else { "whole" }
                    ),
                });
            }
        }
    }
    v
}

/// shapes the per-entry generator does not reach: archives above the size where bulk paths switch strategy
/// (more than 1000 entries), and a hostile name written right after a benign sibling of the same directory
/// (sorted chain listing: the sibling's first character sorts below '.'; explicit names: command-line order)
fn shapes() -> Vec<Case> {
    let mut v = vec![];
    let hostile_dirs = ["..\\..\\c11_escdir\\deep\\note.txt".to_string(), format!("\\{SBX}\\abs_target\\newdir\\note.txt"), "a\\..\\..\\c11_escdir2\\n.txt".to_string()];
    for (i, n) in [1001usize, 1500].into_iter().enumerate() {
        for chain in [false, true] {
            let mut files: Vec<Ent> = (0..n).map(|k| Ent { name: format!("bulk\\d{}\\f{k}.txt", k % 7), len: 3, seed: (k % 251) as u8 }).collect();
            for (h, name) in hostile_dirs.iter().enumerate() {
                files.insert(h * 333 + 5, ent(name, 40 + h as u8));
            }
            v.push(Case {
                base: Arc { version: 1 + i as u8, lf: Lf::Generate, files },
                patches: if chain { vec![Arc { version: 1, lf: Lf::Generate, files: vec![ent("p.txt", 2)] }] } else { vec![] },
                preserve: true,
                explicit: None,
                skip_errors: true,
                threads: [None, Some(3)][i],
                file_type: None,
                out_mode: OutMode::Rel,
                excl_rewrites: 0,
                label: format!("grid:shape:{n}-entries:{}", if chain { "chain" } else { "single" }),
            });
        }
    }
    let hostile = "Data\\..\\..\\..\\c11_sib_escaped.txt";
    for (si, sibling) in ["Data\\-notes.txt", "Data\\ (draft).txt", "Data\\!first.txt", "DATA\\(x).bin", "Data\\zlast.txt"].into_iter().enumerate() {
        for explicit in [false, true] {
            for chain in [true, false] {
                v.push(Case {
                    base: Arc { version: 1 + (si % 4) as u8, lf: Lf::Generate, files: vec![ent("readme.txt", 1), ent(sibling, 2), ent(hostile, 3), ent("Data\\sub\\deep.txt", 4)] },
                    patches: if chain { vec![Arc { version: 2, lf: Lf::Generate, files: vec![ent("Patch\\p.txt", 5)] }] } else { vec![] },
                    preserve: true,
                    explicit: explicit.then(|| vec![sibling.to_string(), hostile.to_string(), "readme.txt".into()]),
                    skip_errors: si % 2 == 0,
                    threads: None,
                    file_type: None,
                    out_mode: [OutMode::Rel, OutMode::Abs][si % 2],
                    excl_rewrites: 0,
                    label: format!("grid:shape:sibling-then-hostile:{}:{}", if chain { "chain" } else { "single" }, if explicit { "explicit" } else { "whole" }),
                });
            }
        }
    }
    v
}

fn main() {
    let (check, _args) = Check::new("C11", "exploration");
    let exclude_wanted = std::env::var("VERIF_C11_NO_EXCLUDE").is_err();
    check.set_rule(
        "each case = 1 base archive + 0–2 patch archives built with wow_mpq::ArchiveBuilder (1–5 entries each, \
         V1–V4, listfile generated / absent / external with re-spelled and non-matching lines) and one run of the \
         real binary `mpq extract archives/base.mpq -o OUT` × --preserve-paths × --patch × explicit names (re-spelled \
         entry names + names without entry) vs whole archive × --skip-errors × --threads × --file-type × 4 spellings \
         of the output directory. Entry names come from a grammar over {.., ., empty component, \\, /, leading \
         separator(s) followed by the sandbox path, C:/Z: drive prefixes, \\\\?\\ and UNC prefixes (never leading: \
         on unix they would be the real /?/…), 254–256-byte components, 16–40 levels, UTF-8, trailing dot/space, \
         '...' / '.. '}; at most 12 '..' per name; absolute names point into the sandbox. A deterministic grid \
         visits every token class × preserve on/off × (single|chain) × (whole|explicit); random cases add volume. \
         non-trivial = a file whose content belongs to an entry with a parent, absolute or prefix component in \
         its name was actually written; distinct = branch × preserve × selection × skip × threads × listfile kinds \
         × set of name features × files-written class.",
    );
    check.assume("no symlinks pre-exist inside OUT (a pre-planted symlink pointing out of OUT is outside the statement's quantifier)");
    check.assume("unix semantics only: drive / verbatim prefixes are plain components on this platform; the Windows behaviour of the same names is not observed");
    check.assume("creation of the output directory itself (and of its missing ancestors — none here) is allowed; directory mtimes are not compared, every file's type, size, MD5, mtime, mode and link target is");

    let cli = PathBuf::from(
        std::env::var("VERIF_CLI").unwrap_or_else(|_| "/verif/target/repo/debug/warcraft-rs".into()),
    );
    if !cli.is_file() {
        check.inconclusive(&format!("CLI binary {cli:?} missing (build it: see AGENT_BRIEF / `./check C11`)"));
        check.finish();
    }
    let scratch = engine::scratch("c11");
    let scratch_path = scratch.path().canonicalize().expect("scratch path");
    // the child must be confined by the kernel before anything hostile is run
    let landlock_abi = match confine::abi() {
        Ok(v) if v >= 1 => v,
        other => {
            check.inconclusive(&format!("Landlock is not available ({other:?}): the child cannot be confined to its sandbox, refusing to run hostile names"));
            let _ = scratch.close();
            check.finish();
        }
    };
    if let Err(e) = confine::self_test(&scratch_path, landlock_abi) {
        check.inconclusive(&format!("Landlock self-test failed ({e}): refusing to run hostile names"));
        let _ = scratch.close();
        check.finish();
    }
    check.assume("the child is confined with Landlock (write-type access only beneath its sandbox root); an EACCES reported by the child is therefore an attempted write outside the sandbox and judged a violation");
    let ctx = Ctx {
        landlock_abi,
        cli,
        scratch: scratch_path,
        counter: AtomicU64::new(0),
        ran: Default::default(),
    };

    if let Some(p) = check.replay.clone() {
        let v: serde_json::Value =
            serde_json::from_str(&std::fs::read_to_string(&p).expect("replay file")).expect("json");
        let c: Case = serde_json::from_value(v["case"].clone()).expect("case");
        if let Err(f) = case::eval(&check, &ctx, &c) {
            check.fail(&f, c.to_json());
        }
        let _ = scratch.close();
        check.finish();
    }

    // ---- 1. canaries: the region of the confirmed defect, fixed size, always run first.
    // The exclusion switch is only there to steer around an OPEN finding: when no canary
    // escapes (defect repaired) the switch turns itself off and the whole space is explored.
    let can = canaries();
    let escapes = AtomicU64::new(0);
    run_list(&check, &ctx, &can, |_c, ok| {
        if !ok {
            escapes.fetch_add(1, std::sync::atomic::Ordering::Relaxed);
        }
    });
    check.bump("canary_runs", can.len() as u64);
    check.bump("canary_escapes", escapes.load(std::sync::atomic::Ordering::Relaxed));

    let canary_escapes = check.counter("canary_escapes");
    let exclude = exclude_wanted && canary_escapes > 0;

    // ---- 2. deterministic grid (essential classes by construction)
    let mut g = grid();
    g.extend(shapes());
    let mut excluded_cases = 0u64;
    let mut excluded_names = 0u64;
    if exclude {
        for c in g.iter_mut() {
            let n = c.apply_exclusion();
            if n > 0 {
                excluded_cases += 1;
                excluded_names += n as u64;
            }
        }
    }
    let grid_labels: Vec<String> = g.iter().map(|c| c.label.clone()).collect();
    run_list(&check, &ctx, &g, |_c, _held| {});
    for l in grid_labels.iter().collect::<std::collections::BTreeSet<_>>() {
        if !ctx.ran.lock().unwrap().contains(l) {
            check.inconclusive(&format!("essential class {l} was not exercised (archive build failed?)"));
        }
    }

    // ---- 3. random volume
    check.set_extra(
        "grid",
        json!({"cases": g.len(), "classes_planned": grid_labels.iter().collect::<std::collections::BTreeSet<_>>().len(),
               "classes_ran": ctx.ran.lock().unwrap().len()}),
    );
    let n = check.tier.pick(2000u32, 40_000);
    pt::run(
        &check,
        "extract",
        n,
        pt::Opts {
            max_shrink_iters: 400,
            ..pt::Opts::default()
        },
        || strat::case(exclude),
        |c| c.to_json(),
        |c| {
            if c.excl_rewrites > 0 {
                check.bump("excluded_random_cases", 1);
                check.bump("excluded_random_names", c.excl_rewrites as u64);
            }
            case::eval(&check, &ctx, c)
        },
    );

    check.set_extra(
        "exclusion",
        json!({
            "switch": "preserve-paths ∧ (absolute name ∨ net-escaping '..') → name rewritten to its contained form (leading separators stripped / 'q\\' prefixes); disable with VERIF_C11_NO_EXCLUDE=1",
            "active": exclude,
            "why": if exclude { "canaries still escape: the finding is open" } else if exclude_wanted { "no canary escaped: switch turned itself off, full space explored" } else { "disabled by VERIF_C11_NO_EXCLUDE" },
            "grid_cases_rewritten": excluded_cases,
            "grid_names_rewritten": excluded_names,
            "random_cases_rewritten": check.counter("excluded_random_cases"),
            "random_names_rewritten": check.counter("excluded_random_names"),
            "canary_runs": check.counter("canary_runs"),
            "canary_escapes": check.counter("canary_escapes"),
        }),
    );
    if check.counter("runs_that_wrote") == 0 {
        check.inconclusive("no run of the CLI wrote any file: nothing was observed");
    }
    let _ = scratch.close();
    check.finish();
}

/// run a fixed list of cases on the engine's worker count; `after(case, held)` is called per case
fn run_list(check: &Check, ctx: &Ctx, cases: &[Case], after: impl Fn(&Case, bool) + Sync) {
    let next = AtomicU64::new(0);
    std::thread::scope(|s| {
        for _ in 0..engine::WORKERS {
            s.spawn(|| {
                loop {
                    let i = next.fetch_add(1, std::sync::atomic::Ordering::Relaxed) as usize;
                    let Some(c) = cases.get(i) else { break };
                    let r = engine::guard("extract", || case::eval(check, ctx, c)).and_then(|x| x);
                    match r {
                        Ok(()) => after(c, true),
                        Err(f) => {
                            after(c, false);
                            check.fail(&f, c.to_json());
                        }
                    }
                }
            });
        }
    });
}

