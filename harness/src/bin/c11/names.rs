//! Archive-name templates: lexical analysis, the safety guard, spelling variants and the
//! exclusion rewrite.  Nothing here calls into the code under test.
//!
//! A *template* is an archive name in which the literal `{SBX}` stands for the absolute path of
//! the per-case sandbox root without its leading `/` (it is only known at run time).  The only
//! absolute names ever produced are `<separators>{SBX}<separator>...`, i.e. absolute paths INTO
//! the sandbox.

use std::path::{Path, PathBuf};

pub const SBX: &str = "{SBX}";
/// nested directories between the sandbox root and `work/`; also the bound on `..` components
pub const NEST: usize = 12;

/// what the code under test does on unix before joining: `\` → `/`
pub fn conv(s: &str) -> String {
    s.replace('\\', "/")
}

/// a component that is `..` or could become `..` after the listfile parser trimmed the line or
/// cut it at ';' (conservative: used by the safety guard only)
fn parentlike(c: &str) -> bool {
    c.split(';').next().unwrap_or("").trim() == ".."
}

#[derive(Default, Clone, Copy, Debug, PartialEq, Eq)]
pub struct Feat {
    pub parent: bool,
    /// relative name whose lexical depth goes below the directory it is joined to
    pub net_escape: bool,
    pub absolute: bool,
    pub drive: bool,
    pub verbatim: bool,
    pub curdir: bool,
    pub empty: bool,
    pub long: bool,
    pub deep: bool,
    pub utf8: bool,
    pub trailing: bool,
    pub backslash: bool,
    pub slash: bool,
}

impl Feat {
    pub fn of(template: &str) -> Feat {
        let c = conv(template);
        let parts: Vec<&str> = c.split('/').collect();
        let mut f = Feat {
            absolute: c.starts_with('/'),
            backslash: template.contains('\\'),
            slash: template.contains('/'),
            utf8: !template.is_ascii(),
            verbatim: c.contains("//?/") || c.contains("//./"),
            ..Feat::default()
        };
        let body = c.trim_start_matches('/');
        f.empty = body.contains("//") || body.ends_with('/');
        f.deep = parts.iter().filter(|p| !p.is_empty()).count() >= 16;
        let mut depth: i64 = 0;
        for p in &parts {
            match *p {
                "" => {}
                "." => f.curdir = true,
                ".." => {
                    f.parent = true;
                    depth -= 1;
                    if depth < 0 && !f.absolute {
                        f.net_escape = true;
                    }
                }
                n => {
                    depth += 1;
                    if n.len() >= 200 {
                        f.long = true;
                    }
                    if n.ends_with('.') || n.ends_with(' ') {
                        f.trailing = true;
                    }
                    let b = n.as_bytes();
                    if b.len() >= 2 && b[0].is_ascii_alphabetic() && b[1] == b':' {
                        f.drive = true;
                    }
                }
            }
        }
        f
    }
    /// the property's non-trivial rule: a parent, absolute or prefix component
    pub fn hostile(&self) -> bool {
        self.parent || self.absolute || self.drive || self.verbatim
    }
    /// region of the confirmed `--preserve-paths` defect
    pub fn escape_capable(&self) -> bool {
        self.absolute || self.net_escape
    }
    pub fn union(self, o: Feat) -> Feat {
        Feat {
            parent: self.parent | o.parent,
            net_escape: self.net_escape | o.net_escape,
            absolute: self.absolute | o.absolute,
            drive: self.drive | o.drive,
            verbatim: self.verbatim | o.verbatim,
            curdir: self.curdir | o.curdir,
            empty: self.empty | o.empty,
            long: self.long | o.long,
            deep: self.deep | o.deep,
            utf8: self.utf8 | o.utf8,
            trailing: self.trailing | o.trailing,
            backslash: self.backslash | o.backslash,
            slash: self.slash | o.slash,
        }
    }
    pub fn letters(&self) -> String {
        let mut s = String::new();
        for (on, ch) in [
            (self.parent, 'P'),
            (self.net_escape, 'X'),
            (self.absolute, 'A'),
            (self.drive, 'D'),
            (self.verbatim, 'V'),
            (self.curdir, 'c'),
            (self.empty, 'e'),
            (self.long, 'L'),
            (self.deep, 'N'),
            (self.utf8, 'u'),
            (self.trailing, 't'),
            (self.backslash, 'b'),
            (self.slash, 's'),
        ] {
            if on {
                s.push(ch);
            }
        }
        if s.is_empty() {
            s.push('-');
        }
        s
    }
}

/// Template-level safety guard.  A name passes only if, whatever directory at depth >= NEST+1
/// below the sandbox root it is joined to (OUT is at NEST+2, the cwd at NEST+1), its lexical
/// resolution stays inside the sandbox root:
/// * relative names: at most NEST parent(-like) components;
/// * absolute names (after `\`→`/`): leading separators, then exactly `{SBX}`, then a tail whose
///   lexical depth never drops below the sandbox root.
pub fn check_safe_template(t: &str) -> Result<(), String> {
    if t.is_empty() {
        return Err("empty name".into());
    }
    if t.contains(['\0', '\n', '\r']) {
        return Err("NUL/CR/LF in name".into());
    }
    if t.matches(SBX).count() > 1 {
        return Err("more than one {SBX}".into());
    }
    // after the listfile parser's trim() a name could start with a separator it did not start
    // with before: judge the trimmed form too
    for form in [t, t.trim()] {
        let c = conv(form);
        let parents = c.split('/').filter(|p| parentlike(p)).count();
        if parents > NEST {
            return Err(format!("{parents} parent components > {NEST}"));
        }
        if c.starts_with('/') {
            let rest = c.trim_start_matches('/');
            let Some(tail) = rest.strip_prefix(SBX) else {
                return Err("absolute name that does not start with {SBX}".into());
            };
            if !(tail.is_empty() || tail.starts_with('/')) {
                return Err("{SBX} not followed by a separator".into());
            }
            let mut depth: i64 = 0;
            for p in tail.split('/') {
                if p.is_empty() || p == "." {
                    continue;
                }
                if parentlike(p) {
                    depth -= 1;
                    if depth < 0 {
                        return Err("absolute name climbs above the sandbox root".into());
                    }
                } else {
                    depth += 1;
                }
            }
        }
    }
    Ok(())
}

pub fn substitute(t: &str, sbx_rel: &str) -> String {
    t.replace(SBX, sbx_rel)
}

/// lexical normalisation of `base` joined with an (already `\`→`/` converted) name
pub fn lexical_join(base: &Path, name_conv: &str) -> PathBuf {
    let mut stack: Vec<String> = Vec::new();
    let start: String = if name_conv.starts_with('/') {
        name_conv.to_string()
    } else {
        format!("{}/{}", base.display(), name_conv)
    };
    for p in start.split('/') {
        match p {
            "" | "." => {}
            ".." => {
                stack.pop();
            }
            n => stack.push(n.to_string()),
        }
    }
    PathBuf::from(format!("/{}", stack.join("/")))
}

/// every location a component-by-component walk of `base` joined with the name passes through
/// (what `create_dir_all` + `write` touch), lexically normalised
pub fn visited(base: &Path, name_conv: &str) -> Vec<PathBuf> {
    let mut v = vec![];
    let mut prefix = String::new();
    let lead = name_conv.len() - name_conv.trim_start_matches('/').len();
    prefix.push_str(&name_conv[..lead]);
    for p in name_conv[lead..].split('/') {
        if !prefix.is_empty() && !prefix.ends_with('/') {
            prefix.push('/');
        }
        prefix.push_str(p);
        v.push(lexical_join(base, &prefix));
    }
    v
}

/// Concrete guard on the substituted name: worst-case landing (joined to OUT or to the cwd,
/// as given or trimmed / cut at ';') must be inside the sandbox root.
pub fn check_safe_concrete(name: &str, root: &Path, bases: &[&Path]) -> Result<(), String> {
    let cut = name.split(';').next().unwrap_or("");
    for form in [name, name.trim(), cut, cut.trim()] {
        let c = conv(form);
        // treat parent-like components as parents (conservative)
        let c: String = c
            .split('/')
            .map(|p| if parentlike(p) { ".." } else { p })
            .collect::<Vec<_>>()
            .join("/");
        for b in bases {
            let l = lexical_join(b, &c);
            if !(l == root || l.starts_with(root)) {
                return Err(format!("{form:?} joined to {} resolves to {}", b.display(), l.display()));
            }
        }
    }
    Ok(())
}

/// spelling variants that hash to the same MPQ entry: 0 as is, 1 slashes flipped, 2 ASCII upper,
/// 3 ASCII lower, 4 all `/`, 5 all `\`.  The `{SBX}` placeholder is never touched (the sandbox
/// path is case-sensitive on disk: changing its case would make an absolute name point elsewhere).
pub fn spell(t: &str, mode: u8) -> String {
    let f = |piece: &str| -> String {
        match mode % 6 {
            0 => piece.to_string(),
            1 => piece
                .chars()
                .map(|c| match c {
                    '/' => '\\',
                    '\\' => '/',
                    c => c,
                })
                .collect(),
            2 => piece.to_ascii_uppercase(),
            3 => piece.to_ascii_lowercase(),
            4 => piece.replace('\\', "/"),
            _ => piece.replace('/', "\\"),
        }
    };
    t.split(SBX).map(f).collect::<Vec<_>>().join(SBX)
}

/// Exclusion rewrite: make a name that lies in the region of the confirmed `--preserve-paths`
/// defect (absolute, or net-escaping `..`) contained while keeping its hostile look
/// (the `..` components stay; an absolute name keeps all its components but loses the root).
pub fn contain(t: &str) -> String {
    let mut s = t.to_string();
    if Feat::of(&s).absolute {
        s = s.trim_start_matches(['/', '\\']).to_string();
        if s.is_empty() {
            s.push_str("q.txt");
        }
    }
    // deficit = how far below the join directory the name goes
    let mut depth: i64 = 0;
    let mut min: i64 = 0;
    for p in conv(&s).split('/') {
        match p {
            "" | "." => {}
            ".." => {
                depth -= 1;
                min = min.min(depth);
            }
            _ => depth += 1,
        }
    }
    if min < 0 {
        let pre = "q\\".repeat((-min) as usize);
        s = format!("{pre}{s}");
    }
    s
}

/// MPQ name folding (ASCII upper, `/`→`\`) for duplicate detection
pub fn fold(t: &str) -> String {
    t.replace('/', "\\").to_ascii_uppercase()
}

#[cfg(test)]
mod tests {
    use super::*;
    #[test]
    fn guard() {
        assert!(check_safe_template("..\\..\\x").is_ok());
        assert!(check_safe_template(&"..\\".repeat(13)).is_err());
        assert!(check_safe_template("\\x").is_err());
        assert!(check_safe_template("\\\\?\\C:\\x").is_err());
        assert!(check_safe_template("\\{SBX}\\abs_target\\x").is_ok());
        assert!(check_safe_template("\\{SBX}\\..\\x").is_err());
        assert!(check_safe_template(" /x").is_err());
    }
}
