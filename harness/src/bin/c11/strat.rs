//! proptest strategies: the name grammar and the case space.
//!
//! Safety by construction (the guard in `names` re-checks every name before anything runs):
//! * a leading separator is only ever rendered in front of `{SBX}` (absolute INTO the sandbox);
//!   the Windows verbatim prefix `\\?\` would be the real `/?/...` on unix, so it is only
//!   rendered after a `.` / normal component or after the `{SBX}` prefix;
//! * the number of `..` components of a name is capped at NEST (12);
//! * the tail of an absolute name never climbs above `{SBX}`.
//!
//! These rules cover a name that is used whole.  Code that uses only a part of a name (a suffix
//! after some separator can be absolute) is contained by the Landlock confinement in `confine.rs`.

use crate::case::{Arc, Case, Ent, Lf, OutMode};
use crate::names::{self, NEST, SBX};
use proptest::prelude::*;

#[derive(Clone, Debug)]
enum Comp {
    Normal(String),
    Parent,
    Cur,
    Empty,
    Long(u16),
    Utf8(String),
    TrailDot(String),
    TrailSpace(String),
    Drive(char),
    Question,
    /// `...` / `.. ` look-alikes of the parent component (plain names on unix)
    NearParent(bool),
}

impl Comp {
    fn render(&self) -> String {
        match self {
            Comp::Normal(s) | Comp::Utf8(s) => s.clone(),
            Comp::Parent => "..".into(),
            Comp::Cur => ".".into(),
            Comp::Empty => String::new(),
            Comp::Long(n) => "L".repeat(*n as usize),
            Comp::TrailDot(s) => format!("{s}."),
            Comp::TrailSpace(s) => format!("{s} "),
            Comp::Drive(c) => format!("{c}:"),
            Comp::Question => "?".into(),
            Comp::NearParent(dots) => if *dots { "..." } else { ".. " }.into(),
        }
    }
}

fn comp() -> impl Strategy<Value = Comp> {
    prop_oneof![
        6 => "[A-Za-z0-9_]{1,8}".prop_map(Comp::Normal),
        4 => Just(Comp::Parent),
        1 => Just(Comp::Cur),
        1 => Just(Comp::Empty),
        1 => prop_oneof![Just(255u16), Just(254), Just(256), Just(200)].prop_map(Comp::Long),
        1 => "[äöüéßñЖд日本語한]{1,5}".prop_map(Comp::Utf8),
        1 => "[a-z]{1,5}".prop_map(Comp::TrailDot),
        1 => "[a-z]{1,5}".prop_map(Comp::TrailSpace),
        1 => prop_oneof![Just('C'), Just('c'), Just('Z')].prop_map(Comp::Drive),
        1 => Just(Comp::Question),
        1 => any::<bool>().prop_map(Comp::NearParent),
    ]
}

fn leaf() -> impl Strategy<Value = String> {
    prop_oneof![
        4 => Just("x.txt".to_string()),
        3 => Just("victim.txt".to_string()),
        3 => "[a-z]{1,6}\\.(txt|dat|blp)",
        1 => Just("VICTIM.TXT".to_string()),
        1 => "[äöü日本]{1,4}\\.txt",
        1 => "[a-z]{1,4}\\.".prop_map(|s| s),
        1 => "[a-z]{1,4} ".prop_map(|s| s),
        1 => Just(format!("{}.txt", "L".repeat(251))),
    ]
}

/// separator plan: 0 all `\`, 1 all `/`, 2 mixed (per-join bits)
fn render(parts: &[String], sep_mode: u8, bits: u64) -> String {
    let mut s = String::new();
    for (i, p) in parts.iter().enumerate() {
        if i > 0 {
            let back = match sep_mode % 3 {
                0 => true,
                1 => false,
                _ => (bits >> (i % 64)) & 1 == 0,
            };
            s.push(if back { '\\' } else { '/' });
        }
        s.push_str(p);
    }
    s
}

/// make a rendered relative name safe: no accidental leading separator, at most NEST `..`
fn sanitize_relative(parts: &mut Vec<String>) {
    let mut parents = 0;
    for p in parts.iter_mut() {
        if p.trim() == ".." {
            parents += 1;
            if parents > NEST {
                *p = ".".into();
            }
        }
    }
    // an empty first component would render a leading separator = a real absolute path
    if parts.first().map(|p| p.trim().is_empty()).unwrap_or(true) {
        parts.insert(0, ".".into());
    }
    // leading blanks would be trimmed by the listfile parser; keep the first component solid
    if parts[0].starts_with(' ') {
        parts[0] = format!("_{}", parts[0].trim_start());
    }
}

/// tail of an absolute name: never climbs above `{SBX}`
fn sanitize_abs_tail(parts: &mut [String]) {
    let mut depth = 0i64;
    for p in parts.iter_mut() {
        let t = p.trim();
        if t.is_empty() || t == "." {
            continue;
        }
        if t == ".." {
            if depth == 0 {
                *p = ".".into();
            } else {
                depth -= 1;
            }
        } else {
            depth += 1;
        }
    }
}

fn finish(name: String) -> String {
    // ';' would cut the listfile line, a leading '#'/';' makes it a comment: keep names plain
    name.replace([';', '\n', '\r', '\0'], "_")
}

pub fn name() -> impl Strategy<Value = String> {
    let seps = (0u8..3, any::<u64>());
    prop_oneof![
        // benign
        2 => (prop::collection::vec("[A-Za-z0-9_]{1,8}", 0..3), leaf(), seps.clone()).prop_map(|(mut p, l, (m, b))| {
            p.push(l);
            finish(render(&p, m, b))
        }),
        // leading parents (net escape), optionally interleaved
        5 => (1usize..=NEST, prop::collection::vec(comp(), 0..4), leaf(), seps.clone(), any::<bool>()).prop_map(
            |(k, mid, l, (m, b), interleave)| {
                let mut p: Vec<String> = vec![];
                if interleave {
                    p.push("a".into());
                    p.push("..".into());
                }
                for _ in 0..k {
                    p.push("..".into());
                }
                p.extend(mid.iter().map(|c| c.render()));
                p.push(l);
                sanitize_relative(&mut p);
                finish(render(&p, m, b))
            }
        ),
        // absolute into the sandbox
        4 => (
            1usize..=3,
            prop_oneof![
                3 => Just(vec!["abs_target".to_string()]),
                1 => Just(vec![]),
                1 => Just(vec!["n01".to_string()]),
                1 => Just(vec!["n01".to_string(), "n02".to_string(), "n03".to_string()]),
                1 => Just(vec!["home".to_string(), ".config".to_string()]),
                1 => Just(vec!["ABS_TARGET".to_string()]),
                1 => Just(vec!["\\?".to_string(), "C:".to_string()]), // {SBX}\\?\C:\..
            ],
            prop::collection::vec(comp(), 0..3),
            leaf(),
            seps.clone(),
        )
            .prop_map(|(nlead, dir, mid, l, (m, b))| {
                let mut tail: Vec<String> = dir;
                tail.extend(mid.iter().map(|c| c.render()));
                tail.push(l);
                // the "\?" pseudo component carries its own separator: split it for the depth rule
                sanitize_abs_tail(&mut tail);
                let mut parts = vec![SBX.to_string()];
                parts.extend(tail);
                let body = render(&parts, m, b);
                let lead: String = (0..nlead)
                    .map(|i| if (b >> (60 - i)) & 1 == 0 && m % 3 != 1 { '\\' } else { '/' })
                    .collect();
                finish(format!("{lead}{body}"))
            }),
        // drive prefixes (relative on unix)
        2 => (
            prop_oneof![Just("C:"), Just("c:"), Just("Z:"), Just("C:."), Just("C:..")],
            any::<bool>(),
            prop::collection::vec(comp(), 0..4),
            leaf(),
            seps.clone(),
        )
            .prop_map(|(d, glued, mid, l, (m, b))| {
                let mut p: Vec<String> = vec![];
                let mut rest: Vec<String> = mid.iter().map(|c| c.render()).collect();
                rest.push(l);
                if glued {
                    // C:x.txt / C:..\x
                    let first = rest.remove(0);
                    p.push(format!("{d}{first}"));
                } else {
                    p.push(d.to_string());
                }
                p.extend(rest);
                sanitize_relative(&mut p);
                finish(render(&p, m, b))
            }),
        // verbatim / UNC prefixes, never leading
        2 => (
            prop_oneof![Just("."), Just("a"), Just("..")],
            prop_oneof![
                Just(vec!["", "?", "C:"]),      // .\\?\C:\
                Just(vec!["", ".", "C:"]),      // .\\.\C:\
                Just(vec!["", "server", "share"]),
                Just(vec!["", "?", "UNC", "server", "share"]),
            ],
            prop::collection::vec(comp(), 0..3),
            leaf(),
            seps.clone(),
        )
            .prop_map(|(first, pre, mid, l, (m, b))| {
                let mut p: Vec<String> = vec![first.to_string()];
                p.extend(pre.iter().map(|s| s.to_string()));
                p.extend(mid.iter().map(|c| c.render()));
                p.push(l);
                sanitize_relative(&mut p);
                finish(render(&p, m, b))
            }),
        // one level up and into a sibling whose name *begins with* the output directory's name
        // ("OUT-cache", "OUT.bak", "OUTx"): outside OUT although a textual prefix test says otherwise.
        // Optionally reached through harmless components that cancel out first (a\..\..\OUT-cache).
        2 => (
            prop::collection::vec("[A-Za-z0-9_]{1,6}", 0..3),
            prop_oneof![Just("OUT-cache"), Just("OUT.bak"), Just("OUTx"), Just("OUT "), Just("OUT2"), Just("OUT_old")],
            prop::collection::vec("[A-Za-z0-9_]{1,6}", 0..2),
            leaf(),
            seps.clone(),
        )
            .prop_map(|(down, sibling, sub, l, (m, b))| {
                let mut p: Vec<String> = down.clone();
                for _ in 0..down.len() + 1 {
                    p.push("..".into());
                }
                p.push(sibling.to_string());
                p.extend(sub);
                p.push(l);
                sanitize_relative(&mut p);
                finish(render(&p, m, b))
            }),
        // deep nesting
        1 => (16usize..40, 0usize..=NEST, leaf(), seps.clone()).prop_map(|(n, k, l, (m, b))| {
            let mut p: Vec<String> = (0..n).map(|i| format!("d{}", i % 7)).collect();
            for _ in 0..k {
                p.push("..".into());
            }
            p.push(l);
            sanitize_relative(&mut p);
            finish(render(&p, m, b))
        }),
        // anything goes
        4 => (prop::collection::vec(comp(), 0..7), prop_oneof![8 => leaf(), 1 => Just("..".to_string()), 1 => Just(".".to_string()), 1 => Just(String::new())], seps)
            .prop_map(|(mid, l, (m, b))| {
                let mut p: Vec<String> = mid.iter().map(|c| c.render()).collect();
                p.push(l);
                sanitize_relative(&mut p);
                let s = finish(render(&p, m, b));
                if s.trim().is_empty() { "x.txt".to_string() } else { s }
            }),
    ]
}

fn ent() -> impl Strategy<Value = Ent> {
    (name(), prop_oneof![3 => 0u16..64, 1 => 64u16..3000], any::<u8>())
        .prop_map(|(name, len, seed)| Ent { name, len, seed })
}

#[derive(Clone, Debug)]
struct ExtRecipe {
    spell: Vec<u8>,
    drop: u8,
    extras: Vec<String>,
    meta: bool,
}

fn arc() -> impl Strategy<Value = Arc> {
    let lf = prop_oneof![
        6 => Just(None),
        1 => Just(Some(None)),
        4 => (
            prop::collection::vec(0u8..6, 1..4),
            any::<u8>(),
            prop::collection::vec(name(), 0..3),
            any::<bool>()
        )
            .prop_map(|(spell, drop, extras, meta)| Some(Some(ExtRecipe { spell, drop, extras, meta }))),
    ];
    (
        prop_oneof![4 => Just(1u8), 3 => Just(2u8), 1 => Just(3u8), 1 => Just(4u8)],
        prop::collection::vec(ent(), 1..=5),
        lf,
    )
        .prop_map(|(version, files, lf)| {
            let lf = match lf {
                None => Lf::Generate,
                Some(None) => Lf::None,
                Some(Some(r)) => {
                    let mut lines = vec![];
                    for (i, f) in files.iter().enumerate() {
                        if (r.drop >> (i % 8)) & 1 == 1 && i % 3 == 2 {
                            continue; // an entry the listfile does not mention
                        }
                        let mut l = names::spell(&f.name, r.spell[i % r.spell.len()]);
                        if r.meta && i == 0 {
                            l.push_str(";12345");
                        }
                        lines.push(l);
                    }
                    // lines that do not match any entry
                    lines.extend(r.extras.iter().cloned());
                    lines.push("(listfile)".into());
                    Lf::External(lines)
                }
            };
            Arc { version, lf, files }
        })
}

/// The whole case space.  `exclude` = exclusion switch for the confirmed --preserve-paths defect.
pub fn case(exclude: bool) -> impl Strategy<Value = Case> {
    let explicit = prop_oneof![
        5 => Just(None),
        5 => (
            prop::collection::vec((any::<u16>(), 0u8..6), 1..5),
            prop::collection::vec(name(), 0..2)
        )
            .prop_map(Some),
    ];
    (
        arc(),
        prop_oneof![4 => Just(0usize), 3 => Just(1usize), 2 => Just(2usize)]
            .prop_flat_map(|n| prop::collection::vec(arc(), n..=n)),
        any::<bool>(),
        explicit,
        any::<bool>(),
        prop_oneof![3 => Just(None), 2 => Just(Some(1u8)), 1 => Just(Some(2u8)), 1 => Just(Some(4u8))],
        prop_oneof![12 => Just(None), 1 => Just(Some(".txt".to_string())), 1 => Just(Some("T".to_string()))],
        prop_oneof![
            4 => Just(OutMode::Rel),
            2 => Just(OutMode::RelMissing),
            2 => Just(OutMode::Abs),
            1 => Just(OutMode::DotSlash)
        ],
        any::<u8>(),
    )
        .prop_map(
            move |(base, mut patches, preserve, explicit, skip_errors, threads, file_type, out_mode, ovl)| {
                // patches override some base names (same logical name, maybe another spelling)
                for (pi, p) in patches.iter_mut().enumerate() {
                    if (ovl >> pi) & 1 == 1
                        && let Some(b0) = base.files.get(pi % base.files.len().max(1))
                    {
                        p.files.push(Ent {
                            name: names::spell(&b0.name, ovl >> 2),
                            len: 20,
                            seed: ovl,
                        });
                    }
                }
                let mut c = Case {
                    base,
                    patches,
                    preserve,
                    explicit: None,
                    skip_errors,
                    threads,
                    file_type,
                    out_mode,
                    excl_rewrites: 0,
                    label: String::new(),
                };
                c.dedup();
                if let Some((picks, extras)) = explicit {
                    let all: Vec<String> = c
                        .archives()
                        .flat_map(|a| a.files.iter().map(|f| f.name.clone()))
                        .collect();
                    let mut v = vec![];
                    for (sel, sp) in picks {
                        if !all.is_empty() {
                            let n = &all[vcheck::engine::pt::pick_idx(sel, all.len())];
                            v.push(names::spell(n, sp));
                        }
                    }
                    v.extend(extras);
                    v.dedup();
                    c.explicit = Some(v);
                    c.dedup();
                }
                if exclude {
                    c.apply_exclusion();
                }
                c
            },
        )
}
