//! Kernel-level confinement of the child process (Landlock LSM, Linux >= 5.13).
//!
//! The name grammar keeps every name inside the sandbox *when the name is used whole* (joined to
//! OUT or to the cwd).  Code under test — or a mutant of it — may however use a *part* of a name
//! (e.g. "everything after the last backslash" of `.\/?/x` is the absolute `/?/x`).  No lexical
//! guard can anticipate every such transformation, so the child is additionally denied, by the
//! kernel, every write-type file-system access outside its own sandbox root.  Reads and execs stay
//! unrestricted.  A denied attempt surfaces as EACCES in the child and is itself judged a
//! violation by the oracle (an attempt to create something outside the sandbox is a fortiori
//! outside OUT).

use std::ffi::CString;
use std::io;
use std::os::fd::{AsRawFd, FromRawFd, OwnedFd, RawFd};
use std::os::unix::ffi::OsStrExt;
use std::path::Path;

const ACCESS_FS_WRITE_FILE: u64 = 1 << 1;
const ACCESS_FS_REMOVE_DIR: u64 = 1 << 4;
const ACCESS_FS_REMOVE_FILE: u64 = 1 << 5;
const ACCESS_FS_MAKE_CHAR: u64 = 1 << 6;
const ACCESS_FS_MAKE_DIR: u64 = 1 << 7;
const ACCESS_FS_MAKE_REG: u64 = 1 << 8;
const ACCESS_FS_MAKE_SOCK: u64 = 1 << 9;
const ACCESS_FS_MAKE_FIFO: u64 = 1 << 10;
const ACCESS_FS_MAKE_BLOCK: u64 = 1 << 11;
const ACCESS_FS_MAKE_SYM: u64 = 1 << 12;
const ACCESS_FS_REFER: u64 = 1 << 13; // ABI 2
const ACCESS_FS_TRUNCATE: u64 = 1 << 14; // ABI 3

const CREATE_RULESET_VERSION: u32 = 1;
const RULE_PATH_BENEATH: libc::c_int = 1;

#[repr(C)]
struct RulesetAttr {
    handled_access_fs: u64,
}

#[repr(C, packed)]
struct PathBeneathAttr {
    allowed_access: u64,
    parent_fd: i32,
}

/// Landlock ABI version, or an error when the LSM is not available
pub fn abi() -> io::Result<i32> {
    let r = unsafe {
        libc::syscall(
            libc::SYS_landlock_create_ruleset,
            std::ptr::null::<RulesetAttr>(),
            0usize,
            CREATE_RULESET_VERSION,
        )
    };
    if r < 0 {
        Err(io::Error::last_os_error())
    } else {
        Ok(r as i32)
    }
}

fn write_mask(abi: i32) -> u64 {
    let mut m = ACCESS_FS_WRITE_FILE
        | ACCESS_FS_REMOVE_DIR
        | ACCESS_FS_REMOVE_FILE
        | ACCESS_FS_MAKE_CHAR
        | ACCESS_FS_MAKE_DIR
        | ACCESS_FS_MAKE_REG
        | ACCESS_FS_MAKE_SOCK
        | ACCESS_FS_MAKE_FIFO
        | ACCESS_FS_MAKE_BLOCK
        | ACCESS_FS_MAKE_SYM;
    if abi >= 2 {
        m |= ACCESS_FS_REFER;
    }
    if abi >= 3 {
        m |= ACCESS_FS_TRUNCATE;
    }
    m
}

/// A ruleset that handles every write-type access and allows them only beneath `root`
/// (plus plain writes to /dev/null).  Built in the parent; the child only calls `restrict_self`.
pub fn ruleset_for(root: &Path, abi: i32) -> io::Result<OwnedFd> {
    let mask = write_mask(abi);
    let attr = RulesetAttr {
        handled_access_fs: mask,
    };
    let fd = unsafe {
        libc::syscall(
            libc::SYS_landlock_create_ruleset,
            &attr as *const RulesetAttr,
            std::mem::size_of::<RulesetAttr>(),
            0u32,
        )
    };
    if fd < 0 {
        return Err(io::Error::last_os_error());
    }
    let ruleset = unsafe { OwnedFd::from_raw_fd(fd as RawFd) };
    let add = |path: &Path, access: u64| -> io::Result<()> {
        let c = CString::new(path.as_os_str().as_bytes()).map_err(io::Error::other)?;
        let pfd = unsafe { libc::open(c.as_ptr(), libc::O_PATH | libc::O_CLOEXEC) };
        if pfd < 0 {
            return Err(io::Error::last_os_error());
        }
        let pfd = unsafe { OwnedFd::from_raw_fd(pfd) };
        let pb = PathBeneathAttr {
            allowed_access: access,
            parent_fd: pfd.as_raw_fd(),
        };
        let r = unsafe {
            libc::syscall(
                libc::SYS_landlock_add_rule,
                ruleset.as_raw_fd(),
                RULE_PATH_BENEATH,
                &pb as *const PathBeneathAttr,
                0u32,
            )
        };
        if r < 0 {
            return Err(io::Error::last_os_error());
        }
        Ok(())
    };
    add(root, mask)?;
    let mut file_only = ACCESS_FS_WRITE_FILE;
    if abi >= 3 {
        file_only |= ACCESS_FS_TRUNCATE;
    }
    add(Path::new("/dev/null"), file_only)?;
    Ok(ruleset)
}

/// To be called in the child between fork and exec (async-signal-safe: two syscalls)
pub fn restrict_self(ruleset_fd: RawFd) -> io::Result<()> {
    unsafe {
        if libc::prctl(libc::PR_SET_NO_NEW_PRIVS, 1, 0, 0, 0) != 0 {
            return Err(io::Error::last_os_error());
        }
        if libc::syscall(libc::SYS_landlock_restrict_self, ruleset_fd, 0u32) != 0 {
            return Err(io::Error::last_os_error());
        }
    }
    Ok(())
}

/// Prove that the confinement works here: a confined `sh` can create a file inside its root and
/// cannot create one next to it.
pub fn self_test(scratch: &Path, abi: i32) -> Result<(), String> {
    use std::os::unix::process::CommandExt;
    let root = scratch.join("confine-selftest");
    std::fs::create_dir_all(&root).map_err(|e| e.to_string())?;
    let inside = root.join("inside");
    let outside = scratch.join("confine-selftest-outside");
    let rs = ruleset_for(&root, abi).map_err(|e| format!("ruleset: {e}"))?;
    let fd = rs.as_raw_fd();
    let mut cmd = std::process::Command::new("/bin/sh");
    cmd.arg("-c")
        .arg(format!(
            "echo a > '{}'; echo b > '{}'; mkdir '{}.d'; exit 0",
            inside.display(),
            outside.display(),
            outside.display()
        ))
        .stdin(std::process::Stdio::null())
        .stdout(std::process::Stdio::null())
        .stderr(std::process::Stdio::null());
    unsafe {
        cmd.pre_exec(move || restrict_self(fd));
    }
    let st = cmd.status().map_err(|e| format!("spawn sh: {e}"))?;
    drop(rs);
    let ok_inside = inside.is_file();
    let leaked = outside.exists() || scratch.join("confine-selftest-outside.d").exists();
    let _ = std::fs::remove_file(&outside);
    let _ = std::fs::remove_dir(scratch.join("confine-selftest-outside.d"));
    let _ = std::fs::remove_dir_all(&root);
    if !st.success() {
        return Err(format!("confined sh exited with {st}"));
    }
    if !ok_inside {
        return Err("confined child could not write inside its root".into());
    }
    if leaked {
        return Err("confined child could write outside its root".into());
    }
    Ok(())
}

#[cfg(test)]
mod tests {
    use super::*;
    use std::os::unix::process::CommandExt;

    /// End-to-end: the real CLI, confined to a temp root, is asked (through the confirmed
    /// --preserve-paths defect) to write to an absolute path under /tmp outside that root.
    /// The kernel must deny it.  Worst case without confinement: one file under /tmp, removed here.
    #[test]
    fn cli_cannot_write_outside_its_root() {
        let cli = std::env::var("VERIF_CLI")
            .unwrap_or_else(|_| "/verif/target/repo/debug/warcraft-rs".into());
        let abi = abi().expect("landlock");
        let td = tempfile::Builder::new().prefix("c11-ll-").tempdir_in("/dev/shm").unwrap();
        let root = td.path().join("root");
        std::fs::create_dir_all(root.join("OUT")).unwrap();
        let probe = format!("/tmp/c11-landlock-probe-{}", std::process::id());
        let name = format!("{}\\x.txt", probe.replace('/', "\\"));
        wow_mpq::ArchiveBuilder::new()
            .add_file_data(b"probe".to_vec(), &name)
            .add_file_data(b"ok".to_vec(), "inside.txt")
            .build(root.join("a.mpq"))
            .unwrap();
        let rs = ruleset_for(&root, abi).unwrap();
        let fd = rs.as_raw_fd();
        let mut cmd = std::process::Command::new(cli);
        cmd.args(["mpq", "extract", "a.mpq", "-o", "OUT", "--preserve-paths", "--", "inside.txt", &name])
            .current_dir(&root);
        unsafe {
            cmd.pre_exec(move || restrict_self(fd));
        }
        let out = cmd.output().unwrap();
        let leaked = std::path::Path::new(&probe).exists();
        let _ = std::fs::remove_dir_all(&probe);
        let err = String::from_utf8_lossy(&out.stderr);
        assert!(!leaked, "confined CLI created {probe}");
        assert!(root.join("OUT/inside.txt").is_file(), "confined CLI could not write inside: {err}");
        assert!(err.contains("Permission denied"), "expected EACCES, got: {err}");
    }
}
