//! Per-case sandbox directory, recursive snapshot and diff (the oracle's observer).

use crate::names::NEST;
use md5::{Digest, Md5};
use std::collections::BTreeMap;
use std::fs;
use std::io;
use std::os::unix::fs::MetadataExt;
use std::path::{Path, PathBuf};

pub struct Sandbox {
    /// sandbox root: <scratch>/c<id>
    pub root: PathBuf,
    /// root/n01/../n12/work — cwd of the child
    pub work: PathBuf,
    /// work/OUT — the requested output directory
    pub out: PathBuf,
    /// work/archives
    pub arch: PathBuf,
    pub home: PathBuf,
    /// root without the leading '/', the value of `{SBX}`
    pub sbx_rel: String,
    /// OUT relative to root (snapshot key prefix)
    pub out_rel: String,
}

pub const VICTIM: &[u8] = b"pre-existing file outside OUT; must stay untouched\n";

impl Sandbox {
    pub fn create(scratch: &Path, id: u64, out_exists: bool) -> io::Result<Sandbox> {
        let root = scratch.join(format!("c{id:07}"));
        let mut nest = root.clone();
        for i in 1..=NEST {
            nest.push(format!("n{i:02}"));
        }
        let work = nest.join("work");
        let out = work.join("OUT");
        let arch = work.join("archives");
        let home = root.join("home");
        fs::create_dir_all(&arch)?;
        if out_exists {
            fs::create_dir_all(&out)?;
            fs::write(out.join("old.txt"), b"old content inside OUT\n")?;
        }
        for d in [".config", ".local/share", ".local/state", ".cache", "run", "tmp"] {
            fs::create_dir_all(home.join(d))?;
        }
        // victims where escapes land: one and two levels above OUT, every nesting level's
        // x.txt is left absent on purpose (creation is detected as well as modification)
        fs::create_dir_all(root.join("abs_target"))?;
        fs::write(root.join("abs_target/victim.txt"), VICTIM)?;
        fs::write(work.join("victim.txt"), VICTIM)?;
        fs::write(nest.join("victim.txt"), VICTIM)?;
        fs::write(root.join("victim.txt"), VICTIM)?;
        let sbx_rel = root
            .to_str()
            .expect("utf-8 scratch path")
            .trim_start_matches('/')
            .to_string();
        let out_rel = out
            .strip_prefix(&root)
            .unwrap()
            .to_str()
            .unwrap()
            .to_string();
        Ok(Sandbox {
            root,
            work,
            out,
            arch,
            home,
            sbx_rel,
            out_rel,
        })
    }
    pub fn destroy(self) {
        // the root is a directory this harness created under its own scratch dir;
        // remove_dir_all does not follow symlinks
        let _ = fs::remove_dir_all(&self.root);
    }
}

#[derive(Clone, Debug, PartialEq, Eq)]
pub struct Node {
    pub kind: &'static str, // file | dir | symlink | other
    pub size: u64,
    pub md5: [u8; 16],
    pub mtime: (i64, i64),
    pub mode: u32,
    pub target: Option<String>,
}

pub type Snapshot = BTreeMap<String, Node>;

pub fn md5_of(b: &[u8]) -> [u8; 16] {
    let mut h = Md5::new();
    h.update(b);
    h.finalize().into()
}

fn walk(root: &Path, dir: &Path, out: &mut Snapshot) -> io::Result<()> {
    let mut entries: Vec<_> = fs::read_dir(dir)?.collect::<Result<_, _>>()?;
    entries.sort_by_key(|e| e.file_name());
    for e in entries {
        let p = e.path();
        let md = fs::symlink_metadata(&p)?;
        let rel = p
            .strip_prefix(root)
            .unwrap()
            .to_string_lossy()
            .into_owned();
        let ft = md.file_type();
        let node = if ft.is_symlink() {
            Node {
                kind: "symlink",
                size: md.len(),
                md5: [0; 16],
                mtime: (md.mtime(), md.mtime_nsec()),
                mode: md.mode(),
                target: fs::read_link(&p).ok().map(|t| t.to_string_lossy().into_owned()),
            }
        } else if ft.is_dir() {
            Node {
                kind: "dir",
                size: 0,
                md5: [0; 16],
                // directory mtimes change whenever an entry is created inside; the entries
                // themselves are observed, so the mtime of a directory is not recorded
                mtime: (0, 0),
                mode: md.mode(),
                target: None,
            }
        } else if ft.is_file() {
            let data = fs::read(&p)?;
            Node {
                kind: "file",
                size: md.len(),
                md5: md5_of(&data),
                mtime: (md.mtime(), md.mtime_nsec()),
                mode: md.mode(),
                target: None,
            }
        } else {
            Node {
                kind: "other",
                size: md.len(),
                md5: [0; 16],
                mtime: (md.mtime(), md.mtime_nsec()),
                mode: md.mode(),
                target: None,
            }
        };
        let is_dir = node.kind == "dir";
        out.insert(rel, node);
        if is_dir {
            walk(root, &p, out)?;
        }
    }
    Ok(())
}

pub fn snapshot(root: &Path) -> io::Result<Snapshot> {
    let mut s = Snapshot::new();
    walk(root, root, &mut s)?;
    Ok(s)
}

#[derive(Clone, Debug)]
pub struct Change {
    pub path: String,
    pub what: &'static str, // created | modified | deleted
    pub kind: &'static str,
    pub md5: [u8; 16],
}

pub fn diff(before: &Snapshot, after: &Snapshot) -> Vec<Change> {
    let mut v = vec![];
    for (p, a) in after {
        match before.get(p) {
            None => v.push(Change {
                path: p.clone(),
                what: "created",
                kind: a.kind,
                md5: a.md5,
            }),
            Some(b) if b != a => v.push(Change {
                path: p.clone(),
                what: "modified",
                kind: a.kind,
                md5: a.md5,
            }),
            _ => {}
        }
    }
    for (p, b) in before {
        if !after.contains_key(p) {
            v.push(Change {
                path: p.clone(),
                what: "deleted",
                kind: b.kind,
                md5: b.md5,
            });
        }
    }
    v.sort_by(|a, b| a.path.cmp(&b.path));
    v
}

/// is `rel` (relative to the sandbox root) OUT itself or beneath it?
pub fn inside_out(rel: &str, out_rel: &str) -> bool {
    rel == out_rel || (rel.starts_with(out_rel) && rel.as_bytes().get(out_rel.len()) == Some(&b'/'))
}
