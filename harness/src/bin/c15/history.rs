//! Histories: the property quantifies over roots and groups, not over "roots written by an
//! object that has never been used before". `WmoWriter`, `WmoParser`, `WmoGroupParser` and
//! `WmoConverter` are values with `&self` methods that callers may keep and use for any number of
//! files (a batch converter, an exporter that writes a root and then its groups). A history case
//! is a sequence of roots and groups that all go through ONE instance of each of these objects;
//! every step is judged against what a fresh instance does with the same value:
//!
//! * the bytes a used writer writes are the bytes a fresh writer writes (so everything the
//!   single-case clauses establish for a fresh writer holds for every later file too),
//! * where they are not, the written file is additionally parsed and compared with the input
//!   (chunk walker + content comparator of the single-case oracle), so that the failure names
//!   the clause of the property that broke (`history-root-group-names-differ`, …),
//! * a used parser returns what a fresh parser returns (judged through the comparator and the
//!   bytes of a rewrite), a used converter converts like a fresh one.
//!
//! Known single-case defects cancel out (they hit the fresh side as well).

use crate::model::*;
use crate::oracle::{Outcome, cmp_root_legacy, push};
use crate::walk;
use proptest::collection::vec;
use proptest::prelude::*;
use serde::{Deserialize, Serialize};
use std::io::Cursor;
use vcheck::engine::{Fail, guard, truncate};
use wow_wmo::version::WmoVersion;
use wow_wmo::wmo_group_types::WmoGroup;
use wow_wmo::wmo_types::WmoRoot;
use wow_wmo::{WmoConverter, WmoGroupParser, WmoParser, WmoWriter};

#[derive(Debug, Clone, Serialize, Deserialize)]
pub enum Step {
    /// write_root, parse_root
    Root(RootCase),
    /// write_group, parse_group
    Group(GroupCase),
    /// convert_root to `convert_to`, then write_root at the target version
    ConvRoot(RootCase),
    /// convert_group to `convert_to`, then write_group at the target version
    ConvGroup(GroupCase),
}

impl Step {
    fn letter(&self) -> char {
        match self {
            Step::Root(_) => 'R',
            Step::Group(_) => 'G',
            Step::ConvRoot(_) => 'r',
            Step::ConvGroup(_) => 'g',
        }
    }
}

#[derive(Debug, Clone, Serialize, Deserialize)]
pub struct SeqCase {
    pub steps: Vec<Step>,
}

/// relation of a string table's layout (entry lengths) to the one the same object handled before
fn rel(prev: Option<&Vec<usize>>, cur: &[usize]) -> &'static str {
    match prev {
        None => "first",
        Some(p) if p.as_slice() == cur => "same",
        Some(p) if p.is_empty() => "from-empty",
        Some(_) if cur.is_empty() => "to-empty",
        Some(p) if p.len() == cur.len() => "other-lengths",
        Some(p) if cur.len() > p.len() => "more",
        Some(_) => "fewer",
    }
}

fn note_for(r: &str) -> Option<&'static str> {
    Some(match r {
        "same" => "history_root_after_root_with_the_same_group_name_layout",
        "from-empty" => "history_root_after_root_without_groups",
        "to-empty" => "history_root_without_groups_after_root_with_groups",
        "other-lengths" => "history_root_after_root_with_as_many_groups_but_other_name_lengths",
        "more" => "history_root_after_root_with_fewer_groups",
        "fewer" => "history_root_after_root_with_more_groups",
        _ => return None,
    })
}

impl SeqCase {
    pub fn kinds(&self) -> String {
        self.steps.iter().map(Step::letter).collect()
    }

    /// (class, non-trivial, notes)
    pub fn class(&self) -> (String, bool, Vec<&'static str>) {
        let mut notes = vec![];
        let mut prev_g: Option<Vec<usize>> = None;
        let mut prev_t: Option<Vec<usize>> = None;
        let mut grels: Vec<&'static str> = vec![];
        let mut trels: Vec<&'static str> = vec![];
        let mut prev_letter: Option<char> = None;
        let mut groups_seen = 0usize;
        for s in &self.steps {
            match s {
                Step::Root(c) | Step::ConvRoot(c) => {
                    let g: Vec<usize> = c.groups.iter().map(|x| x.name.len()).collect();
                    let t: Vec<usize> = c.textures.iter().map(|x| x.len()).collect();
                    let rg = rel(prev_g.as_ref(), &g);
                    let rt = rel(prev_t.as_ref(), &t);
                    if let Some(n) = note_for(rg) {
                        notes.push(n);
                    }
                    if rt != "first" && rt != "same" {
                        notes.push("history_root_after_root_with_another_texture_table_layout");
                    }
                    if !grels.contains(&rg) {
                        grels.push(rg);
                    }
                    if !trels.contains(&rt) {
                        trels.push(rt);
                    }
                    prev_g = Some(g);
                    prev_t = Some(t);
                    if matches!(prev_letter, Some('G') | Some('g')) {
                        notes.push("history_root_after_group");
                    }
                }
                Step::Group(_) | Step::ConvGroup(_) => {
                    groups_seen += 1;
                    match prev_letter {
                        Some('R') | Some('r') => notes.push("history_group_after_root"),
                        Some(_) => notes.push("history_group_after_group"),
                        None => {}
                    }
                }
            }
            if matches!(s, Step::ConvRoot(_) | Step::ConvGroup(_)) && prev_letter.is_some() {
                notes.push("history_conversion_with_a_used_converter_or_writer");
            }
            prev_letter = Some(s.letter());
        }
        grels.retain(|r| *r != "first");
        trels.retain(|r| *r != "first");
        grels.sort();
        trels.sort();
        let kinds: String = self.kinds().chars().take(6).collect();
        let n = match self.steps.len() {
            0 => "0",
            1 => "1",
            2 => "2",
            3..=4 => "few",
            _ => "many",
        };
        let nt = grels.iter().chain(trels.iter()).any(|r| matches!(*r, "other-lengths" | "more" | "fewer")) || groups_seen >= 2;
        (format!("history:{n}:{kinds}:g={}:t={}", grels.join("+"), trels.join("+")), nt, notes)
    }
}

// ---------------------------------------------------------------------------------------
// oracle

type Written = Result<Vec<u8>, String>;

fn wr_root(w: &WmoWriter, entry: &str, r: &WmoRoot, v: WmoVersion) -> Result<Written, Fail> {
    guard(entry, || {
        let mut c = Cursor::new(Vec::new());
        w.write_root(&mut c, r, v).map(|_| c.into_inner()).map_err(|e| e.to_string())
    })
}
fn wr_group(w: &WmoWriter, entry: &str, g: &WmoGroup, v: WmoVersion) -> Result<Written, Fail> {
    guard(entry, || {
        let mut c = Cursor::new(Vec::new());
        w.write_group(&mut c, g, v).map(|_| c.into_inner()).map_err(|e| e.to_string())
    })
}

fn first_diff(a: &[u8], b: &[u8]) -> usize {
    a.iter().zip(b).position(|(x, y)| x != y).unwrap_or(a.len().min(b.len()))
}

struct Ctx {
    writer: WmoWriter,
    parser: WmoParser,
    group_parser: WmoGroupParser,
    converter: WmoConverter,
    /// letters of the steps done so far, for messages
    done: String,
}

impl Ctx {
    fn at(&self, i: usize) -> String {
        if self.done.is_empty() {
            format!("step {i} (first use of the objects)")
        } else {
            format!("step {i}, after steps [{}] through the same objects", self.done)
        }
    }
}

/// everything the walker and the content comparator object to in `bytes` as a
/// serialisation of `c`
fn root_objections(bytes: &[u8], c: &RootCase, d: &RootDerived, parser: &WmoParser) -> Vec<Fail> {
    let w = walk::judge_root(bytes, c, d);
    let mut out: Vec<Fail> = w.fails.clone();
    // a file whose chunks do not tile is judged by the walker alone (whatever a parser makes of
    // it is a consequence)
    let Some(eff) = w.effective.as_deref() else {
        return out;
    };
    match guard("parse_root", || parser.parse_root(&mut Cursor::new(eff))) {
        Err(f) => out.push(f),
        Ok(Err(e)) => push(&mut out, "root-legacy-parse-error", format!("parse_root rejects the written root: {e}")),
        Ok(Ok(p)) => cmp_root_legacy(&p, c, d, &w, true, &mut out),
    }
    out
}

/// write `root` with the used writer and with a fresh one; returns the fresh bytes
fn step_write_root(ctx: &Ctx, i: usize, root: &WmoRoot, ver: WmoVersion, content: Option<(&RootCase, &RootDerived)>, f: &mut Vec<Fail>) -> Option<Vec<u8>> {
    let fresh = match wr_root(&WmoWriter::new(), "write_root", root, ver) {
        Ok(x) => x,
        Err(fl) => {
            f.push(fl);
            return None;
        }
    };
    let used = match wr_root(&ctx.writer, "write_root(used writer)", root, ver) {
        Ok(x) => x,
        Err(fl) => {
            f.push(fl);
            return fresh.ok();
        }
    };
    match (&fresh, &used) {
        (Ok(a), Ok(b)) if a == b => {}
        (Ok(a), Ok(b)) => {
            let pos = first_diff(a, b);
            let chunk = match walk::walk(a, 0, a.len()) {
                Ok(ch) => walk::chunk_at(&ch, pos),
                Err(_) => "unwalkable-file".to_string(),
            };
            push(
                f,
                format!("root-write-depends-on-what-the-writer-wrote-before:first-difference-in-{chunk}"),
                format!("{}: write_root through the used WmoWriter gives {} bytes, through WmoWriter::new() {} bytes, first difference at byte {pos} ({chunk})", ctx.at(i), b.len(), a.len()),
            );
            // which clause of the property does the file of the used writer break?
            if let Some((c, d)) = content {
                let base: Vec<String> = root_objections(a, c, d, &WmoParser::new()).into_iter().map(|x| x.signature).collect();
                // the first objection names the failure, the rest are its consequences
                if let Some(x) = root_objections(b, c, d, &WmoParser::new()).into_iter().find(|x| !base.contains(&x.signature)) {
                    push(f, format!("history-{}", x.signature), format!("{}: the root written by the used writer (not the one written by a fresh writer): {}", ctx.at(i), x.message));
                }
            }
        }
        (a, b) => push(
            f,
            "root-write-result-depends-on-what-the-writer-wrote-before",
            format!("{}: fresh writer {:?}, used writer {:?}", ctx.at(i), a.as_ref().map(|x| x.len()), b.as_ref().map(|x| x.len())),
        ),
    }
    fresh.ok()
}

fn step_write_group(ctx: &Ctx, i: usize, g: &WmoGroup, ver: WmoVersion, f: &mut Vec<Fail>) -> Option<Vec<u8>> {
    let fresh = match wr_group(&WmoWriter::new(), "write_group", g, ver) {
        Ok(x) => x,
        Err(fl) => {
            f.push(fl);
            return None;
        }
    };
    let used = match wr_group(&ctx.writer, "write_group(used writer)", g, ver) {
        Ok(x) => x,
        Err(fl) => {
            f.push(fl);
            return fresh.ok();
        }
    };
    match (&fresh, &used) {
        (Ok(a), Ok(b)) if a == b => {}
        (Ok(a), Ok(b)) => {
            let pos = first_diff(a, b);
            // MVER (12 bytes), MOGP header, then the sub-chunks
            let part = if pos < 12 {
                "MVER".to_string()
            } else if pos < 20 {
                "MOGP-chunk-header".to_string()
            } else {
                // 68-byte MOGP header, then the sub-chunks
                match walk::walk(a, 88.min(a.len()), a.len()) {
                    Ok(ch) if pos >= 88 => walk::chunk_at(&ch, pos),
                    Ok(_) => "MOGP-header".to_string(),
                    Err(_) => "MOGP-body".to_string(),
                }
            };
            push(
                f,
                format!("group-write-depends-on-what-the-writer-wrote-before:first-difference-in-{part}"),
                format!("{}: write_group through the used WmoWriter gives {} bytes, through WmoWriter::new() {} bytes, first difference at byte {pos} ({part})", ctx.at(i), b.len(), a.len()),
            );
        }
        (a, b) => push(
            f,
            "group-write-result-depends-on-what-the-writer-wrote-before",
            format!("{}: fresh writer {:?}, used writer {:?}", ctx.at(i), a.as_ref().map(|x| x.len()), b.as_ref().map(|x| x.len())),
        ),
    }
    fresh.ok()
}

/// the used parser on a file must return what a fresh parser returns
fn step_parse_root(ctx: &Ctx, i: usize, bytes: &[u8], c: &RootCase, d: &RootDerived, ver: WmoVersion, f: &mut Vec<Fail>) {
    let w = walk::judge_root(bytes, c, d);
    let eff: &[u8] = w.effective.as_deref().unwrap_or(bytes);
    let fresh = match guard("parse_root", || WmoParser::new().parse_root(&mut Cursor::new(eff))) {
        Ok(x) => x,
        Err(fl) => {
            f.push(fl);
            return;
        }
    };
    let used = match guard("parse_root(used parser)", || ctx.parser.parse_root(&mut Cursor::new(eff))) {
        Ok(x) => x,
        Err(fl) => {
            f.push(fl);
            return;
        }
    };
    match (fresh, used) {
        (Err(a), Err(b)) => {
            if a.to_string() != b.to_string() {
                push(f, "root-parse-error-depends-on-what-the-parser-parsed-before", format!("{}: fresh parser: {a}; used parser: {b}", ctx.at(i)));
            }
        }
        (Ok(a), Ok(b)) => {
            let sigs = |p: &WmoRoot| {
                let mut v = vec![];
                cmp_root_legacy(p, c, d, &w, true, &mut v);
                v
            };
            let sa: Vec<String> = sigs(&a).into_iter().map(|x| x.signature).collect();
            for x in sigs(&b) {
                if !sa.contains(&x.signature) {
                    push(f, format!("history-parse-{}", x.signature), format!("{}: the used parser (not a fresh one) on the same bytes: {}", ctx.at(i), x.message));
                }
            }
            // everything the comparator does not look at: both values serialise alike
            let w0 = WmoWriter::new();
            match (wr_root(&w0, "write_root", &a, ver), wr_root(&w0, "write_root", &b, ver)) {
                (Ok(x), Ok(y)) => {
                    if x != y {
                        push(f, "root-parse-depends-on-what-the-parser-parsed-before", format!("{}: the values a fresh and the used WmoParser return for the same bytes serialise differently", ctx.at(i)));
                    }
                }
                (Err(fl), _) | (_, Err(fl)) => f.push(fl),
            }
            // second write through the used writer (the parsed value is a new value for it)
            step_write_root(ctx, i, &a, ver, None, f);
        }
        (a, b) => push(
            f,
            "root-parse-result-depends-on-what-the-parser-parsed-before",
            format!("{}: fresh parser ok={}, used parser ok={}", ctx.at(i), a.is_ok(), b.is_ok()),
        ),
    }
}

fn step_parse_group(ctx: &Ctx, i: usize, bytes: &[u8], index: u32, ver: WmoVersion, f: &mut Vec<Fail>) {
    let fresh = guard("parse_group", || WmoGroupParser::new().parse_group(&mut Cursor::new(bytes), index));
    let used = guard("parse_group(used parser)", || ctx.group_parser.parse_group(&mut Cursor::new(bytes), index));
    match (fresh, used) {
        (Err(fl), _) | (_, Err(fl)) => f.push(fl),
        (Ok(Err(a)), Ok(Err(b))) => {
            if a.to_string() != b.to_string() {
                push(f, "group-parse-error-depends-on-what-the-parser-parsed-before", format!("{}: fresh parser: {a}; used parser: {b}", ctx.at(i)));
            }
        }
        (Ok(Ok(a)), Ok(Ok(b))) => {
            let w0 = WmoWriter::new();
            match (wr_group(&w0, "write_group", &a, ver), wr_group(&w0, "write_group", &b, ver)) {
                (Ok(x), Ok(y)) => {
                    if x != y {
                        push(f, "group-parse-depends-on-what-the-parser-parsed-before", format!("{}: the values a fresh and the used WmoGroupParser return for the same bytes serialise differently", ctx.at(i)));
                    }
                }
                (Err(fl), _) | (_, Err(fl)) => f.push(fl),
            }
            step_write_group(ctx, i, &a, ver, f);
        }
        (Ok(a), Ok(b)) => push(
            f,
            "group-parse-result-depends-on-what-the-parser-parsed-before",
            format!("{}: fresh parser ok={}, used parser ok={}", ctx.at(i), a.is_ok(), b.is_ok()),
        ),
    }
}

pub fn eval_seq(c: &SeqCase) -> Outcome {
    let (class, nt, notes) = c.class();
    let mut o = Outcome {
        fails: vec![],
        class,
        nt,
        notes,
    };
    let mut ctx = Ctx {
        writer: WmoWriter::new(),
        parser: WmoParser::new(),
        group_parser: WmoGroupParser::new(),
        converter: WmoConverter::new(),
        done: String::new(),
    };
    for (i, s) in c.steps.iter().enumerate() {
        let f = &mut o.fails;
        match s {
            Step::Root(rc) => {
                let d = rc.derive();
                let root = rc.build(&d);
                let ver = VERSIONS[rc.version as usize];
                if let Some(bytes) = step_write_root(&ctx, i, &root, ver, Some((rc, &d)), f) {
                    step_parse_root(&ctx, i, &bytes, rc, &d, ver, f);
                }
            }
            Step::Group(gc) => {
                let g = gc.build();
                let ver = VERSIONS[gc.version as usize];
                if let Some(bytes) = step_write_group(&ctx, i, &g, ver, f) {
                    step_parse_group(&ctx, i, &bytes, gc.group_index as u32, ver, f);
                }
            }
            Step::ConvRoot(rc) => {
                let d = rc.derive();
                let target = VERSIONS[rc.convert_to as usize];
                // conversions start from a value that is valid for its own version
                let mk = || {
                    let mut r = rc.build(&d);
                    r.skybox = d.skybox.clone();
                    r
                };
                let (mut a, mut b) = (mk(), mk());
                let ra = guard("convert_root", || WmoConverter::new().convert_root(&mut a, target).map_err(|e| e.to_string()));
                let rb = guard("convert_root(used converter)", || ctx.converter.convert_root(&mut b, target).map_err(|e| e.to_string()));
                match (ra, rb) {
                    (Err(fl), _) | (_, Err(fl)) => f.push(fl),
                    (Ok(ra), Ok(rb)) => {
                        if ra != rb {
                            push(f, "root-conversion-result-depends-on-what-the-converter-converted-before", format!("{}: fresh converter {ra:?}, used converter {rb:?}", ctx.at(i)));
                        } else if ra.is_ok() {
                            let w0 = WmoWriter::new();
                            match (wr_root(&w0, "write_root", &a, target), wr_root(&w0, "write_root", &b, target)) {
                                (Ok(x), Ok(y)) => {
                                    if x != y {
                                        push(f, "root-conversion-depends-on-what-the-converter-converted-before", format!("{}: the roots a fresh and the used WmoConverter produce serialise differently", ctx.at(i)));
                                    }
                                }
                                (Err(fl), _) | (_, Err(fl)) => f.push(fl),
                            }
                            // the converted root is one more file for the used writer
                            step_write_root(&ctx, i, &b, target, None, f);
                        }
                    }
                }
            }
            Step::ConvGroup(gc) => {
                let target = VERSIONS[gc.convert_to as usize];
                let from = VERSIONS[gc.version as usize];
                let (mut a, mut b) = (gc.build(), gc.build());
                let ra = guard("convert_group", || WmoConverter::new().convert_group(&mut a, target, from).map_err(|e| e.to_string()));
                let rb = guard("convert_group(used converter)", || ctx.converter.convert_group(&mut b, target, from).map_err(|e| e.to_string()));
                match (ra, rb) {
                    (Err(fl), _) | (_, Err(fl)) => f.push(fl),
                    (Ok(ra), Ok(rb)) => {
                        if ra != rb {
                            push(f, "group-conversion-result-depends-on-what-the-converter-converted-before", format!("{}: fresh converter {ra:?}, used converter {rb:?}", ctx.at(i)));
                        } else if ra.is_ok() {
                            let w0 = WmoWriter::new();
                            match (wr_group(&w0, "write_group", &a, target), wr_group(&w0, "write_group", &b, target)) {
                                (Ok(x), Ok(y)) => {
                                    if x != y {
                                        push(f, "group-conversion-depends-on-what-the-converter-converted-before", format!("{}: the groups a fresh and the used WmoConverter produce serialise differently", ctx.at(i)));
                                    }
                                }
                                (Err(fl), _) | (_, Err(fl)) => f.push(fl),
                            }
                            step_write_group(&ctx, i, &b, target, f);
                        }
                    }
                }
            }
        }
        ctx.done.push(s.letter());
    }
    for x in &mut o.fails {
        x.message = truncate(&x.message, 600);
    }
    o
}

// ---------------------------------------------------------------------------------------
// deterministic grid

fn ginfo(i: usize, name: &str) -> GroupInfoCase {
    let base = grid_root(V_MOP, 2).groups;
    let mut g = base[i % base.len()].clone();
    g.name = name.to_string();
    g
}

pub const SHAPES: usize = 8;

/// roots whose string tables relate to each other in every way that matters for an offset table
pub fn shape_root(version: u8, k: usize) -> RootCase {
    let many = |names: &[&str]| {
        let mut c = grid_root(version, 2).tamed();
        c.groups = names.iter().enumerate().map(|(i, n)| ginfo(i, n)).collect();
        c
    };
    match k {
        0 => grid_root(version, 0),
        1 => grid_root(version, 1).tamed(),
        // "hall", "hall_upper", "hall", "x"
        2 => grid_root(version, 2).tamed(),
        // as many groups, other name lengths
        3 => many(&["Antechamber", "Crypt", "x", "hall_upper_long"]),
        // the same names in another order
        4 => many(&["x", "hall", "hall_upper", "hall"]),
        // the same names and two more
        5 => many(&["hall", "hall_upper", "hall", "x", "annex", "b"]),
        // the first two only
        6 => many(&["hall", "hall_upper"]),
        // the same groups, other textures (MOTX layout, material offsets) and one doodad more
        _ => {
            let mut c = grid_root(version, 2).tamed();
            c.textures = ["b", "World\\wmo\\abc.blp", "tex\\a_01.blp", "World\\wmo\\a.blp", "ab", "x.blp"].iter().map(|s| s.to_string()).collect();
            let d = c.doodad_defs[0].clone();
            c.doodad_defs.push(d);
            c
        }
    }
}

pub fn grid_cases() -> Vec<SeqCase> {
    let mut out = vec![];
    // every ordered pair of shapes through one writer / parser, at the oldest and the newest of the
    // versions the property names (the pair (k, k) is the "same root twice" history)
    for v in [0u8, V_MOP] {
        for a in 0..SHAPES {
            for b in 0..SHAPES {
                out.push(SeqCase {
                    steps: vec![Step::Root(shape_root(v, a)), Step::Root(shape_root(v, b))],
                });
            }
        }
    }
    // per version: an exporter's history — root, its groups, the next root, …, conversions at the end
    for v in 0..VERSIONS.len() as u8 {
        let to = if v >= V_MOP { 0 } else { v + 1 };
        let mut cr = shape_root(v, 3);
        cr.convert_to = to;
        cr.materials.iter_mut().for_each(|m| m.flags |= 0x300);
        let mut cg = grid_group(v, 2);
        cg.convert_to = to;
        let mut renamed = shape_root(v, 2);
        renamed.groups[1].name = "hall_lower".into(); // a rename that keeps the layout
        out.push(SeqCase {
            steps: vec![
                Step::Root(shape_root(v, 2)),
                Step::Group(grid_group(v, 2)),
                Step::Group(grid_group(v, 1)),
                Step::Root(shape_root(v, 3)),
                Step::Group(grid_group(v, 0)),
                Step::Group(grid_group(v, 2)),
                Step::Root(renamed),
                Step::Root(shape_root(v, 0)),
                Step::Root(grid_root(v, 2)),
                Step::ConvRoot(cr.clone()),
                Step::ConvGroup(cg.clone()),
                Step::Root(shape_root(v, 5)),
                Step::ConvRoot(cr),
                Step::ConvGroup(cg),
                Step::Root(shape_root(v, 1)),
            ],
        });
        // groups only, and conversions first
        out.push(SeqCase {
            steps: vec![Step::Group(grid_group(v, 2)), Step::Group(grid_group(v, 1)), Step::Group(grid_group(v, 2))],
        });
    }
    // one writer for files of different versions
    out.push(SeqCase {
        steps: (0..VERSIONS.len()).map(|v| Step::Root(shape_root(v as u8, 2 + v % 5))).collect(),
    });
    // back to the first root after another one
    out.push(SeqCase {
        steps: vec![Step::Root(shape_root(V_MOP, 2)), Step::Root(shape_root(V_MOP, 1)), Step::Root(shape_root(V_MOP, 2))],
    });
    out
}

// ---------------------------------------------------------------------------------------
// random histories: a root that is edited between writes (rename / add / remove groups and
// textures, …), unrelated roots, groups and conversions in between

#[derive(Debug, Clone)]
enum Edit {
    Rename(u16, String),
    Remove(u16),
    Add(u16, GroupInfoCase),
    Swap(u16, u16),
    DropGroups,
    RenameTexture(u16, String),
    AddTexture(String),
    Retarget(u8),
    Keep,
    Other(Box<RootCase>),
}

fn apply(c: &mut RootCase, e: &Edit) {
    let n = c.groups.len();
    match e {
        Edit::Rename(s, name) if n > 0 => c.groups[pick_idx(*s, n)].name = name.clone(),
        Edit::Rename(_, name) => c.groups.push(ginfo(0, name)),
        Edit::Remove(s) if n > 0 => {
            c.groups.remove(pick_idx(*s, n));
        }
        Edit::Add(s, g) => c.groups.insert(pick_idx(*s, n + 1), g.clone()),
        Edit::Swap(a, b) if n > 1 => c.groups.swap(pick_idx(*a, n), pick_idx(*b, n)),
        Edit::DropGroups => c.groups.clear(),
        Edit::RenameTexture(s, name) if !c.textures.is_empty() => {
            let i = pick_idx(*s, c.textures.len());
            c.textures[i] = name.clone();
        }
        Edit::RenameTexture(_, name) | Edit::AddTexture(name) => c.textures.push(name.clone()),
        Edit::Retarget(v) => {
            c.version = *v;
        }
        Edit::Other(r) => *c = (**r).clone(),
        _ => {}
    }
}

fn group_info() -> impl Strategy<Value = GroupInfoCase> + Clone {
    (any::<u32>(), bbox(), path_string()).prop_map(|(f, bbox, name)| GroupInfoCase {
        flags: f & GRP_FLAG_MASK,
        bbox,
        name,
    })
}

fn edit(max_version: u8) -> impl Strategy<Value = Edit> {
    prop_oneof![
        4 => (any::<u16>(), path_string()).prop_map(|(s, n)| Edit::Rename(s, n)),
        2 => any::<u16>().prop_map(Edit::Remove),
        3 => (any::<u16>(), group_info()).prop_map(|(s, g)| Edit::Add(s, g)),
        1 => (any::<u16>(), any::<u16>()).prop_map(|(a, b)| Edit::Swap(a, b)),
        1 => Just(Edit::DropGroups),
        2 => (any::<u16>(), path_string()).prop_map(|(s, n)| Edit::RenameTexture(s, n)),
        1 => path_string().prop_map(Edit::AddTexture),
        1 => (0u8..=max_version).prop_map(Edit::Retarget),
        1 => Just(Edit::Keep),
        3 => root_strategy(max_version).prop_map(|r| Edit::Other(Box::new(r))),
    ]
}

pub fn seq_strategy(max_version: u8) -> impl Strategy<Value = SeqCase> {
    (
        root_strategy(max_version),
        vec((edit(max_version), proptest::bool::weighted(0.2)), 1..=4),
        vec((group_strategy(max_version), any::<u16>(), proptest::bool::weighted(0.25)), 0..=3),
        proptest::bool::weighted(0.1),
    )
        .prop_map(|(first, edits, groups, first_is_conv)| {
            let mut steps = vec![];
            let mut cur = first;
            steps.push(if first_is_conv { Step::ConvRoot(cur.clone()) } else { Step::Root(cur.clone()) });
            for (e, conv) in &edits {
                apply(&mut cur, e);
                steps.push(if *conv { Step::ConvRoot(cur.clone()) } else { Step::Root(cur.clone()) });
            }
            for (g, pos, conv) in groups {
                let at = pick_idx(pos, steps.len() + 1);
                steps.insert(at, if conv { Step::ConvGroup(g) } else { Step::Group(g) });
            }
            SeqCase { steps }
        })
}
