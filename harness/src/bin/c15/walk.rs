//! Independent chunk walker and structural judges for WMO v17 root / group files.
//! Written from the published format description (wowdev.wiki "WMO"): nothing here calls into
//! wow-wmo. Chunk magics are stored reversed on disk ("REVM" = MVER).
//!
//! Record sizes (v17, all expansions Classic..MoP and later):
//!   MOHD 64 bytes; MOMT 64/material; MOGI 32/group; MOPV 12/vertex; MOPT 20/portal;
//!   MOPR 8/reference; MOLT 48/light; MODS 32/set; MODD 40/definition;
//!   group: MOGP header 68 bytes then sub-chunks; MOVT 12, MOVI 2, MONR 12, MOTV 8, MOCV 4,
//!   MOBA 24, MOBN 16, MODR 2.

use crate::model::*;
use vcheck::engine::Fail;

#[derive(Debug, Clone)]
pub struct Chunk {
    pub name: String,
    pub off: usize,
    pub data: usize,
    pub size: usize,
}

pub fn u16at(b: &[u8], o: usize) -> u16 {
    u16::from_le_bytes([b[o], b[o + 1]])
}
pub fn u32at(b: &[u8], o: usize) -> u32 {
    u32::from_le_bytes([b[o], b[o + 1], b[o + 2], b[o + 3]])
}
fn v3at(b: &[u8], o: usize) -> V3 {
    V3(u32at(b, o), u32at(b, o + 4), u32at(b, o + 8))
}

fn magic_name(m: &[u8]) -> String {
    let r = [m[3], m[2], m[1], m[0]];
    if r.iter().all(|c| c.is_ascii_uppercase() || c.is_ascii_digit()) {
        String::from_utf8_lossy(&r).to_string()
    } else {
        format!("0x{}", hex::encode(r))
    }
}

/// `(magic, u32 size, payload)*` must tile `[start, end)` exactly
pub fn walk(b: &[u8], start: usize, end: usize) -> Result<Vec<Chunk>, String> {
    let mut out = vec![];
    let mut p = start;
    while p < end {
        if end - p < 8 {
            return Err(format!("{} stray bytes at offset {p} (no room for a chunk header)", end - p));
        }
        let size = u32at(b, p + 4) as usize;
        let name = magic_name(&b[p..p + 4]);
        if size > end - p - 8 {
            return Err(format!(
                "chunk {name} at offset {p} declares {size} bytes but only {} remain",
                end - p - 8
            ));
        }
        out.push(Chunk {
            name,
            off: p,
            data: p + 8,
            size,
        });
        p += 8 + size;
    }
    Ok(out)
}

const ROOT_CHUNKS: [&str; 18] = [
    "MVER", "MOHD", "MOTX", "MOMT", "MOGN", "MOGI", "MOSB", "MOPV", "MOPT", "MOPR", "MOVV", "MOVB",
    "MOLT", "MODS", "MODN", "MODD", "MFOG", "MCVP",
];
const GROUP_SUBCHUNKS: [&str; 16] = [
    "MOPY", "MOVI", "MOVT", "MONR", "MOTV", "MOBA", "MOLR", "MODR", "MOBN", "MOBR", "MOCV", "MLIQ",
    "MORI", "MORB", "MOTA", "MOBS",
];

/// string that starts at `off` inside a NUL-separated table
pub fn str_at(table: &[u8], off: usize) -> Result<&[u8], String> {
    if off >= table.len() {
        return Err(format!("offset {off} outside the {}-byte table", table.len()));
    }
    match table[off..].iter().position(|c| *c == 0) {
        Some(n) => Ok(&table[off..off + n]),
        None => Err(format!("string at offset {off} is not NUL-terminated inside the table")),
    }
}

fn find<'a>(chunks: &'a [Chunk], name: &str) -> Option<&'a Chunk> {
    chunks.iter().find(|c| c.name == name)
}
fn payload<'a>(b: &'a [u8], c: Option<&Chunk>) -> &'a [u8] {
    match c {
        Some(c) => &b[c.data..c.data + c.size],
        None => &[],
    }
}

pub struct RootWalk {
    pub fails: Vec<Fail>,
    /// bytes on which the remaining clauses are evaluated (MOMT size patched when that is the
    /// only tiling defect); None when the chunk stream cannot be interpreted at all
    pub effective: Option<Vec<u8>>,
    pub momt40: bool,
    pub mohd60: bool,
    pub chunks: Vec<Chunk>,
    /// all MOGI name offsets are 0 although some intended offset is not
    pub mogi_offsets_all_zero: bool,
}

pub fn judge_root(raw: &[u8], c: &RootCase, d: &RootDerived) -> RootWalk {
    let mut w = RootWalk {
        fails: vec![],
        effective: None,
        momt40: false,
        mohd60: false,
        chunks: vec![],
        mogi_offsets_all_zero: false,
    };
    let mut bytes = raw.to_vec();
    let chunks = match walk(&bytes, 0, bytes.len()) {
        Ok(ch) if ch.iter().all(|c| ROOT_CHUNKS.contains(&c.name.as_str())) => ch,
        other => {
            // diagnose: MOMT declared with 40 bytes/material while 64 are written
            let why = match other {
                Ok(ch) => format!(
                    "unknown chunk ids {:?}",
                    ch.iter()
                        .filter(|c| !ROOT_CHUNKS.contains(&c.name.as_str()))
                        .map(|c| c.name.clone())
                        .collect::<Vec<_>>()
                ),
                Err(e) => e,
            };
            let mut patched = None;
            if let Ok(pre) = prefix_walk(&bytes) {
                if let Some(m) = pre.iter().find(|c| c.name == "MOMT") {
                    let n = c.materials.len();
                    if n > 0 && m.size == 40 * n && m.data + 64 * n <= bytes.len() {
                        let mut p = bytes.clone();
                        p[m.off + 4..m.off + 8].copy_from_slice(&((64 * n) as u32).to_le_bytes());
                        if let Ok(ch) = walk(&p, 0, p.len()) {
                            if ch.iter().all(|c| ROOT_CHUNKS.contains(&c.name.as_str())) {
                                patched = Some((p, ch));
                            }
                        }
                    }
                }
            }
            match patched {
                Some((p, ch)) => {
                    w.momt40 = true;
                    w.fails.push(Fail::new(
                        "root-momt-declared-40-bytes-per-material-but-64-written",
                        format!(
                            "{} root with {} materials: MOMT size field is {} but {} bytes of material records follow, so the chunk stream no longer tiles ({why})",
                            VNAMES[c.version as usize],
                            c.materials.len(),
                            40 * c.materials.len(),
                            64 * c.materials.len()
                        ),
                    ));
                    bytes = p;
                    ch
                }
                None => {
                    w.fails.push(Fail::new(
                        "root-chunks-do-not-tile",
                        format!("written root is not an exact sequence of known chunks: {why}"),
                    ));
                    return w;
                }
            }
        }
    };
    let b = &bytes[..];
    // duplicates / leading chunks
    for (i, ch) in chunks.iter().enumerate() {
        if chunks[..i].iter().any(|o| o.name == ch.name) {
            w.fails.push(Fail::new("root-duplicate-chunk", format!("chunk {} occurs twice", ch.name)));
        }
    }
    if chunks.first().map(|c| (c.name.as_str(), c.size)) != Some(("MVER", 4)) {
        w.fails.push(Fail::new("root-mver-not-first", "first chunk is not a 4-byte MVER".to_string()));
        return w;
    }
    let want_raw = if c.version <= V_MOP { 17 } else { 18 + (c.version - V_WOD) as u32 };
    if u32at(b, chunks[0].data) != want_raw {
        w.fails.push(Fail::new(
            "root-mver-value",
            format!("MVER holds {} for {}", u32at(b, chunks[0].data), VNAMES[c.version as usize]),
        ));
    }
    let Some(mohd) = chunks.get(1).filter(|c| c.name == "MOHD") else {
        w.fails.push(Fail::new("root-mohd-not-second", "second chunk is not MOHD".to_string()));
        return w;
    };
    if mohd.size == 60 {
        w.mohd60 = true;
        w.fails.push(Fail::new(
            "root-mohd-written-with-60-bytes-flags-in-wmoid-slot",
            "MOHD is 60 bytes (format: 64): the writer stores the flags at 0x20 (wmoID slot) and omits the flags/numLod word at 0x3C".to_string(),
        ));
    } else if mohd.size != 64 {
        w.fails.push(Fail::new("root-mohd-size", format!("MOHD is {} bytes (format: 64)", mohd.size)));
        return w;
    }
    let h = mohd.data;
    let count = |name: &str, rec: usize| -> Result<usize, String> {
        match find(&chunks, name) {
            None => Ok(0),
            Some(ch) if ch.size % rec == 0 => Ok(ch.size / rec),
            Some(ch) => Err(format!("{name} size {} is not a multiple of the {rec}-byte record", ch.size)),
        }
    };
    let modn = payload(b, find(&chunks, "MODN"));
    let n_names = modn.split(|c| *c == 0).filter(|s| !s.is_empty()).count();
    let table: [(&str, usize, Result<usize, String>, usize); 7] = [
        ("nMaterials", 0, count("MOMT", 64), c.materials.len()),
        ("nGroups", 4, count("MOGI", 32), c.groups.len()),
        ("nPortals", 8, count("MOPT", 20), c.portals.len()),
        ("nLights", 12, count("MOLT", 48), c.lights.len()),
        ("nDoodadNames", 16, Ok(n_names), usize::MAX),
        ("nDoodadDefs", 20, count("MODD", 40), c.doodad_defs.len()),
        ("nDoodadSets", 24, count("MODS", 32), c.doodad_sets.len()),
    ];
    for (field, off, from_chunk, from_input) in table {
        let in_header = u32at(b, h + off) as usize;
        match from_chunk {
            Err(e) => w.fails.push(Fail::new(format!("root-chunk-size-not-record-multiple:{field}"), e)),
            Ok(n) => {
                if n != in_header {
                    w.fails.push(Fail::new(
                        format!("root-mohd-count-differs-from-chunk:{field}"),
                        format!("MOHD.{field} = {in_header} but the chunk holds {n} records"),
                    ));
                }
            }
        }
        if from_input != usize::MAX && in_header != from_input {
            w.fails.push(Fail::new(
                format!("root-mohd-count-differs-from-list:{field}"),
                format!("MOHD.{field} = {in_header} but the list has {from_input} entries"),
            ));
        }
    }
    // ambient colour is BGRA on disk, bounding box at 0x24
    let amb = &b[h + 28..h + 32];
    if amb != [c.ambient.b, c.ambient.g, c.ambient.r, c.ambient.a] {
        w.fails.push(Fail::new("root-mohd-ambient-colour", format!("MOHD ambient bytes {amb:?}, input {:?}", c.ambient)));
    }
    let bb = BBox {
        min: v3at(b, h + 36),
        max: v3at(b, h + 48),
    };
    if bb != d.bounds {
        w.fails.push(Fail::new(
            "root-mohd-bounds-not-the-input-bounds",
            format!("MOHD bounding box {bb:?}, input {:?}", d.bounds),
        ));
    }
    // MOTX: dense table, every material offset resolves to the intended texture
    let motx = payload(b, find(&chunks, "MOTX"));
    for (i, t) in c.textures.iter().enumerate() {
        match str_at(motx, d.tex_offsets[i] as usize) {
            Ok(s) if s == t.as_bytes() => {}
            other => {
                w.fails.push(Fail::new(
                    "root-motx-texture-not-at-expected-offset",
                    format!("texture {i} {t:?} expected at MOTX+{}: found {:?}", d.tex_offsets[i], other.map(String::from_utf8_lossy)),
                ));
                break;
            }
        }
    }
    if let Some(momt) = find(&chunks, "MOMT") {
        if momt.size == 64 * c.materials.len() {
            for (i, t) in d.mat_tex.iter().enumerate() {
                let r = momt.data + 64 * i;
                for (slot, off_in_rec, want_off, want_idx) in [(1, 12usize, t.0, t.1), (2, 24usize, t.2, t.3)] {
                    let got = u32at(b, r + off_in_rec);
                    let ok = match want_idx {
                        None => got == want_off,
                        Some(ix) => str_at(motx, got as usize).map(|s| s == c.textures[ix].as_bytes()).unwrap_or(false),
                    };
                    if !ok {
                        w.fails.push(Fail::new(
                            "root-momt-texture-offset-does-not-resolve",
                            format!("material {i} texture{slot} offset {got} does not resolve to the intended texture (wanted offset {want_off})"),
                        ));
                    }
                }
            }
        }
    }
    // MOGN / MOGI
    let mogn = payload(b, find(&chunks, "MOGN"));
    if let Some(mogi) = find(&chunks, "MOGI") {
        if mogi.size == 32 * c.groups.len() {
            let offs: Vec<u32> = (0..c.groups.len()).map(|i| u32at(b, mogi.data + 32 * i + 28)).collect();
            let mut bad = None;
            for (i, g) in c.groups.iter().enumerate() {
                let ok = str_at(mogn, offs[i] as usize).map(|s| s == g.name.as_bytes()).unwrap_or(false);
                if !ok && bad.is_none() {
                    bad = Some(i);
                }
            }
            if let Some(i) = bad {
                let all_zero = offs.iter().all(|o| *o == 0);
                w.mogi_offsets_all_zero = all_zero;
                let sig = if all_zero {
                    "root-mogi-name-offset-always-zero"
                } else {
                    "root-mogi-name-offset-does-not-resolve"
                };
                w.fails.push(Fail::new(
                    sig,
                    format!(
                        "group {i} name offset {} resolves to {:?}, intended {:?} (MOGI offsets {:?})",
                        offs[i],
                        str_at(mogn, offs[i] as usize).map(String::from_utf8_lossy),
                        c.groups[i].name,
                        &offs[..offs.len().min(8)]
                    ),
                ));
            }
        }
    }
    for (i, g) in c.groups.iter().enumerate() {
        match str_at(mogn, d.name_offsets[i] as usize) {
            Ok(s) if s == g.name.as_bytes() => {}
            other => {
                w.fails.push(Fail::new(
                    "root-mogn-name-not-at-expected-offset",
                    format!("group name {i} {:?} expected at MOGN+{}: found {:?}", g.name, d.name_offsets[i], other.map(String::from_utf8_lossy)),
                ));
                break;
            }
        }
    }
    // MODD name offsets must point at a NUL-terminated string inside MODN
    if let Some(modd) = find(&chunks, "MODD") {
        if modd.size % 40 == 0 {
            for i in 0..modd.size / 40 {
                let o = (u32at(b, modd.data + 40 * i) & 0x00FF_FFFF) as usize;
                if let Err(e) = str_at(modn, o) {
                    w.fails.push(Fail::new("root-modd-name-offset-does-not-resolve", format!("doodad {i}: {e}")));
                    break;
                }
            }
        }
    }
    // portals: MOPT (start,count) must select the input vertices out of MOPV
    if let (Some(mopt), Some(mopv)) = (find(&chunks, "MOPT"), find(&chunks, "MOPV")) {
        if mopt.size == 20 * c.portals.len() && mopv.size % 12 == 0 {
            let nv = mopv.size / 12;
            for (i, p) in c.portals.iter().enumerate() {
                let r = mopt.data + 20 * i;
                let (s, n) = (u16at(b, r) as usize, u16at(b, r + 2) as usize);
                let ok = n == p.verts.len()
                    && s + n <= nv
                    && (0..n).all(|j| v3at(b, mopv.data + 12 * (s + j)) == p.verts[j])
                    && v3at(b, r + 4) == p.normal;
                if !ok {
                    w.fails.push(Fail::new(
                        "root-mopt-does-not-select-the-portal-vertices",
                        format!("portal {i}: MOPT start {s} count {n} over {nv} MOPV vertices does not reproduce the {} input vertices / normal", p.verts.len()),
                    ));
                    break;
                }
            }
        }
    } else if !c.portals.is_empty() {
        w.fails.push(Fail::new("root-portal-chunks-missing", "portals given but MOPT/MOPV absent".to_string()));
    }
    if let Some(ch) = find(&chunks, "MOPR") {
        if ch.size != 8 * c.portal_refs.len() {
            w.fails.push(Fail::new("root-mopr-size", format!("MOPR {} bytes for {} references", ch.size, c.portal_refs.len())));
        }
    }
    // skybox
    match (find(&chunks, "MOSB"), &d.skybox) {
        (None, None) => {}
        (Some(ch), Some(s)) => {
            let p = payload(b, Some(ch));
            if str_at(p, 0).ok() != Some(s.as_bytes()) {
                w.fails.push(Fail::new("root-mosb-content", format!("MOSB holds {:?}, input {s:?}", String::from_utf8_lossy(p))));
            }
        }
        (a, _) => w.fails.push(Fail::new(
            "root-mosb-presence",
            format!("MOSB present: {}, skybox expected: {:?}", a.is_some(), d.skybox),
        )),
    }
    w.chunks = chunks;
    w.effective = Some(bytes);
    w
}

/// walk as far as the stream is consistent (used for diagnosis only)
fn prefix_walk(b: &[u8]) -> Result<Vec<Chunk>, String> {
    let mut out = vec![];
    let mut p = 0;
    while b.len() - p >= 8 {
        let size = u32at(b, p + 4) as usize;
        let name = magic_name(&b[p..p + 4]);
        if !ROOT_CHUNKS.contains(&name.as_str()) || size > b.len() - p - 8 {
            break;
        }
        out.push(Chunk {
            name,
            off: p,
            data: p + 8,
            size,
        });
        p += 8 + size;
    }
    Ok(out)
}

/// MOHD rebuilt in the documented 64-byte layout (flags moved to 0x3C, wmoID 0) so that the
/// remaining content can be compared through the `parse_wmo` API in spite of the MOHD defect
pub fn repair_mohd(eff: &[u8], chunks: &[Chunk]) -> Option<Vec<u8>> {
    let m = chunks.get(1).filter(|c| c.name == "MOHD" && c.size == 60)?;
    let mut out = eff[..m.off + 4].to_vec();
    out.extend_from_slice(&64u32.to_le_bytes());
    let body = &eff[m.data..m.data + 60];
    out.extend_from_slice(&body[..32]);
    out.extend_from_slice(&0u32.to_le_bytes()); // wmoID
    out.extend_from_slice(&body[36..60]); // bounding box
    out.extend_from_slice(&body[32..34]); // flags (low 16 bits)
    out.extend_from_slice(&0u16.to_le_bytes()); // numLod
    out.extend_from_slice(&eff[m.data + 60..]);
    Some(out)
}

/// name of the chunk that contains byte `pos`
pub fn chunk_at(chunks: &[Chunk], pos: usize) -> String {
    for c in chunks {
        if pos >= c.off && pos < c.data + c.size {
            return c.name.clone();
        }
    }
    "beyond-last-chunk".to_string()
}

// ---------------------------------------------------------------------------------------
// group

pub struct GroupWalk {
    pub fails: Vec<Fail>,
    /// bytes as written, except that an MLIQ size that is 8 short has been corrected
    pub effective: Vec<u8>,
    pub mliq_short: bool,
    /// header length under which the sub-chunks tile (68 = format, 36 = what the writer emits)
    pub header_len: Option<usize>,
    pub subchunks: Vec<Chunk>,
    pub mogp_data: usize,
}

fn tiles_known(b: &[u8], start: usize, end: usize) -> Option<Vec<Chunk>> {
    let ch = walk(b, start, end).ok()?;
    if ch.iter().all(|c| GROUP_SUBCHUNKS.contains(&c.name.as_str())) {
        Some(ch)
    } else {
        None
    }
}

fn put_v3(out: &mut Vec<u8>, v: &V3) {
    out.extend_from_slice(&v.0.to_le_bytes());
    out.extend_from_slice(&v.1.to_le_bytes());
    out.extend_from_slice(&v.2.to_le_bytes());
}

/// reference encodings of the sub-chunk payloads, from the format description
pub fn ref_payloads(c: &GroupCase) -> Vec<(&'static str, &'static str, Vec<u8>)> {
    let mut v = vec![];
    let mut movt = vec![];
    c.vertices.iter().for_each(|x| put_v3(&mut movt, x));
    v.push(("MOVT", "vertices", movt));
    let mut movi = vec![];
    c.indices.iter().for_each(|i| movi.extend_from_slice(&i.to_le_bytes()));
    v.push(("MOVI", "indices", movi));
    let mut monr = vec![];
    c.normals.iter().for_each(|x| put_v3(&mut monr, x));
    v.push(("MONR", "normals", monr));
    let mut motv = vec![];
    c.tex_coords.iter().for_each(|t| {
        motv.extend_from_slice(&t.0.to_le_bytes());
        motv.extend_from_slice(&t.1.to_le_bytes());
    });
    v.push(("MOTV", "texcoords", motv));
    let mut mocv = vec![];
    c.colors.iter().flatten().for_each(|x| mocv.extend_from_slice(&[x.b, x.g, x.r, x.a]));
    v.push(("MOCV", "colours", mocv));
    let mut moba = vec![];
    for b in &c.batches {
        moba.extend_from_slice(&b.flags); // 10 opaque bytes (bounding box in old clients)
        moba.extend_from_slice(&b.material_id.to_le_bytes()); // material_id_large
        moba.extend_from_slice(&b.start_index.to_le_bytes());
        moba.extend_from_slice(&b.count.to_le_bytes());
        moba.extend_from_slice(&b.start_vertex.to_le_bytes());
        moba.extend_from_slice(&b.end_vertex.to_le_bytes());
        moba.push(b.large as u8);
        moba.push(b.material_id as u8);
    }
    v.push(("MOBA", "batches", moba));
    v
}

pub fn judge_group(b: &[u8], c: &GroupCase) -> GroupWalk {
    let mut w = GroupWalk {
        fails: vec![],
        effective: b.to_vec(),
        mliq_short: false,
        header_len: None,
        subchunks: vec![],
        mogp_data: 0,
    };
    let top = match walk(b, 0, b.len()) {
        Ok(t) => t,
        Err(e) => {
            w.fails.push(Fail::new(
                "group-mogp-size-is-not-the-real-extent",
                format!("MVER + MOGP do not tile the file exactly: {e}"),
            ));
            return w;
        }
    };
    let names: Vec<&str> = top.iter().map(|c| c.name.as_str()).collect();
    if names.len() > 2 && names[..2] == ["MVER", "MOGP"] {
        w.fails.push(Fail::new(
            "group-mogp-size-is-not-the-real-extent",
            format!("MOGP size {} ends before the end of the file; trailing chunks {:?}", top[1].size, &names[2..]),
        ));
        return w;
    }
    if names != ["MVER", "MOGP"] || top[0].size != 4 {
        w.fails.push(Fail::new(
            "group-top-level-chunks",
            format!("top-level chunks are {names:?}, expected [MVER, MOGP]"),
        ));
        return w;
    }
    let want_raw = if c.version <= V_MOP { 17 } else { 18 + (c.version - V_WOD) as u32 };
    if u32at(b, top[0].data) != want_raw {
        w.fails.push(Fail::new("group-mver-value", format!("MVER holds {}", u32at(b, top[0].data))));
    }
    let mogp = &top[1];
    // back-patched size must be the real extent (guaranteed by exact top-level tiling)
    debug_assert_eq!(mogp.data + mogp.size, b.len());
    w.mogp_data = mogp.data;
    let end = mogp.data + mogp.size;
    // which sub-chunks the input calls for
    let mut expect: Vec<&str> = vec![];
    for (name, present) in [
        ("MOVT", !c.vertices.is_empty()),
        ("MOVI", !c.indices.is_empty()),
        ("MONR", !c.normals.is_empty()),
        ("MOTV", !c.tex_coords.is_empty()),
        ("MOCV", c.colors.as_ref().is_some_and(|x| !x.is_empty())),
        ("MOBA", !c.batches.is_empty()),
        ("MOBN", c.bsp.as_ref().is_some_and(|x| !x.is_empty())),
        ("MLIQ", c.liquid.is_some()),
        ("MODR", c.doodad_refs.as_ref().is_some_and(|x| !x.is_empty())),
    ] {
        if present {
            expect.push(name);
        }
    }
    expect.sort();
    // candidates: documented 68-byte header or the 36-byte one, MLIQ size as declared or +8
    let mut cands: Vec<(usize, bool, Vec<u8>, Vec<Chunk>)> = vec![];
    for hl in [68usize, 36] {
        if mogp.size < hl {
            continue;
        }
        if let Some(ch) = tiles_known(b, mogp.data + hl, end) {
            cands.push((hl, false, b.to_vec(), ch));
            continue;
        }
        // MLIQ declared 8 bytes short: find it by walking as far as the stream is consistent
        let mut p = mogp.data + hl;
        while end - p >= 8 {
            let size = u32at(b, p + 4) as usize;
            let name = magic_name(&b[p..p + 4]);
            if !GROUP_SUBCHUNKS.contains(&name.as_str()) || size > end - p - 8 {
                break;
            }
            if name == "MLIQ" && size + 8 <= end - p - 8 {
                let mut patched = b.to_vec();
                patched[p + 4..p + 8].copy_from_slice(&((size + 8) as u32).to_le_bytes());
                if let Some(ch) = tiles_known(&patched, mogp.data + hl, end) {
                    cands.push((hl, true, patched, ch));
                }
                break;
            }
            p += 8 + size;
        }
    }
    let set_of = |ch: &[Chunk]| {
        let mut v: Vec<String> = ch.iter().map(|c| c.name.clone()).collect();
        v.sort();
        v
    };
    let pick = cands
        .iter()
        .position(|x| set_of(&x.3) == expect)
        .or(if cands.is_empty() { None } else { Some(0) });
    let Some(pick) = pick else {
        w.fails.push(Fail::new(
            "group-mogp-subchunks-do-not-tile",
            format!("MOGP ({} bytes): sub-chunks tile neither after a 68-byte nor after a 36-byte header", mogp.size),
        ));
        return w;
    };
    let (hl, mliq_short, eff, ch) = cands.swap_remove(pick);
    if set_of(&ch) != expect {
        w.fails.push(Fail::new(
            "group-subchunk-set-differs-from-populated-lists",
            format!("sub-chunks {:?}, populated lists call for {:?}", set_of(&ch), expect),
        ));
    }
    w.header_len = Some(hl);
    w.subchunks = ch;
    w.mliq_short = mliq_short;
    if hl == 36 {
        w.fails.push(Fail::new(
            "group-mogp-header-written-with-36-bytes-instead-of-68",
            format!(
                "MOGP ({} bytes): sub-chunks tile only after a 36-byte header (nameOffset, flags, box, 2×u16); the format and the crate's own group parser use the 68-byte header",
                mogp.size
            ),
        ));
    }
    if mliq_short {
        w.fails.push(Fail::new(
            "group-mliq-size-field-8-bytes-short-of-the-written-data",
            "MLIQ declares 32 header bytes but 40 are written (type, flags, 2 dims, 6 floats): the sub-chunks after it no longer tile".to_string(),
        ));
    }
    w.effective = eff;
    let b = &w.effective.clone()[..];
    // header content where both layouts agree on meaning: with the 68-byte layout the fields are
    // groupName, descriptiveName, flags, box; the 36-byte layout is judged by the parser clause
    if w.header_len == Some(68) {
        let h = mogp.data;
        let bb = BBox {
            min: v3at(b, h + 12),
            max: v3at(b, h + 24),
        };
        if u32at(b, h) != c.name_offset || u32at(b, h + 8) != (c.flags & GRP_FLAG_MASK) || bb != c.bbox {
            w.fails.push(Fail::new(
                "group-mogp-header-fields",
                format!("MOGP header name {} flags {:#x} box {bb:?} differ from the input", u32at(b, h), u32at(b, h + 8)),
            ));
        }
    }
    // sub-chunk payloads vs reference encodings
    for (i, ch) in w.subchunks.iter().enumerate() {
        if w.subchunks[..i].iter().any(|o| o.name == ch.name) {
            w.fails.push(Fail::new("group-duplicate-subchunk", format!("{} occurs twice", ch.name)));
        }
    }
    for (name, what, want) in ref_payloads(c) {
        let got = payload(b, find(&w.subchunks, name));
        if got != &want[..] {
            let first = got.iter().zip(&want).position(|(a, b)| a != b).unwrap_or(got.len().min(want.len()));
            w.fails.push(Fail::new(
                format!("group-{}-payload-differs-from-format-encoding", name.to_lowercase()),
                format!("{name} ({what}): {} bytes written, {} expected, first difference at payload byte {first}", got.len(), want.len()),
            ));
        }
    }
    // MOBN: 16-byte records {u16 flags, i16 negChild, i16 posChild, u16 nFaces, u32 faceStart, f32 planeDist}
    let nodes: &[BspCase] = c.bsp.as_deref().unwrap_or(&[]);
    let mobn = payload(b, find(&w.subchunks, "MOBN"));
    if mobn.len() != 16 * nodes.len() {
        w.fails.push(Fail::new(
            "group-mobn-size",
            format!("MOBN {} bytes for {} nodes", mobn.len(), nodes.len()),
        ));
    } else {
        for (i, n) in nodes.iter().enumerate() {
            let r = 16 * i;
            let ok = u16at(mobn, r + 2) as i16 == n.children[0]
                && u16at(mobn, r + 4) as i16 == n.children[1]
                && u16at(mobn, r + 6) == n.num_faces
                && u32at(mobn, r + 8) == n.first_face as u32
                && u32at(mobn, r + 12) == n.dist
                && (n.axis > 2 || (u16at(mobn, r) & 3) == n.axis as u16);
            // a node without children is a leaf (CAaBspNode flag 0x4), whether or not it references faces
            if ok && n.children == [-1, -1] && u16at(mobn, r) & 0x4 == 0 {
                w.fails.push(Fail::new(
                    "group-mobn-childless-node-not-marked-as-leaf",
                    format!("BSP node {i} has no children and {} faces; flags {:#x} lack the leaf bit 0x4", n.num_faces, u16at(mobn, r)),
                ));
                break;
            }
            if !ok {
                w.fails.push(Fail::new(
                    "group-mobn-record-layout-differs-from-format",
                    format!(
                        "BSP node {i} (children {:?}, faces {}+{}, dist bits {:#x}, axis {}) is not found in the documented CAaBspNode slots: record {}",
                        n.children,
                        n.first_face,
                        n.num_faces,
                        n.dist,
                        n.axis,
                        hex::encode(&mobn[r..r + 16])
                    ),
                ));
                break;
            }
        }
    }
    match (find(&w.subchunks, "MLIQ"), &c.liquid) {
        (None, None) | (Some(_), Some(_)) => {}
        (a, _) => w.fails.push(Fail::new(
            "group-mliq-presence",
            format!("MLIQ present: {}, liquid given: {}", a.is_some(), c.liquid.is_some()),
        )),
    }
    w
}

/// rebuild the file with a 68-byte MOGP header (fields of the 36-byte header moved to their
/// documented slots) so that sub-chunk content can still be compared through `parse_wmo`
pub fn repair_group(w: &GroupWalk) -> Option<Vec<u8>> {
    if w.header_len != Some(36) {
        return None;
    }
    let b = &w.effective[..];
    let d = w.mogp_data;
    let old_size = u32at(b, d - 4);
    let mut out = b[..d - 4].to_vec();
    out.extend_from_slice(&(old_size + 32).to_le_bytes());
    out.extend_from_slice(&b[d..d + 4]); // groupName
    out.extend_from_slice(&0u32.to_le_bytes()); // descriptiveGroupName
    out.extend_from_slice(&b[d + 4..d + 32]); // flags + bounding box
    out.extend_from_slice(&[0u8; 32]); // portals, batch counts, fogs, liquid, id, flags2, split groups
    out.extend_from_slice(&b[d + 36..]);
    Some(out)
}
