//! C15 — WMO root and group files survive write→parse unchanged.
//!
//! Oracles: (1) `parse(write(x)) == x` through both parser generations of the crate,
//! (2) second write byte-identical, (3) an independent chunk walker written from the format
//! description (exact tiling, MOHD counts vs chunk/record sizes, string-offset resolution in
//! MOTX/MOGN/MODN, MOGP size back-patch, reference encodings of the group sub-chunks),
//! (4) conversion keeps the content and serialises like the native root/group of the target
//! version, (5) histories (`history.rs`): several roots / groups / conversions through one
//! WmoWriter / WmoParser / WmoGroupParser / WmoConverter object, every step judged against a fresh
//! object. All clauses are evaluated for every case; failures are collected per case.

mod history;
mod model;
mod oracle;
mod walk;

use model::*;
use oracle::Outcome;
use serde_json::{Value, json};
use vcheck::engine::{CaseResult, Check, Fail, pt};

/// defects that hit every root / every group whatever the generator does
const UNIVERSAL: [&str; 3] = [
    "root-mohd-written-with-60-bytes-flags-in-wmoid-slot",
    "group-legacy-parser-is-a-stub",
    "group-mogp-header-written-with-36-bytes-instead-of-68",
];

fn bookkeeping(check: &Check, o: &Outcome) {
    check.count(&o.class, o.nt);
    for n in &o.notes {
        check.bump(n, 1);
    }
    let kind = o.class.split(':').next().unwrap_or("?");
    if kind == "root" {
        let sw = if o.class.ends_with("tame1") { "roots_generated_with_exclusion_profile" } else { "roots_generated_without_exclusion_profile" };
        check.bump(sw, 1);
    }
    if o.fails.is_empty() {
        check.bump(&format!("clean_cases:{kind}"), 1);
    } else if o.fails.iter().all(|f| UNIVERSAL.contains(&f.signature.as_str())) {
        check.bump(&format!("cases_with_only_the_unavoidable_known_failures:{kind}"), 1);
    }
}

fn settle(check: &Check, o: Outcome) -> CaseResult {
    bookkeeping(check, &o);
    let mut first_new: Option<Fail> = None;
    let mut first_repeat: Option<Fail> = None;
    for f in o.fails {
        if check.is_known(&f.signature) {
            if !pt::suppressed() {
                check.known_hit(&f.signature, &f.message);
            }
        } else if check.already_reported(&f.signature) {
            first_repeat.get_or_insert(f);
        } else {
            first_new.get_or_insert(f);
        }
    }
    match first_new.or(first_repeat) {
        Some(f) => Err(f),
        None => Ok(()),
    }
}

/// grid cases: report every failure of the case (known ones are counted, new ones get a replay)
fn settle_grid(check: &Check, o: Outcome, case: Value) {
    bookkeeping(check, &o);
    for f in &o.fails {
        check.fail(f, case.clone());
    }
}

fn jroot(kind: &str, c: &RootCase) -> Value {
    json!({"kind": kind, "case": serde_json::to_value(c).unwrap()})
}
fn jseq(c: &history::SeqCase) -> Value {
    json!({"kind": "history", "case": serde_json::to_value(c).unwrap()})
}
fn jgroup(kind: &str, c: &GroupCase) -> Value {
    json!({"kind": kind, "case": serde_json::to_value(c).unwrap()})
}

/// smallest inputs for each avoidable known defect, evaluated first so that the replay file
/// recorded for a finding is the minimal one
fn minimal_canaries(check: &Check) {
    let name = |s: &str| GroupInfoCase {
        flags: 0,
        bbox: BBox::zero(),
        name: s.to_string(),
    };
    let mut roots: Vec<RootCase> = vec![];
    let mut c = grid_root(V_MOP, 0); // two groups with different names
    c.groups = vec![name("a"), name("b")];
    roots.push(c);
    let mut c = grid_root(0, 0); // two materials before MoP
    c.materials = grid_root(0, 2).materials[..2].to_vec();
    roots.push(c);
    let mut c = grid_root(V_WOTLK, 0); // skybox at a version-17 expansion
    c.skybox = Some("sky.mdx".into());
    roots.push(c);
    let mut c = grid_root(V_MOP, 0); // one doodad whose name offset is not 0
    c.doodad_defs = grid_root(V_MOP, 1).doodad_defs;
    c.doodad_defs[0].name_offset = 5;
    c.doodad_fixpoint = false;
    roots.push(c);
    let mut c = grid_root(V_MOP, 0); // header bounds that are not the union of (no) groups
    c.bounds = Some(BBox {
        min: V3::f(-1.0, -1.0, -1.0),
        max: V3::f(1.0, 1.0, 1.0),
    });
    roots.push(c);
    for c in roots {
        settle_grid(check, oracle::eval_root(&c), jroot("root", &c));
        check.bump("minimal_canaries", 1);
    }
    let mut g = grid_group(V_MOP, 0); // one BSP node
    g.bsp = Some(grid_group(V_MOP, 1).bsp.unwrap());
    settle_grid(check, oracle::eval_group(&g), jgroup("group", &g));
    let mut g = grid_group(V_MOP, 0); // 1×1 liquid followed by doodad references
    g.liquid = grid_group(V_MOP, 1).liquid;
    g.doodad_refs = Some(vec![7]);
    settle_grid(check, oracle::eval_group(&g), jgroup("group", &g));
    check.bump("minimal_canaries", 2);
}

fn grid(check: &Check) {
    minimal_canaries(check);
    // every version × {empty, one, many} for roots and groups
    for v in 0..VERSIONS.len() as u8 {
        for n in 0..3 {
            let c = grid_root(v, n);
            settle_grid(check, oracle::eval_root(&c), jroot("root", &c));
            let t = grid_root(v, n).tamed();
            settle_grid(check, oracle::eval_root(&t), jroot("root", &t));
            let g = grid_group(v, n);
            settle_grid(check, oracle::eval_group(&g), jgroup("group", &g));
        }
    }
    // all conversion pairs Classic..MoP (+ WoD and TWW as end points) on the populated cases
    let ends: Vec<u8> = vec![0, 1, 2, 3, 4, V_WOD, 10];
    for &a in &ends {
        for &b in &ends {
            let mut c = grid_root(a, 2);
            c.convert_to = b;
            c.materials.iter_mut().for_each(|m| m.flags |= 0x300);
            settle_grid(check, oracle::eval_conv_root(&c), jroot("conv-root", &c));
            let mut g = grid_group(a, 2);
            g.convert_to = b;
            g.flags |= 0x3C000;
            settle_grid(check, oracle::eval_conv_group(&g), jgroup("conv-group", &g));
        }
    }
    // canaries for regions the random generator stays out of
    let mut c = grid_root(V_MOP, 1);
    c.groups[0].name = String::new();
    c.tame = true;
    c.skybox = None;
    settle_grid(check, oracle::eval_root(&c), jroot("root", &c));
    check.bump("canary_empty_group_name", 1);
    let mut c = grid_root(V_MOP, 1);
    c.textures = vec!["t\u{e9}x.blp".to_string()];
    c.skybox = None;
    settle_grid(check, oracle::eval_root(&c), jroot("root", &c));
    check.bump("canary_non_ascii_texture", 1);
    let mut g = grid_group(V_MOP, 0);
    g.liquid = Some(LiqCase {
        ty: 1,
        flags: 0,
        w: 0,
        h: 0,
        verts: vec![],
        tiles: None,
    });
    settle_grid(check, oracle::eval_group(&g), jgroup("group", &g));
    check.bump("canary_empty_liquid_grid", 1);
    // histories: several files through one writer / parser / converter object
    for c in history::grid_cases() {
        settle_grid(check, history::eval_seq(&c), jseq(&c));
        check.bump("history_grid_cases", 1);
    }
}

fn replay(check: &Check, p: &std::path::Path) {
    let v: Value = serde_json::from_str(&std::fs::read_to_string(p).expect("replay file")).expect("json");
    let k = v["case"]["kind"].as_str().unwrap_or("").to_string();
    let body = v["case"]["case"].clone();
    let o = match k.as_str() {
        "root" => oracle::eval_root(&serde_json::from_value::<RootCase>(body).expect("root case")),
        "conv-root" => oracle::eval_conv_root(&serde_json::from_value::<RootCase>(body).expect("root case")),
        "group" => oracle::eval_group(&serde_json::from_value::<GroupCase>(body).expect("group case")),
        "conv-group" => oracle::eval_conv_group(&serde_json::from_value::<GroupCase>(body).expect("group case")),
        "history" => history::eval_seq(&serde_json::from_value::<history::SeqCase>(body).expect("history case")),
        other => {
            eprintln!("unknown replay kind {other:?}");
            std::process::exit(2)
        }
    };
    check.count(&o.class, true);
    check.count("replay", true);
    let want = v["signature"].as_str().unwrap_or("");
    for f in &o.fails {
        println!("  {}: {}", f.signature, vcheck::engine::truncate(&f.message, 300));
    }
    // report the recorded signature if it still fails, otherwise whatever fails
    let mut hit = false;
    for f in &o.fails {
        if f.signature == want {
            check.fail(f, v["case"].clone());
            hit = true;
        }
    }
    if !hit {
        for f in &o.fails {
            check.fail(f, v["case"].clone());
        }
    }
}

fn main() {
    let (check, _args) = Check::new("C15", "exploration");
    check.set_rule(
        "cases are plain-data WMO roots/groups (floats as bit patterns) built into the crate's WmoRoot/WmoGroup: \
         every list independently empty/one/few/many; texture, group and skybox names from a small pool so that \
         duplicates and shared prefixes occur, plus printable-ASCII and 200–300 character names; material texture \
         offsets and header counts set consistently; versions Classic..MoP (5/6 of the cases) and WoD..TWW; half of \
         the roots use the exclusion profile (`tame`) that avoids every avoidable known defect. A deterministic grid \
         (11 versions × empty/one/many × root/tamed root/group, 49 conversion pairs, 3 canaries) is independent of \
         the seed. non-trivial = root with ≥2 string tables (textures, group names, doodad definitions, doodad sets) \
         of ≥2 entries, or group with colours, BSP nodes or liquid, or a conversion between different versions of \
         such a case, or a history in which a root follows a root with another group-name / texture-table layout or \
         that holds ≥2 groups. Histories (kind `history`): 2–8 files (roots, groups, conversions) that all go through ONE \
         WmoWriter / WmoParser / WmoGroupParser / WmoConverter object, every step judged against a fresh object; grid = all \
         ordered pairs of 8 root shapes (no/one/many groups, same count with other name lengths, permuted, two more, two \
         fewer, other textures) at Classic and MoP, one exporter-like chain per version, a cross-version chain; random = a \
         root edited between writes (rename/add/remove/swap groups, textures, version) or replaced by an unrelated one, \
         with groups and conversions in between. distinct = version × size class (0/1/n) of every list × skybox × doodad-offset mode × bounds \
         mode × profile (roots), version × size class of every sub-chunk × liquid grid class (groups), from→to (conversions), step kinds × relations of consecutive string-table layouts (histories)",
    );
    check.assume("the chunk walker, record sizes and reference encodings are my transcription of the published WMO v17 description (wowdev.wiki): MOHD 64, MOMT 64, MOGI 32, MOPT 20, MOPR 8, MOLT 48, MODS 32, MODD 40, MOGP header 68, MOBA 24, MOBN 16 (flags, negChild, posChild, nFaces, faceStart, planeDist)");
    check.assume("input domain: flag fields use defined bits only; texture names non-empty; doodad-set names ≤19 ASCII bytes; visibility lists do not contain the in-band terminator 0xFFFF; liquid vertices = width×height, tile flags = (width-1)×(height-1); batches without the large-id flag have material ids < 256; NaN excluded; a skybox given to a version without a slot for one (pre-WotLK) is expected to be dropped completely by the writer");
    check.assume("fields the writer deliberately leaves out and the statement does not list are not compared: material framebuffer_blend, light spot/directional parameters, doodad set_index, group material list, MOGP portal/batch/fog fields, group doodad references");
    check.assume("legacy visibility lists (MOVV offsets + MOVB u16 runs) are the crate's private encoding; they are only compared through the legacy parser");
    check.assume("the property holds for every root and group whatever the writer / parser / converter object has been used for before: these are public values with &self methods and no documented single-use restriction, so the file a used object produces must be the file a fresh object produces");
    check.assume("where a known defect garbles everything downstream (MOMT size, MOHD size, MOGP header size) the remaining clauses are evaluated on a copy in which exactly that size/header was repaired by the harness; the defect itself is measured on the bytes as written");

    if let Some(p) = check.replay.clone() {
        replay(&check, &p);
        check.finish();
    }

    grid(&check);

    let max_v = (VERSIONS.len() - 1) as u8;
    let n_root = check.tier.pick(40_000u32, 1_200_000);
    pt::run(
        &check,
        "root",
        n_root,
        pt::Opts::default(),
        || root_strategy(max_v),
        |c| jroot("root", c),
        |c| {
            let o = oracle::eval_root(c);
            check.sample(&format!("root{}", c.version % 3), || json!({"kind":"root","class":o.class,"textures":c.textures.iter().take(4).collect::<Vec<_>>(),"groups":c.groups.iter().take(4).map(|g| &g.name).collect::<Vec<_>>(),"fails":o.fails.iter().map(|f| &f.signature).collect::<Vec<_>>()}));
            settle(&check, o)
        },
    );
    let n_group = check.tier.pick(25_000u32, 750_000);
    pt::run(
        &check,
        "group",
        n_group,
        pt::Opts::default(),
        || group_strategy(max_v),
        |c| jgroup("group", c),
        |c| {
            let o = oracle::eval_group(c);
            check.sample(&format!("group{}", c.version % 3), || json!({"kind":"group","class":o.class,"vertices":c.vertices.len(),"indices":c.indices.len(),"batches":c.batches.len(),"fails":o.fails.iter().map(|f| &f.signature).collect::<Vec<_>>()}));
            settle(&check, o)
        },
    );
    let n_conv = check.tier.pick(12_000u32, 360_000);
    pt::run(
        &check,
        "conv-root",
        n_conv,
        pt::Opts::default(),
        || root_strategy(max_v),
        |c| jroot("conv-root", c),
        |c| settle(&check, oracle::eval_conv_root(c)),
    );
    pt::run(
        &check,
        "conv-group",
        n_conv,
        pt::Opts::default(),
        || group_strategy(max_v),
        |c| jgroup("conv-group", c),
        |c| settle(&check, oracle::eval_conv_group(c)),
    );

    let n_hist = check.tier.pick(16_000u32, 480_000);
    pt::run(
        &check,
        "history",
        n_hist,
        pt::Opts::default(),
        || history::seq_strategy(max_v),
        jseq,
        |c| {
            let o = history::eval_seq(c);
            check.sample(&format!("history{}", c.steps.len() % 3), || json!({"kind":"history","class":o.class,"steps":c.kinds(),"fails":o.fails.iter().map(|f| &f.signature).collect::<Vec<_>>()}));
            settle(&check, o)
        },
    );

    // vacuity guards: essential classes must have been reached by construction
    for n in [
        "history_root_after_root_with_the_same_group_name_layout",
        "history_root_after_root_without_groups",
        "history_root_without_groups_after_root_with_groups",
        "history_root_after_root_with_as_many_groups_but_other_name_lengths",
        "history_root_after_root_with_fewer_groups",
        "history_root_after_root_with_more_groups",
        "history_root_after_root_with_another_texture_table_layout",
        "history_root_after_group",
        "history_group_after_root",
        "history_group_after_group",
        "history_conversion_with_a_used_converter_or_writer",
    ] {
        if check.counter(n) == 0 {
            check.inconclusive(&format!("essential history never generated: {n}"));
        }
    }
    if check.counter("clean_cases:history") == 0 {
        check.inconclusive("no history case passed");
    }
    for v in 0..=V_MOP {
        let name = VNAMES[v as usize];
        for (what, prefix) in [
            ("populated root", format!("root:{name}:tnmngnpnrnvnlndnsn")),
            ("empty root", format!("root:{name}:t0m0g0p0r0v0l0d0s0")),
            ("populated group", format!("group:{name}:vnnntnincnbnbspnliqnxn")),
            ("empty group", format!("group:{name}:v0n0t0i0c0b0bsp0liq-")),
        ] {
            if check.classes_with_prefix(&prefix) == 0 {
                check.inconclusive(&format!("essential class never generated: {what} for {name} ({prefix})"));
            }
        }
        for t in 0..=V_MOP {
            for k in ["conv-root", "conv-group"] {
                if check.class_count(&format!("{k}:{name}->{}", VNAMES[t as usize])) == 0 {
                    check.inconclusive(&format!("conversion pair never exercised: {k} {name}->{}", VNAMES[t as usize]));
                }
            }
        }
    }
    if check.counter("root_second_write_identical") == 0 {
        check.inconclusive("no root case reached the byte-identical second write (clause 2 vacuous)");
    }
    for kind in ["root", "group"] {
        if check.counter(&format!("clean_cases:{kind}")) + check.counter(&format!("cases_with_only_the_unavoidable_known_failures:{kind}")) == 0 {
            check.inconclusive(&format!("every {kind} case failed an avoidable clause (the exclusion profile does not work; an all-fail run is not a pass)"));
        }
    }
    for kind in ["conv-root", "conv-group"] {
        if check.counter(&format!("clean_cases:{kind}")) == 0 {
            check.inconclusive(&format!("no {kind} case passed"));
        }
    }
    check.set_extra(
        "exclusion_switches",
        json!({
            "tame_profile": "half of the random roots: doodad name offsets at the writer's fixed point (the other avoidable root defects were repaired in /repo)",
            "doodad_fixpoint": "independent switch (50%) for the doodad name offsets alone",
            "bounds": "75% union of group boxes, 25% arbitrary header bounds",
            "oracle_level": "MOMT size, MOHD size and MOGP header size are repaired in a copy so that the remaining clauses stay decidable; counters root_cases_evaluated_on_momt_patched_bytes / group_cases_compared_on_header_repaired_bytes",
            "canaries": ["empty group name", "non-ASCII texture name", "0×0 liquid grid", "non-tame random roots (pre-MoP materials, distinct group names, arbitrary doodad offsets, v17 skybox, arbitrary bounds)"]
        }),
    );
    check.finish();
}
