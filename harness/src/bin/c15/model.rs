//! Plain-data case model for C15 (fully materialised → replayable without proptest),
//! builders into the crate's types, proptest strategies and the deterministic grid.
//!
//! Floats are carried as raw `u32` bit patterns so that replay files are bit-exact.

use proptest::collection::vec;
use proptest::prelude::*;
use proptest::sample::select;
use serde::{Deserialize, Serialize};
use std::collections::HashMap;
use wow_wmo::types::{BoundingBox, Color, Vec3};
use wow_wmo::version::WmoVersion;
use wow_wmo::wmo_group_types::{
    TexCoord, WmoBatch, WmoBspNode, WmoGroup, WmoGroupFlags, WmoGroupHeader, WmoLiquid,
    WmoLiquidVertex, WmoPlane,
};
use wow_wmo::wmo_types::{
    WmoDoodadDef, WmoDoodadSet, WmoFlags, WmoGroupInfo, WmoHeader, WmoLight, WmoLightProperties,
    WmoLightType, WmoMaterial, WmoMaterialFlags, WmoPortal, WmoPortalReference, WmoRoot,
};

pub const VERSIONS: [WmoVersion; 11] = [
    WmoVersion::Classic,
    WmoVersion::Tbc,
    WmoVersion::Wotlk,
    WmoVersion::Cataclysm,
    WmoVersion::Mop,
    WmoVersion::Wod,
    WmoVersion::Legion,
    WmoVersion::Bfa,
    WmoVersion::Shadowlands,
    WmoVersion::Dragonflight,
    WmoVersion::WarWithin,
];
pub const VNAMES: [&str; 11] = [
    "classic", "tbc", "wotlk", "cata", "mop", "wod", "legion", "bfa", "sl", "df", "tww",
];
pub const V_WOTLK: u8 = 2;
pub const V_CATA: u8 = 3;
pub const V_MOP: u8 = 4;
pub const V_WOD: u8 = 5;
pub const V_LEGION: u8 = 6;

pub const HDR_FLAG_MASK: u32 = 0x3FF;
pub const HAS_SKYBOX: u32 = 0x20;
pub const MAT_FLAG_MASK: u32 = 0xFFF;
pub const GRP_FLAG_MASK: u32 = 0x3FFFF;

#[derive(Debug, Clone, Copy, PartialEq, Eq, Serialize, Deserialize)]
pub struct V3(pub u32, pub u32, pub u32);
impl V3 {
    pub fn v(self) -> Vec3 {
        Vec3 {
            x: f32::from_bits(self.0),
            y: f32::from_bits(self.1),
            z: f32::from_bits(self.2),
        }
    }
    pub fn of(v: &Vec3) -> V3 {
        V3(v.x.to_bits(), v.y.to_bits(), v.z.to_bits())
    }
    pub fn f(x: f32, y: f32, z: f32) -> V3 {
        V3(x.to_bits(), y.to_bits(), z.to_bits())
    }
}

#[derive(Debug, Clone, Copy, PartialEq, Eq, Serialize, Deserialize)]
pub struct Col {
    pub r: u8,
    pub g: u8,
    pub b: u8,
    pub a: u8,
}
impl Col {
    pub fn c(self) -> Color {
        Color {
            r: self.r,
            g: self.g,
            b: self.b,
            a: self.a,
        }
    }
    pub fn of(c: &Color) -> Col {
        Col {
            r: c.r,
            g: c.g,
            b: c.b,
            a: c.a,
        }
    }
}

#[derive(Debug, Clone, Copy, PartialEq, Eq, Serialize, Deserialize)]
pub struct BBox {
    pub min: V3,
    pub max: V3,
}
impl BBox {
    pub fn b(self) -> BoundingBox {
        BoundingBox {
            min: self.min.v(),
            max: self.max.v(),
        }
    }
    pub fn of(b: &BoundingBox) -> BBox {
        BBox {
            min: V3::of(&b.min),
            max: V3::of(&b.max),
        }
    }
    pub fn zero() -> BBox {
        BBox {
            min: V3(0, 0, 0),
            max: V3(0, 0, 0),
        }
    }
}

#[derive(Debug, Clone, Serialize, Deserialize)]
pub struct MatCase {
    pub flags: u32,
    pub shader: u32,
    pub blend: u32,
    /// selector of the texture the material refers to (monotone map onto `textures`)
    pub tex1_sel: u16,
    pub tex2_sel: u16,
    pub emissive: Col,
    pub sidn: Col,
    pub diffuse: Col,
    pub ground: u32,
}

#[derive(Debug, Clone, Serialize, Deserialize)]
pub struct GroupInfoCase {
    pub flags: u32,
    pub bbox: BBox,
    pub name: String,
}

#[derive(Debug, Clone, Serialize, Deserialize)]
pub struct PortalCase {
    pub verts: Vec<V3>,
    pub normal: V3,
}

#[derive(Debug, Clone, Serialize, Deserialize)]
pub struct LightCase {
    pub ty: u8,
    pub pos: V3,
    pub color: Col,
    pub intensity: u32,
    pub rot: [u32; 4],
    pub att_start: u32,
    pub att_end: u32,
    pub use_att: bool,
}

#[derive(Debug, Clone, Serialize, Deserialize)]
pub struct DoodadCase {
    /// only used when `doodad_fixpoint` is false
    pub name_offset: u32,
    pub pos: V3,
    pub orient: [u32; 4],
    pub scale: u32,
    pub color: Col,
}

#[derive(Debug, Clone, Serialize, Deserialize)]
pub struct SetCase {
    pub name: String,
    pub start: u32,
    pub n: u32,
}

#[derive(Debug, Clone, Serialize, Deserialize)]
pub struct RootCase {
    pub version: u8,
    pub textures: Vec<String>,
    pub materials: Vec<MatCase>,
    pub groups: Vec<GroupInfoCase>,
    pub portals: Vec<PortalCase>,
    pub portal_refs: Vec<(u16, u16, u16)>,
    pub vis_lists: Vec<Vec<u16>>,
    pub lights: Vec<LightCase>,
    pub doodad_defs: Vec<DoodadCase>,
    /// exclusion switch: name offsets are the ones the writer's synthetic MODN produces
    pub doodad_fixpoint: bool,
    pub doodad_sets: Vec<SetCase>,
    pub skybox: Option<String>,
    pub flags: u32,
    pub ambient: Col,
    /// None = header bounds are the union of the group boxes (what the editor maintains)
    pub bounds: Option<BBox>,
    pub convert_to: u8,
    /// generator bookkeeping only (which exclusion profile produced the case)
    pub tame: bool,
}

/// Everything the oracle needs that is derived from the case by rules of the format
pub struct RootDerived {
    /// dense MOTX packing: offset of texture i
    pub tex_offsets: Vec<u32>,
    /// per material: (offset1, intended index1, offset2, intended index2)
    pub mat_tex: Vec<(u32, Option<usize>, u32, Option<usize>)>,
    /// dense MOGN packing: offset of group name i
    pub name_offsets: Vec<u32>,
    pub doodad_offsets: Vec<u32>,
    pub bounds: BBox,
    pub bounds_is_union: bool,
    pub flags: u32,
    pub skybox: Option<String>,
}

fn dense_offsets(strings: impl Iterator<Item = usize>) -> Vec<u32> {
    let mut o = 0u32;
    let mut out = vec![];
    for l in strings {
        out.push(o);
        o += l as u32 + 1;
    }
    out
}

pub fn pick_idx(sel: u16, len: usize) -> usize {
    ((sel as usize) * len) >> 16
}

/// the name offsets at which `write_doodad_definitions`'s synthetic names land when fed back
pub fn doodad_fixpoint_offsets(n: usize) -> Vec<u32> {
    let mut o = 0u32;
    let mut out = vec![];
    for _ in 0..n {
        out.push(o);
        o += format!("doodad_{o}").len() as u32 + 1;
    }
    out
}

/// union of group boxes with the formula the editor uses (`recalculate_global_bounding_box`)
pub fn union_bounds(groups: &[GroupInfoCase]) -> BBox {
    if groups.is_empty() {
        return BBox::zero();
    }
    let mut mn = [f32::MAX; 3];
    let mut mx = [f32::MIN; 3];
    for g in groups {
        let a = g.bbox.min.v();
        let b = g.bbox.max.v();
        mn[0] = mn[0].min(a.x);
        mn[1] = mn[1].min(a.y);
        mn[2] = mn[2].min(a.z);
        mx[0] = mx[0].max(b.x);
        mx[1] = mx[1].max(b.y);
        mx[2] = mx[2].max(b.z);
    }
    BBox {
        min: V3::f(mn[0], mn[1], mn[2]),
        max: V3::f(mx[0], mx[1], mx[2]),
    }
}

impl RootCase {
    pub fn derive(&self) -> RootDerived {
        let tex_offsets = dense_offsets(self.textures.iter().map(|s| s.len()));
        let name_offsets = dense_offsets(self.groups.iter().map(|g| g.name.len()));
        let mat_tex = self
            .materials
            .iter()
            .map(|m| {
                if self.textures.is_empty() {
                    (0, None, 0, None)
                } else {
                    let i1 = pick_idx(m.tex1_sel, self.textures.len());
                    let i2 = pick_idx(m.tex2_sel, self.textures.len());
                    (tex_offsets[i1], Some(i1), tex_offsets[i2], Some(i2))
                }
            })
            .collect();
        let doodad_offsets = if self.doodad_fixpoint {
            doodad_fixpoint_offsets(self.doodad_defs.len())
        } else {
            self.doodad_defs.iter().map(|d| d.name_offset & 0x00FF_FFFF).collect()
        };
        let skybox = if self.version >= V_WOTLK {
            self.skybox.clone()
        } else {
            None
        };
        let mut flags = self.flags & HDR_FLAG_MASK & !HAS_SKYBOX;
        if skybox.is_some() {
            flags |= HAS_SKYBOX;
        }
        let (bounds, bounds_is_union) = match self.bounds {
            Some(b) => (b, false),
            None => (union_bounds(&self.groups), true),
        };
        RootDerived {
            tex_offsets,
            mat_tex,
            name_offsets,
            doodad_offsets,
            bounds,
            bounds_is_union,
            flags,
            skybox,
        }
    }

    pub fn build(&self, d: &RootDerived) -> WmoRoot {
        let mut map = HashMap::new();
        for (i, o) in d.tex_offsets.iter().enumerate() {
            map.insert(*o, i as u32);
        }
        WmoRoot {
            version: VERSIONS[self.version as usize],
            materials: self
                .materials
                .iter()
                .zip(&d.mat_tex)
                .map(|(m, t)| WmoMaterial {
                    flags: WmoMaterialFlags::from_bits_truncate(m.flags & MAT_FLAG_MASK),
                    shader: m.shader,
                    blend_mode: m.blend,
                    texture1: t.0,
                    emissive_color: m.emissive.c(),
                    sidn_color: m.sidn.c(),
                    framebuffer_blend: Color::default(),
                    texture2: t.2,
                    diffuse_color: m.diffuse.c(),
                    ground_type: m.ground,
                })
                .collect(),
            groups: self
                .groups
                .iter()
                .map(|g| WmoGroupInfo {
                    flags: WmoGroupFlags::from_bits_truncate(g.flags & GRP_FLAG_MASK),
                    bounding_box: g.bbox.b(),
                    name: g.name.clone(),
                })
                .collect(),
            portals: self
                .portals
                .iter()
                .map(|p| WmoPortal {
                    vertices: p.verts.iter().map(|v| v.v()).collect(),
                    normal: p.normal.v(),
                })
                .collect(),
            portal_references: self
                .portal_refs
                .iter()
                .map(|r| WmoPortalReference {
                    portal_index: r.0,
                    group_index: r.1,
                    side: r.2,
                })
                .collect(),
            visible_block_lists: self.vis_lists.clone(),
            lights: self.lights.iter().map(build_light).collect(),
            doodad_defs: self
                .doodad_defs
                .iter()
                .zip(&d.doodad_offsets)
                .map(|(x, o)| WmoDoodadDef {
                    name_offset: *o,
                    position: x.pos.v(),
                    orientation: x.orient.map(f32::from_bits),
                    scale: f32::from_bits(x.scale),
                    color: x.color.c(),
                    set_index: 0,
                })
                .collect(),
            doodad_sets: self
                .doodad_sets
                .iter()
                .map(|s| WmoDoodadSet {
                    name: s.name.clone(),
                    start_doodad: s.start,
                    n_doodads: s.n,
                })
                .collect(),
            bounding_box: d.bounds.b(),
            textures: self.textures.clone(),
            texture_offset_index_map: map,
            header: WmoHeader {
                n_materials: self.materials.len() as u32,
                n_groups: self.groups.len() as u32,
                n_portals: self.portals.len() as u32,
                n_lights: self.lights.len() as u32,
                n_doodad_names: self.doodad_defs.len() as u32,
                n_doodad_defs: self.doodad_defs.len() as u32,
                n_doodad_sets: self.doodad_sets.len() as u32,
                flags: WmoFlags::from_bits_truncate(d.flags),
                ambient_color: self.ambient.c(),
            },
            // the value handed to the writer keeps a skybox even where the target version has no
            // slot for one (the writer must drop it completely: no flag *and* no MOSB chunk); the
            // expectation `d.skybox` is None there
            skybox: self.skybox.clone(),
            convex_volume_planes: None,
        }
    }

    /// steer around every known root defect that a generator can avoid (exclusion profile)
    pub fn tamed(mut self) -> RootCase {
        self.tame = true;
        // MOMT size, MOGI name offsets, v17 skybox, header bounds and non-ASCII texture names were
        // repaired in /repo: only the doodad-name finding is still steered around
        self.doodad_fixpoint = true;
        self
    }

    pub fn class(&self) -> (String, bool) {
        fn sc(n: usize) -> &'static str {
            match n {
                0 => "0",
                1 => "1",
                _ => "n",
            }
        }
        let tables = [
            self.textures.len(),
            self.groups.len(),
            self.doodad_defs.len(),
            self.doodad_sets.len(),
        ]
        .iter()
        .filter(|n| **n >= 2)
        .count();
        let nt = tables >= 2;
        (
            format!(
                "root:{}:t{}m{}g{}p{}r{}v{}l{}d{}s{}:sky{}:dfx{}:bnd{}:tame{}",
                VNAMES[self.version as usize],
                sc(self.textures.len()),
                sc(self.materials.len()),
                sc(self.groups.len()),
                sc(self.portals.len()),
                sc(self.portal_refs.len()),
                sc(self.vis_lists.len()),
                sc(self.lights.len()),
                sc(self.doodad_defs.len()),
                sc(self.doodad_sets.len()),
                self.skybox.is_some() as u8,
                self.doodad_fixpoint as u8,
                self.bounds.is_some() as u8,
                self.tame as u8
            ),
            nt,
        )
    }
}

pub fn build_light(l: &LightCase) -> WmoLight {
    let ty = match l.ty & 3 {
        0 => WmoLightType::Omni,
        1 => WmoLightType::Spot,
        2 => WmoLightType::Directional,
        _ => WmoLightType::Ambient,
    };
    let down = Vec3 {
        x: 0.0,
        y: 0.0,
        z: -1.0,
    };
    WmoLight {
        light_type: ty,
        position: l.pos.v(),
        color: l.color.c(),
        intensity: f32::from_bits(l.intensity),
        rotation: l.rot.map(f32::from_bits),
        attenuation_start: f32::from_bits(l.att_start),
        attenuation_end: f32::from_bits(l.att_end),
        use_attenuation: l.use_att,
        properties: match ty {
            WmoLightType::Omni => WmoLightProperties::Omni,
            WmoLightType::Spot => WmoLightProperties::Spot {
                direction: down,
                hotspot: 0.0,
                falloff: 0.0,
            },
            WmoLightType::Directional => WmoLightProperties::Directional { direction: down },
            WmoLightType::Ambient => WmoLightProperties::Ambient,
        },
    }
}

// ---------------------------------------------------------------------------------------
// group

#[derive(Debug, Clone, Serialize, Deserialize)]
pub struct BatchCase {
    pub flags: [u8; 10],
    pub material_id: u16,
    pub start_index: u32,
    pub count: u16,
    pub start_vertex: u16,
    pub end_vertex: u16,
    pub large: bool,
}

#[derive(Debug, Clone, Serialize, Deserialize)]
pub struct BspCase {
    /// 0,1,2 = plane orthogonal to x,y,z (the only planes MOBN can represent); 3 = `normal` as is
    pub axis: u8,
    pub neg: bool,
    pub normal: V3,
    pub dist: u32,
    pub children: [i16; 2],
    pub first_face: u16,
    pub num_faces: u16,
}
impl BspCase {
    pub fn normal(&self) -> V3 {
        let s = if self.neg { -1.0f32 } else { 1.0 };
        match self.axis {
            0 => V3::f(s, 0.0, 0.0),
            1 => V3::f(0.0, s, 0.0),
            2 => V3::f(0.0, 0.0, s),
            _ => self.normal,
        }
    }
}

#[derive(Debug, Clone, Serialize, Deserialize)]
pub struct LiqCase {
    pub ty: u32,
    pub flags: u32,
    pub w: u32,
    pub h: u32,
    /// w*h entries: (position, height)
    pub verts: Vec<(V3, u32)>,
    /// (w-1)*(h-1) entries when present
    pub tiles: Option<Vec<u8>>,
}

#[derive(Debug, Clone, Serialize, Deserialize)]
pub struct GroupCase {
    pub version: u8,
    pub flags: u32,
    pub bbox: BBox,
    pub name_offset: u32,
    pub group_index: u16,
    pub vertices: Vec<V3>,
    pub normals: Vec<V3>,
    pub tex_coords: Vec<(u32, u32)>,
    pub indices: Vec<u16>,
    pub colors: Option<Vec<Col>>,
    pub batches: Vec<BatchCase>,
    pub bsp: Option<Vec<BspCase>>,
    pub liquid: Option<LiqCase>,
    pub doodad_refs: Option<Vec<u16>>,
    pub convert_to: u8,
}

impl GroupCase {
    pub fn build(&self) -> WmoGroup {
        WmoGroup {
            header: WmoGroupHeader {
                flags: WmoGroupFlags::from_bits_truncate(self.flags & GRP_FLAG_MASK),
                bounding_box: self.bbox.b(),
                name_offset: self.name_offset,
                group_index: self.group_index as u32,
            },
            materials: vec![],
            vertices: self.vertices.iter().map(|v| v.v()).collect(),
            normals: self.normals.iter().map(|v| v.v()).collect(),
            tex_coords: self
                .tex_coords
                .iter()
                .map(|t| TexCoord {
                    u: f32::from_bits(t.0),
                    v: f32::from_bits(t.1),
                })
                .collect(),
            batches: self
                .batches
                .iter()
                .map(|b| WmoBatch {
                    flags: b.flags,
                    material_id: b.material_id,
                    start_index: b.start_index,
                    count: b.count,
                    start_vertex: b.start_vertex,
                    end_vertex: b.end_vertex,
                    use_large_material_id: b.large,
                })
                .collect(),
            indices: self.indices.clone(),
            vertex_colors: self
                .colors
                .as_ref()
                .map(|c| c.iter().map(|x| x.c()).collect()),
            bsp_nodes: self.bsp.as_ref().map(|n| {
                n.iter()
                    .map(|b| WmoBspNode {
                        plane: WmoPlane {
                            normal: b.normal().v(),
                            distance: f32::from_bits(b.dist),
                        },
                        children: b.children,
                        first_face: b.first_face,
                        num_faces: b.num_faces,
                    })
                    .collect()
            }),
            liquid: self.liquid.as_ref().map(|l| WmoLiquid {
                liquid_type: l.ty,
                flags: l.flags,
                width: l.w,
                height: l.h,
                vertices: l
                    .verts
                    .iter()
                    .map(|(p, h)| WmoLiquidVertex {
                        position: p.v(),
                        height: f32::from_bits(*h),
                    })
                    .collect(),
                tile_flags: l.tiles.clone(),
            }),
            doodad_refs: self.doodad_refs.clone(),
        }
    }

    pub fn class(&self) -> (String, bool) {
        fn sc(n: usize) -> &'static str {
            match n {
                0 => "0",
                1 => "1",
                _ => "n",
            }
        }
        let col = self.colors.as_ref().map(|c| c.len()).unwrap_or(0);
        let bsp = self.bsp.as_ref().map(|c| c.len()).unwrap_or(0);
        let nt = col > 0 || bsp > 0 || self.liquid.is_some();
        (
            format!(
                "group:{}:v{}n{}t{}i{}c{}b{}bsp{}liq{}{}",
                VNAMES[self.version as usize],
                sc(self.vertices.len()),
                sc(self.normals.len()),
                sc(self.tex_coords.len()),
                sc(self.indices.len()),
                sc(col),
                sc(self.batches.len()),
                sc(bsp),
                match &self.liquid {
                    None => "-".to_string(),
                    Some(l) => format!("{}x{}", sc(l.w as usize), sc(l.h as usize)),
                },
                match self.liquid.as_ref().and_then(|l| l.tiles.as_ref()) {
                    Some(_) => "T",
                    None => "",
                }
            ),
            nt,
        )
    }
}

// ---------------------------------------------------------------------------------------
// strategies

pub fn no_nan(b: u32) -> u32 {
    if (b & 0x7F80_0000) == 0x7F80_0000 && (b & 0x007F_FFFF) != 0 {
        b & 0xFF80_0000
    } else {
        b
    }
}

pub fn fbits() -> impl Strategy<Value = u32> + Clone {
    prop_oneof![
        4 => select(vec![0.0f32, 1.0, -1.0, 0.5, 2.0, 100.0, -533.333_3, 17066.666, 0.7071068])
            .prop_map(|f| f.to_bits()),
        3 => (-4000i32..4000).prop_map(|i| (i as f32 * 0.25).to_bits()),
        2 => any::<u32>().prop_map(no_nan),
        1 => select(vec![
            (-0.0f32).to_bits(),
            1u32,
            0x8000_0001,
            f32::MAX.to_bits(),
            f32::MIN.to_bits(),
            f32::INFINITY.to_bits(),
            f32::NEG_INFINITY.to_bits(),
            f32::MIN_POSITIVE.to_bits(),
        ]),
    ]
}

pub fn v3() -> impl Strategy<Value = V3> + Clone {
    (fbits(), fbits(), fbits()).prop_map(|(a, b, c)| V3(a, b, c))
}
pub fn col() -> impl Strategy<Value = Col> + Clone {
    any::<[u8; 4]>().prop_map(|x| Col {
        r: x[0],
        g: x[1],
        b: x[2],
        a: x[3],
    })
}
pub fn bbox() -> impl Strategy<Value = BBox> + Clone {
    (v3(), v3()).prop_map(|(min, max)| BBox { min, max })
}

/// empty / one / few / many
pub fn list<S>(e: S, max: usize) -> impl Strategy<Value = Vec<S::Value>> + Clone
where
    S: Strategy + Clone,
    S::Value: std::fmt::Debug,
{
    prop_oneof![
        2 => vec(e.clone(), 0..=0),
        2 => vec(e.clone(), 1..=1),
        4 => vec(e.clone(), 2..=4),
        1 => vec(e, 5..=max),
    ]
}

/// path-like ASCII strings drawn from a small pool so that duplicates and shared prefixes occur
pub fn path_string() -> impl Strategy<Value = String> + Clone {
    prop_oneof![
        6 => (
            select(vec!["", "a", "ab", "tex\\", "World\\wmo\\", "World\\wmo\\Dungeon\\"]),
            "[a-c]{0,3}",
            select(vec!["", ".blp", "_01.blp", ".mdx"])
        )
            .prop_map(|(p, s, x)| {
                let r = format!("{p}{s}{x}");
                if r.is_empty() { "x".to_string() } else { r }
            }),
        2 => "[ -~]{1,40}",
        1 => "[A-Za-z0-9_\\\\]{200,300}",
    ]
}

fn u32ish() -> impl Strategy<Value = u32> + Clone {
    prop_oneof![3 => 0u32..8, 1 => any::<u32>()]
}
fn u16ish() -> impl Strategy<Value = u16> + Clone {
    prop_oneof![3 => 0u16..8, 1 => any::<u16>()]
}

fn mat() -> impl Strategy<Value = MatCase> + Clone {
    (
        any::<u32>(),
        u32ish(),
        u32ish(),
        any::<u16>(),
        any::<u16>(),
        col(),
        col(),
        col(),
        u32ish(),
    )
        .prop_map(|(flags, shader, blend, t1, t2, e, s, d, ground)| MatCase {
            flags: flags & MAT_FLAG_MASK,
            shader,
            blend,
            tex1_sel: t1,
            tex2_sel: t2,
            emissive: e,
            sidn: s,
            diffuse: d,
            ground,
        })
}

fn light() -> impl Strategy<Value = LightCase> + Clone {
    (
        0u8..4,
        v3(),
        col(),
        fbits(),
        [fbits(), fbits(), fbits(), fbits()],
        fbits(),
        fbits(),
        any::<bool>(),
    )
        .prop_map(|(ty, pos, color, intensity, rot, a, b, use_att)| LightCase {
            ty,
            pos,
            color,
            intensity,
            rot,
            att_start: a,
            att_end: b,
            use_att,
        })
}

fn doodad() -> impl Strategy<Value = DoodadCase> + Clone {
    (
        prop_oneof![2 => 0u32..64, 1 => 0u32..0x0100_0000],
        v3(),
        [fbits(), fbits(), fbits(), fbits()],
        fbits(),
        col(),
    )
        .prop_map(|(name_offset, pos, orient, scale, color)| DoodadCase {
            name_offset,
            pos,
            orient,
            scale,
            color,
        })
}

pub fn root_strategy(max_version: u8) -> impl Strategy<Value = RootCase> {
    let lists = (
        list(path_string(), 24),
        list(mat(), 12),
        list(
            (any::<u32>(), bbox(), path_string()).prop_map(|(f, bbox, name)| GroupInfoCase {
                flags: f & GRP_FLAG_MASK,
                bbox,
                name,
            }),
            24,
        ),
        list(
            (list(v3(), 8), v3()).prop_map(|(verts, normal)| PortalCase { verts, normal }),
            12,
        ),
        list((u16ish(), u16ish(), prop_oneof![0u16..2, any::<u16>()]), 30),
        list(list(prop_oneof![0u16..16, 0u16..0xFFFF], 20), 12),
        list(light(), 12),
        list(doodad(), 24),
        list(
            // 20-byte name field: ASCII up to 19 characters, or names with two-byte UTF-8 letters up to 18 bytes
            (prop_oneof![4 => "[A-Za-z0-9_$ ]{0,19}", 1 => "[A-Za-z_]{0,3}[äöüéèÄßñÐĀ][a-zäé0-9]{0,5}"], u32ish(), u32ish())
                .prop_map(|(name, start, n)| SetCase { name, start, n }),
            8,
        ),
    );
    let rest = (
        prop_oneof![5 => 0u8..=V_MOP, 1 => V_WOD..=max_version.max(V_WOD)],
        proptest::option::weighted(0.4, path_string()),
        any::<u32>(),
        col(),
        proptest::option::weighted(0.25, bbox()),
        any::<bool>(),
        0u8..=max_version,
        any::<bool>(),
    );
    (lists, rest).prop_map(move |(l, r)| {
        let c = RootCase {
            version: r.0.min(max_version),
            textures: l.0,
            materials: l.1,
            groups: l.2,
            portals: l.3,
            portal_refs: l.4,
            vis_lists: l.5,
            lights: l.6,
            doodad_defs: l.7,
            doodad_fixpoint: r.5,
            doodad_sets: l.8,
            skybox: r.1,
            flags: r.2 & HDR_FLAG_MASK,
            ambient: r.3,
            bounds: r.4,
            convert_to: r.6,
            tame: false,
        };
        if r.7 { c.tamed() } else { c }
    })
}

fn batch() -> impl Strategy<Value = BatchCase> + Clone {
    (
        any::<[u8; 10]>(),
        any::<u16>(),
        u32ish(),
        u16ish(),
        u16ish(),
        u16ish(),
        any::<bool>(),
    )
        .prop_map(|(flags, m, start_index, count, sv, ev, large)| BatchCase {
            flags,
            // without the "large id" flag only the 8-bit id field carries the material
            material_id: if large { m } else { m & 0xFF },
            start_index,
            count,
            start_vertex: sv,
            end_vertex: ev,
            large,
        })
}

fn bsp_node() -> impl Strategy<Value = BspCase> + Clone {
    (
        prop_oneof![6 => 0u8..3, 1 => Just(3u8)],
        any::<bool>(),
        v3(),
        fbits(),
        [prop_oneof![Just(-1i16), 0i16..64, any::<i16>()], prop_oneof![Just(-1i16), 0i16..64, any::<i16>()]],
        u16ish(),
        u16ish(),
    )
        .prop_map(|(axis, neg, normal, dist, children, first_face, num_faces)| BspCase {
            axis,
            neg,
            normal,
            dist,
            children,
            first_face,
            num_faces,
        })
}

fn liquid() -> impl Strategy<Value = LiqCase> {
    (1u32..=6, 1u32..=6, u32ish(), u32ish(), any::<bool>())
        .prop_flat_map(|(w, h, ty, flags, tiles)| {
            let n = (w * h) as usize;
            let nt = ((w - 1) * (h - 1)) as usize;
            (
                vec((v3(), fbits()), n..=n),
                vec(any::<u8>(), nt..=nt),
                Just((w, h, ty, flags, tiles)),
            )
        })
        .prop_map(|(verts, tiles, (w, h, ty, flags, has_tiles))| LiqCase {
            ty,
            flags,
            w,
            h,
            verts,
            tiles: if has_tiles { Some(tiles) } else { None },
        })
}

pub fn group_strategy(max_version: u8) -> impl Strategy<Value = GroupCase> {
    let nverts = prop_oneof![2 => Just(0usize), 2 => Just(1usize), 4 => 2usize..=6, 1 => 7usize..=120];
    (nverts, any::<[bool; 3]>(), prop_oneof![Just(0usize), Just(1usize), 2usize..=20])
        .prop_flat_map(move |(n, present, ntri)| {
            let nn = if present[0] { n } else { 0 };
            let nt = if present[1] { n } else { 0 };
            let nc = if present[2] { n } else { 0 };
            let ni = if n == 0 { 0 } else { ntri * 3 };
            let hi = n.max(1) as u16;
            let geom = (
                vec(v3(), n..=n),
                vec(v3(), nn..=nn),
                vec((fbits(), fbits()), nt..=nt),
                vec(0u16..hi, ni..=ni),
                vec(col(), nc..=nc),
                Just(present[2]),
            );
            let rest = (
                list(batch(), 12),
                proptest::option::weighted(0.6, list(bsp_node(), 40)),
                proptest::option::weighted(0.5, liquid()),
                proptest::option::weighted(0.4, list(u16ish(), 12)),
                prop_oneof![5 => 0u8..=V_MOP, 1 => V_WOD..=max_version.max(V_WOD)],
                0u8..=max_version,
                (any::<u32>(), bbox(), u32ish(), u16ish()),
            );
            (geom, rest)
        })
        .prop_map(move |(g, r)| GroupCase {
            version: r.4.min(max_version),
            flags: r.6.0 & GRP_FLAG_MASK,
            bbox: r.6.1,
            name_offset: r.6.2,
            group_index: r.6.3,
            vertices: g.0,
            normals: g.1,
            tex_coords: g.2,
            indices: g.3,
            colors: if g.5 { Some(g.4) } else { None },
            batches: r.0,
            bsp: r.1,
            liquid: r.2,
            doodad_refs: r.3,
            convert_to: r.5,
        })
}

// ---------------------------------------------------------------------------------------
// deterministic grid (essential classes by construction; independent of VERIF_SEED)

fn fv(i: usize) -> u32 {
    ((i as f32) * 1.5 - 7.25).to_bits()
}
fn gv3(i: usize) -> V3 {
    V3(fv(i), fv(i + 1), fv(i + 2))
}
fn gcol(i: usize) -> Col {
    Col {
        r: (i * 37 + 1) as u8,
        g: (i * 59 + 2) as u8,
        b: (i * 83 + 3) as u8,
        a: (i * 101 + 4) as u8,
    }
}

/// n = 0, 1 or "many" entries in every list
pub fn grid_root(version: u8, n: usize) -> RootCase {
    let names = ["World\\wmo\\a.blp", "World\\wmo\\ab.blp", "World\\wmo\\a.blp", "b", "ab"];
    let k = |many: usize| match n {
        0 => 0,
        1 => 1,
        _ => many,
    };
    RootCase {
        version,
        textures: (0..k(5)).map(|i| names[i % 5].to_string()).collect(),
        materials: (0..k(3))
            .map(|i| MatCase {
                flags: (0x15 << i) & MAT_FLAG_MASK,
                shader: i as u32,
                blend: 1 + i as u32,
                tex1_sel: (i * 20000) as u16,
                tex2_sel: (65535 - i * 20000) as u16,
                emissive: gcol(i),
                sidn: gcol(i + 10),
                diffuse: gcol(i + 20),
                ground: 3 + i as u32,
            })
            .collect(),
        groups: (0..k(4))
            .map(|i| GroupInfoCase {
                flags: (0x49 << i) & GRP_FLAG_MASK,
                bbox: BBox {
                    min: gv3(i),
                    max: gv3(i + 9),
                },
                name: ["hall", "hall_upper", "hall", "x"][i % 4].to_string(),
            })
            .collect(),
        portals: (0..k(3))
            .map(|i| PortalCase {
                verts: (0..(i + 3)).map(|j| gv3(i * 4 + j)).collect(),
                normal: V3::f(0.0, 0.0, 1.0),
            })
            .collect(),
        portal_refs: (0..k(4)).map(|i| (i as u16 / 2, i as u16, (i % 2) as u16)).collect(),
        vis_lists: (0..k(3)).map(|i| (0..i as u16 * 2).collect()).collect(),
        lights: (0..k(4))
            .map(|i| LightCase {
                ty: i as u8,
                pos: gv3(i),
                color: gcol(i + 30),
                intensity: fv(i + 3),
                rot: [fv(i), fv(i + 1), fv(i + 2), 1.0f32.to_bits()],
                att_start: fv(i + 5),
                att_end: fv(i + 6),
                use_att: i % 2 == 0,
            })
            .collect(),
        doodad_defs: (0..k(4))
            .map(|i| DoodadCase {
                name_offset: [0u32, 21, 0, 47][i % 4],
                pos: gv3(i + 2),
                orient: [0, 0, 0, 1.0f32.to_bits()],
                scale: 1.0f32.to_bits(),
                color: gcol(i + 40),
            })
            .collect(),
        doodad_fixpoint: true,
        doodad_sets: (0..k(2))
            .map(|i| SetCase {
                name: ["Set_$DefaultGlobal", "Set_Décor_Ā"][i % 2].to_string(),
                start: i as u32 * 2,
                n: 2,
            })
            .collect(),
        skybox: if n > 0 { Some("Environments\\Stars\\sky.mdx".into()) } else { None },
        flags: 0x1 | 0x8,
        ambient: gcol(7),
        bounds: None,
        convert_to: version,
        tame: false,
    }
}

pub fn grid_group(version: u8, n: usize) -> GroupCase {
    let k = |many: usize| match n {
        0 => 0,
        1 => 1,
        _ => many,
    };
    let nv = k(6);
    GroupCase {
        version,
        flags: 0x1 | 0x4 | 0x2000,
        bbox: BBox {
            min: gv3(0),
            max: gv3(9),
        },
        name_offset: 5,
        group_index: 3,
        vertices: (0..nv).map(gv3).collect(),
        normals: (0..nv).map(|_| V3::f(0.0, 0.0, 1.0)).collect(),
        tex_coords: (0..nv).map(|i| (fv(i), fv(i + 4))).collect(),
        indices: if nv == 0 {
            vec![]
        } else {
            (0..k(4) * 3).map(|i| (i % nv) as u16).collect()
        },
        colors: if nv > 0 { Some((0..nv).map(gcol).collect()) } else { None },
        batches: (0..k(3))
            .map(|i| BatchCase {
                flags: [i as u8; 10],
                material_id: if i == 2 { 300 } else { i as u16 },
                start_index: i as u32 * 3,
                count: 3,
                start_vertex: 0,
                end_vertex: nv.saturating_sub(1) as u16,
                large: i == 2,
            })
            .collect(),
        bsp: if n > 0 {
            Some(
                (0..k(5))
                    .map(|i| BspCase {
                        axis: (i % 3) as u8,
                        neg: i % 2 == 1,
                        normal: V3::f(0.0, 0.0, 1.0),
                        dist: fv(i),
                        children: if i == 0 { [1, 2] } else { [-1, -1] },
                        first_face: i as u16,
                        // the last node is an empty leaf: no children, no faces
                        num_faces: if i >= 2 && i + 1 == k(5) { 0 } else { 1 + i as u16 },
                    })
                    .collect(),
            )
        } else {
            None
        },
        liquid: if n > 0 {
            let (w, h) = if n == 1 { (1u32, 1u32) } else { (3u32, 2u32) };
            Some(LiqCase {
                ty: 13,
                flags: 1,
                w,
                h,
                verts: (0..(w * h) as usize).map(|i| (gv3(i), fv(i + 1))).collect(),
                tiles: Some(vec![0x0F; ((w - 1) * (h - 1)) as usize]),
            })
        } else {
            None
        },
        doodad_refs: if n > 0 { Some((0..k(3) as u16).collect()) } else { None },
        convert_to: version,
    }
}
