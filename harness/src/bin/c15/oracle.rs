//! Property clauses of C15. Every clause is evaluated for every case and all failures are
//! collected (a known defect must not hide an unknown one in the same case).

use crate::model::*;
use crate::walk::{self, GroupWalk, RootWalk};
use std::io::Cursor;
use vcheck::engine::{Fail, guard};
use wow_wmo::group_parser::WmoGroup as NewGroup;
use wow_wmo::root_parser::WmoRoot as NewRoot;
use wow_wmo::version::WmoVersion;
use wow_wmo::wmo_group_types::WmoGroup;
use wow_wmo::wmo_types::{WmoLightProperties, WmoLightType, WmoRoot};
use wow_wmo::{ParsedWmo, WmoConverter, WmoGroupParser, WmoParser, WmoWriter, parse_wmo};

pub struct Outcome {
    pub fails: Vec<Fail>,
    pub class: String,
    pub nt: bool,
    /// bookkeeping counters (name → increment)
    pub notes: Vec<&'static str>,
}

pub fn push(f: &mut Vec<Fail>, sig: impl Into<String>, msg: String) {
    let sig = sig.into();
    if !f.iter().any(|x| x.signature == sig) {
        f.push(Fail::new(sig, msg));
    }
}

pub fn write_root_bytes(r: &WmoRoot, v: WmoVersion) -> Result<Vec<u8>, Fail> {
    let fresh = match guard("write_root", || {
        let mut c = Cursor::new(Vec::new());
        WmoWriter::new().write_root(&mut c, r, v).map(|_| c.into_inner())
    }) {
        Ok(Ok(b)) => b,
        Ok(Err(e)) => return Err(Fail::new("root-write-error", format!("write_root failed: {e}"))),
        Err(f) => return Err(f),
    };
    // same as for groups: a sink that already holds a longer file
    let reused = guard("write_root(reused sink)", || {
        let mut c = Cursor::new(vec![0xEEu8; fresh.len() + 911]);
        WmoWriter::new().write_root(&mut c, r, v).map(|_| {
            let pos = c.position() as usize;
            (pos, c.into_inner())
        })
    })?;
    match reused {
        Ok((pos, buf)) => {
            if pos != fresh.len() || buf[..pos.min(buf.len())] != fresh[..] {
                return Err(Fail::new(
                    "root-write-depends-on-what-the-sink-held",
                    format!("write_root into a sink holding {} older bytes leaves the stream at {pos} and a file that differs from the {}-byte file written into an empty sink", fresh.len() + 911, fresh.len()),
                ));
            }
        }
        Err(e) => return Err(Fail::new("root-write-error", format!("write_root into a reused sink failed: {e}"))),
    }
    Ok(fresh)
}

pub fn write_group_bytes(g: &WmoGroup, v: WmoVersion) -> Result<Vec<u8>, Fail> {
    let fresh = match guard("write_group", || {
        let mut c = Cursor::new(Vec::new());
        WmoWriter::new().write_group(&mut c, g, v).map(|_| c.into_inner())
    }) {
        Ok(Ok(b)) => b,
        Ok(Err(e)) => return Err(Fail::new("group-write-error", format!("write_group failed: {e}"))),
        Err(f) => return Err(f),
    };
    // the same value written over the start of a sink that already holds a longer file (a reused
    // scratch buffer, a file opened without truncation): the bytes up to the position the writer
    // leaves the stream at are the file, and they are the same file
    let reused = guard("write_group(reused sink)", || {
        let mut c = Cursor::new(vec![0xEEu8; fresh.len() + 1837]);
        WmoWriter::new().write_group(&mut c, g, v).map(|_| {
            let pos = c.position() as usize;
            (pos, c.into_inner())
        })
    })?;
    match reused {
        Ok((pos, buf)) => {
            if pos != fresh.len() || buf[..pos.min(buf.len())] != fresh[..] {
                return Err(Fail::new(
                    "group-write-depends-on-what-the-sink-held",
                    format!("write_group into a sink holding {} older bytes leaves the stream at {pos} and a file that differs from the {}-byte file written into an empty sink", fresh.len() + 1837, fresh.len()),
                ));
            }
        }
        Err(e) => return Err(Fail::new("group-write-error", format!("write_group into a reused sink failed: {e}"))),
    }
    Ok(fresh)
}

fn numeq(a: V3, b: V3) -> bool {
    let (a, b) = (a.v(), b.v());
    a.x == b.x && a.y == b.y && a.z == b.z
}

// ---------------------------------------------------------------------------------------
// root, legacy parser

/// `parsed`: `p` came out of the parser (defect attribution applies); false: `p` came out of the converter
pub fn cmp_root_legacy(p: &WmoRoot, c: &RootCase, d: &RootDerived, w: &RootWalk, parsed: bool, f: &mut Vec<Fail>) {
    let ver = VERSIONS[c.version as usize];
    if p.version.to_raw() != ver.to_raw() {
        push(f, "root-version-number-differs", format!("parsed raw version {} for {}", p.version.to_raw(), VNAMES[c.version as usize]));
    }
    let h = &p.header;
    let counts: [(&str, u32, usize, usize); 7] = [
        ("n_materials", h.n_materials, p.materials.len(), c.materials.len()),
        ("n_groups", h.n_groups, p.groups.len(), c.groups.len()),
        ("n_portals", h.n_portals, p.portals.len(), c.portals.len()),
        ("n_lights", h.n_lights, p.lights.len(), c.lights.len()),
        ("n_doodad_names", h.n_doodad_names, c.doodad_defs.len(), c.doodad_defs.len()),
        ("n_doodad_defs", h.n_doodad_defs, p.doodad_defs.len(), c.doodad_defs.len()),
        ("n_doodad_sets", h.n_doodad_sets, p.doodad_sets.len(), c.doodad_sets.len()),
    ];
    for (name, hv, pl, il) in counts {
        if hv as usize != il {
            push(f, format!("root-header-count-differs:{name}"), format!("parsed header {name} = {hv}, list has {il} entries"));
        }
        if pl != il {
            push(f, format!("root-list-length-differs:{name}"), format!("{name}: {il} entries written, {pl} parsed"));
        }
    }
    // materials
    for (i, (pm, (cm, t))) in p.materials.iter().zip(c.materials.iter().zip(&d.mat_tex)).enumerate() {
        let fields: [(&str, bool); 9] = [
            ("flags", pm.flags.bits() == cm.flags & MAT_FLAG_MASK),
            ("shader", pm.shader == cm.shader),
            ("blend_mode", pm.blend_mode == cm.blend),
            ("texture1", pm.texture1 == t.0),
            ("emissive_color", Col::of(&pm.emissive_color) == cm.emissive),
            ("sidn_color", Col::of(&pm.sidn_color) == cm.sidn),
            ("texture2", pm.texture2 == t.2),
            ("diffuse_color", Col::of(&pm.diffuse_color) == cm.diffuse),
            ("ground_type", pm.ground_type == cm.ground),
        ];
        if let Some((name, _)) = fields.iter().find(|x| !x.1) {
            push(f, format!("root-material-field-differs:{name}"), format!("material {i}: parsed {pm:?}, input {cm:?} (texture offsets {t:?})"));
            break;
        }
    }
    // textures and the offset map
    if p.textures != c.textures {
        let sig = if parsed && c.textures.iter().any(|t| !t.is_ascii()) {
            "root-texture-name-non-ascii-mangled"
        } else {
            "root-textures-differ"
        };
        push(f, sig, format!("textures parsed {:?}, input {:?}", trunc(&p.textures), trunc(&c.textures)));
    } else {
        let ok = p.texture_offset_index_map.len() == c.textures.len()
            && d.tex_offsets.iter().enumerate().all(|(i, o)| p.texture_offset_index_map.get(o) == Some(&(i as u32)));
        if !ok {
            push(f, "root-texture-offset-map-differs", format!("offset→index map {:?}, dense offsets {:?}", p.texture_offset_index_map, d.tex_offsets));
        }
    }
    // group infos and names
    for (i, (pg, cg)) in p.groups.iter().zip(&c.groups).enumerate() {
        if pg.flags.bits() != cg.flags & GRP_FLAG_MASK {
            push(f, "root-group-info-field-differs:flags", format!("group {i}: flags {:#x} vs {:#x}", pg.flags.bits(), cg.flags));
        }
        if BBox::of(&pg.bounding_box) != cg.bbox {
            push(f, "root-group-info-field-differs:bounding_box", format!("group {i}: {:?} vs {:?}", pg.bounding_box, cg.bbox));
        }
    }
    if p.groups.len() == c.groups.len() {
        if let Some(i) = (0..c.groups.len()).find(|i| p.groups[*i].name != c.groups[*i].name) {
            let sig = if parsed && w.mogi_offsets_all_zero {
                "root-mogi-name-offset-always-zero"
            } else if parsed && c.groups[i].name.is_empty() && p.groups[i].name == format!("Group_{i}") {
                "root-group-name-empty-replaced-by-placeholder"
            } else {
                "root-group-names-differ"
            };
            push(f, sig, format!("group {i}: name parsed {:?}, input {:?}", p.groups[i].name, c.groups[i].name));
        }
    }
    // portals
    for (i, (pp, cp)) in p.portals.iter().zip(&c.portals).enumerate() {
        let same = pp.vertices.len() == cp.verts.len()
            && pp.vertices.iter().zip(&cp.verts).all(|(a, b)| V3::of(a) == *b)
            && V3::of(&pp.normal) == cp.normal;
        if !same {
            push(f, "root-portals-differ", format!("portal {i}: parsed {pp:?}, input {cp:?}"));
            break;
        }
    }
    let prefs: Vec<(u16, u16, u16)> = p.portal_references.iter().map(|r| (r.portal_index, r.group_index, r.side)).collect();
    if prefs != c.portal_refs {
        push(f, "root-portal-references-differ", format!("parsed {:?}, input {:?}", trunc(&prefs), trunc(&c.portal_refs)));
    }
    if p.visible_block_lists != c.vis_lists {
        push(f, "root-visibility-lists-differ", format!("parsed {:?}, input {:?}", trunc(&p.visible_block_lists), trunc(&c.vis_lists)));
    }
    // lights
    for (i, (pl, cl)) in p.lights.iter().zip(&c.lights).enumerate() {
        let want = build_light(cl);
        let kind_ok = matches!(
            (&pl.properties, pl.light_type),
            (WmoLightProperties::Omni, WmoLightType::Omni)
                | (WmoLightProperties::Spot { .. }, WmoLightType::Spot)
                | (WmoLightProperties::Directional { .. }, WmoLightType::Directional)
                | (WmoLightProperties::Ambient, WmoLightType::Ambient)
        );
        let fields: [(&str, bool); 9] = [
            ("light_type", pl.light_type == want.light_type),
            ("position", V3::of(&pl.position) == cl.pos),
            ("color", Col::of(&pl.color) == cl.color),
            ("intensity", pl.intensity.to_bits() == cl.intensity),
            ("rotation", pl.rotation.map(f32::to_bits) == cl.rot),
            ("attenuation_start", pl.attenuation_start.to_bits() == cl.att_start),
            ("attenuation_end", pl.attenuation_end.to_bits() == cl.att_end),
            ("use_attenuation", pl.use_attenuation == cl.use_att),
            ("properties-kind", kind_ok),
        ];
        if let Some((name, _)) = fields.iter().find(|x| !x.1) {
            push(f, format!("root-light-field-differs:{name}"), format!("light {i}: parsed {pl:?}, input {cl:?}"));
            break;
        }
    }
    // doodad definitions
    for (i, (pd, (cd, off))) in p.doodad_defs.iter().zip(c.doodad_defs.iter().zip(&d.doodad_offsets)).enumerate() {
        if pd.name_offset != *off {
            push(
                f,
                "root-doodad-name-offset-rewritten-to-synthetic-names",
                format!("doodad {i}: name_offset {off} written, {} parsed (the writer invents names \"doodad_<offset>\" and renumbers)", pd.name_offset),
            );
        }
        let fields: [(&str, bool); 4] = [
            ("position", V3::of(&pd.position) == cd.pos),
            ("orientation", pd.orientation.map(f32::to_bits) == cd.orient),
            ("scale", pd.scale.to_bits() == cd.scale),
            ("color", Col::of(&pd.color) == cd.color),
        ];
        if let Some((name, _)) = fields.iter().find(|x| !x.1) {
            push(f, format!("root-doodad-def-field-differs:{name}"), format!("doodad {i}: parsed {pd:?}, input {cd:?}"));
            break;
        }
    }
    let psets: Vec<(String, u32, u32)> = p.doodad_sets.iter().map(|s| (s.name.clone(), s.start_doodad, s.n_doodads)).collect();
    let csets: Vec<(String, u32, u32)> = c.doodad_sets.iter().map(|s| (s.name.clone(), s.start, s.n)).collect();
    if psets != csets {
        push(f, "root-doodad-sets-differ", format!("parsed {:?}, input {:?}", trunc(&psets), trunc(&csets)));
    }
    // skybox
    if p.skybox != d.skybox {
        let sig = if parsed && ver.to_raw() == 17 && d.skybox.is_some() && p.skybox.is_none() {
            "root-skybox-dropped-because-version-17-parses-as-classic"
        } else {
            "root-skybox-differs"
        };
        push(f, sig, format!("{}: skybox parsed {:?}, input {:?}", VNAMES[c.version as usize], p.skybox, d.skybox));
    }
    if h.flags.bits() != d.flags {
        push(f, "root-header-flags-differ", format!("flags parsed {:#x}, input {:#x}", h.flags.bits(), d.flags));
    }
    if Col::of(&h.ambient_color) != c.ambient {
        push(f, "root-ambient-colour-differs", format!("parsed {:?}, input {:?}", h.ambient_color, c.ambient));
    }
    // bounds: ±0 may legitimately differ in a min/max reduction → numeric comparison
    let pb = BBox::of(&p.bounding_box);
    if !(numeq(pb.min, d.bounds.min) && numeq(pb.max, d.bounds.max)) {
        let sig = if d.bounds_is_union || !parsed {
            "root-bounds-differ"
        } else {
            "root-header-bounds-ignored-by-parser"
        };
        push(f, sig, format!("bounding box parsed {:?}, written {:?} (union of group boxes: {})", p.bounding_box, d.bounds.b(), d.bounds_is_union));
    }
}

fn trunc<T: Clone>(v: &[T]) -> Vec<T> {
    v.iter().take(6).cloned().collect()
}

// ---------------------------------------------------------------------------------------
// root, parse_wmo API

fn cmp_root_new(n: &NewRoot, c: &RootCase, d: &RootDerived, check_flags: bool, f: &mut Vec<Fail>) {
    let ver = VERSIONS[c.version as usize];
    if n.version != ver.to_raw() {
        push(f, "root-newapi-version", format!("version {} for {}", n.version, VNAMES[c.version as usize]));
    }
    let counts: [(&str, u32, usize); 7] = [
        ("n_materials", n.n_materials, c.materials.len()),
        ("n_groups", n.n_groups, c.groups.len()),
        ("n_portals", n.n_portals, c.portals.len()),
        ("n_lights", n.n_lights, c.lights.len()),
        ("n_doodad_names", n.n_doodad_names, c.doodad_defs.len()),
        ("n_doodad_defs", n.n_doodad_defs, c.doodad_defs.len()),
        ("n_doodad_sets", n.n_doodad_sets, c.doodad_sets.len()),
    ];
    for (name, hv, il) in counts {
        if hv as usize != il {
            push(f, format!("root-newapi-count-differs:{name}"), format!("{name} = {hv}, list has {il}"));
        }
    }
    let lens: [(&str, usize, usize); 8] = [
        ("materials", n.materials.len(), c.materials.len()),
        ("group_info", n.group_info.len(), c.groups.len()),
        ("portals", n.portals.len(), c.portals.len()),
        ("portal_refs", n.portal_refs.len(), c.portal_refs.len()),
        ("lights", n.lights.len(), c.lights.len()),
        ("doodad_defs", n.doodad_defs.len(), c.doodad_defs.len()),
        ("doodad_sets", n.doodad_sets.len(), c.doodad_sets.len()),
        ("textures", n.textures.len(), c.textures.len()),
    ];
    for (name, a, b) in lens {
        if a != b {
            push(f, format!("root-newapi-list-length-differs:{name}"), format!("{name}: {b} written, {a} parsed"));
        }
    }
    if n.ambient_color != [c.ambient.b, c.ambient.g, c.ambient.r, c.ambient.a] {
        push(f, "root-newapi-ambient-colour", format!("{:?} vs {:?}", n.ambient_color, c.ambient));
    }
    let bb = BBox {
        min: V3(n.bounding_box_min[0].to_bits(), n.bounding_box_min[1].to_bits(), n.bounding_box_min[2].to_bits()),
        max: V3(n.bounding_box_max[0].to_bits(), n.bounding_box_max[1].to_bits(), n.bounding_box_max[2].to_bits()),
    };
    if bb != d.bounds {
        push(f, "root-newapi-bounds-differ", format!("{bb:?} vs {:?}", d.bounds));
    }
    if check_flags && n.flags as u32 != (d.flags & 0xFFFF) {
        push(f, "root-newapi-flags-differ", format!("flags {:#x}, input {:#x}", n.flags, d.flags));
    }
    if n.textures != c.textures {
        push(f, "root-newapi-textures-differ", format!("{:?} vs {:?}", trunc(&n.textures), trunc(&c.textures)));
    }
    for (i, (pm, (cm, t))) in n.materials.iter().zip(c.materials.iter().zip(&d.mat_tex)).enumerate() {
        let col = |x: Col| [x.r, x.g, x.b, x.a];
        let ok = pm.flags == cm.flags & MAT_FLAG_MASK
            && pm.shader == cm.shader
            && pm.blend_mode == cm.blend
            && pm.texture_1 == t.0
            && pm.emissive_color == col(cm.emissive)
            && pm.frame_emissive_color == col(cm.sidn)
            && pm.texture_2 == t.2
            && pm.diff_color == col(cm.diffuse)
            && pm.ground_type == cm.ground;
        if !ok {
            push(f, "root-newapi-materials-differ", format!("material {i}: {pm:?} vs {cm:?} {t:?}"));
            break;
        }
    }
    let names: Vec<&String> = c.groups.iter().map(|g| &g.name).filter(|s| !s.is_empty()).collect();
    if n.group_names.iter().collect::<Vec<_>>() != names {
        push(f, "root-newapi-group-names-differ", format!("{:?} vs {:?}", trunc(&n.group_names), trunc(&names)));
    }
    for (i, (pg, cg)) in n.group_info.iter().zip(&c.groups).enumerate() {
        let bb = BBox {
            min: V3(pg.bounding_box_min[0].to_bits(), pg.bounding_box_min[1].to_bits(), pg.bounding_box_min[2].to_bits()),
            max: V3(pg.bounding_box_max[0].to_bits(), pg.bounding_box_max[1].to_bits(), pg.bounding_box_max[2].to_bits()),
        };
        if pg.flags != cg.flags & GRP_FLAG_MASK || bb != cg.bbox {
            push(f, "root-newapi-group-info-differs", format!("group {i}: {pg:?} vs {cg:?}"));
            break;
        }
    }
    if n.skybox != d.skybox {
        push(f, "root-newapi-skybox-differs", format!("{:?} vs {:?}", n.skybox, d.skybox));
    }
    let all_verts: Vec<V3> = c.portals.iter().flat_map(|p| p.verts.iter().copied()).collect();
    let got_verts: Vec<V3> = n.portal_vertices.iter().map(|v| V3(v.x.to_bits(), v.y.to_bits(), v.z.to_bits())).collect();
    if got_verts != all_verts {
        push(f, "root-newapi-portal-vertices-differ", format!("{} vs {} vertices", got_verts.len(), all_verts.len()));
    }
    let mut start = 0usize;
    for (i, (pp, cp)) in n.portals.iter().zip(&c.portals).enumerate() {
        let nn = V3(pp.normal.x.to_bits(), pp.normal.y.to_bits(), pp.normal.z.to_bits());
        if pp.start_vertex as usize != start || pp.n_vertices as usize != cp.verts.len() || nn != cp.normal {
            push(f, "root-newapi-portals-differ", format!("portal {i}: {pp:?} vs start {start} {cp:?}"));
            break;
        }
        start += cp.verts.len();
    }
    let prefs: Vec<(u16, u16, u16)> = n.portal_refs.iter().map(|r| (r.portal_index, r.group_index, r.side as u16)).collect();
    if prefs != c.portal_refs {
        push(f, "root-newapi-portal-references-differ", format!("{:?} vs {:?}", trunc(&prefs), trunc(&c.portal_refs)));
    }
    for (i, (pl, cl)) in n.lights.iter().zip(&c.lights).enumerate() {
        let ok = pl.light_type == (cl.ty & 3)
            && (pl.use_attenuation != 0) == cl.use_att
            && pl.color == [cl.color.b, cl.color.g, cl.color.r, cl.color.a]
            && pl.position.map(f32::to_bits) == [cl.pos.0, cl.pos.1, cl.pos.2]
            && pl.intensity.to_bits() == cl.intensity
            && pl.rotation.map(f32::to_bits) == cl.rot
            && pl.attenuation_start.to_bits() == cl.att_start
            && pl.attenuation_end.to_bits() == cl.att_end;
        if !ok {
            push(f, "root-newapi-lights-differ", format!("light {i}: {pl:?} vs {cl:?}"));
            break;
        }
    }
    for (i, (ps, cs)) in n.doodad_sets.iter().zip(&c.doodad_sets).enumerate() {
        let mut name = [0u8; 20];
        name[..cs.name.len().min(19)].copy_from_slice(&cs.name.as_bytes()[..cs.name.len().min(19)]);
        if ps.name != name || ps.start_index != cs.start || ps.count != cs.n {
            push(f, "root-newapi-doodad-sets-differ", format!("set {i}: {ps:?} vs {cs:?}"));
            break;
        }
    }
    for (i, (pd, (cd, off))) in n.doodad_defs.iter().zip(c.doodad_defs.iter().zip(&d.doodad_offsets)).enumerate() {
        if pd.name_index() != *off {
            push(
                f,
                "root-doodad-name-offset-rewritten-to-synthetic-names",
                format!("doodad {i}: name_offset {off} written, {} parsed via parse_wmo", pd.name_index()),
            );
        }
        let ok = pd.position.map(f32::to_bits) == [cd.pos.0, cd.pos.1, cd.pos.2]
            && pd.orientation.map(f32::to_bits) == cd.orient
            && pd.scale.to_bits() == cd.scale
            && pd.color == [cd.color.b, cd.color.g, cd.color.r, cd.color.a];
        if !ok {
            push(f, "root-newapi-doodad-defs-differ", format!("doodad {i}: {pd:?} vs {cd:?}"));
            break;
        }
    }
}

pub fn eval_root(c: &RootCase) -> Outcome {
    let (class, nt) = c.class();
    let mut o = Outcome {
        fails: vec![],
        class,
        nt,
        notes: vec![],
    };
    let d = c.derive();
    let root = c.build(&d);
    let ver = VERSIONS[c.version as usize];
    let bytes = match write_root_bytes(&root, ver) {
        Ok(b) => b,
        Err(f) => {
            o.fails.push(f);
            return o;
        }
    };
    let w = walk::judge_root(&bytes, c, &d);
    o.fails.extend(w.fails.iter().cloned());
    let Some(eff) = w.effective.as_ref() else {
        // still make sure the parsers do not panic on the writer's own output
        if let Err(f) = guard("parse_root", || WmoParser::new().parse_root(&mut Cursor::new(&bytes)).is_ok()) {
            o.fails.push(f);
        }
        return o;
    };
    if w.momt40 {
        o.notes.push("root_cases_evaluated_on_momt_patched_bytes");
        for (entry, r) in [
            ("parse_root", guard("parse_root", || WmoParser::new().parse_root(&mut Cursor::new(&bytes)).is_ok())),
            ("parse_wmo", guard("parse_wmo", || parse_wmo(&mut Cursor::new(&bytes)).is_ok())),
        ] {
            let _ = entry;
            if let Err(f) = r {
                o.fails.push(f);
            }
        }
    }
    // clause 1: legacy parser returns the same content
    match guard("parse_root", || WmoParser::new().parse_root(&mut Cursor::new(&eff[..]))) {
        Err(f) => o.fails.push(f),
        Ok(Err(e)) => push(&mut o.fails, "root-legacy-parse-error", format!("parse_root rejects the written root: {e}")),
        Ok(Ok(p)) => {
            let mut found = vec![];
            cmp_root_legacy(&p, c, &d, &w, true, &mut found);
            let content_failed = !found.is_empty();
            for x in found {
                push(&mut o.fails, x.signature, x.message);
            }
            // clause 2: second write is byte-identical (to the first write as produced)
            match write_root_bytes(&p, ver) {
                Err(f) => o.fails.push(f),
                Ok(b2) => {
                    if b2 != bytes {
                        if content_failed {
                            o.notes.push("root_second_write_differs_as_consequence_of_content_failure");
                        } else {
                            let pos = b2.iter().zip(&bytes).position(|(a, b)| a != b).unwrap_or(b2.len().min(bytes.len()));
                            push(
                                &mut o.fails,
                                format!("root-second-write-differs:first-difference-in-{}", walk::chunk_at(&w.chunks, pos)),
                                format!("write(parse(write(r))) has {} bytes, first write {}; first difference at byte {pos}", b2.len(), bytes.len()),
                            );
                        }
                    } else {
                        o.notes.push("root_second_write_identical");
                    }
                }
            }
            // clause 2b: the editor's save path. A parsed root goes into a WmoEditor, is converted to the version
            // it was written for (a parsed MVER-17 root carries the oldest version label) and saved: the bytes are
            // those of write_root on the editor's current root at its current version
            let mut ed = wow_wmo::WmoEditor::new(p);
            let saved = guard("WmoEditor::convert_to_version+save_root", || -> Result<Option<Vec<u8>>, wow_wmo::WmoError> {
                if ed.convert_to_version(ver).is_err() {
                    return Ok(None);
                }
                let mut cur = Cursor::new(Vec::new());
                ed.save_root(&mut cur)?;
                Ok(Some(cur.into_inner()))
            });
            match saved {
                Err(f) => o.fails.push(f),
                Ok(Err(e)) => push(&mut o.fails, "root-editor-save-error", format!("WmoEditor::save_root after convert_to_version({ver:?}): {e}")),
                Ok(Ok(None)) => o.notes.push("root_editor_conversion_refused"),
                Ok(Ok(Some(se))) => match write_root_bytes(ed.root(), ed.current_version()) {
                    Err(f) => o.fails.push(f),
                    Ok(we) => {
                        o.notes.push(if ed.original_version() != ed.current_version() { "root_editor_saved_after_version_change" } else { "root_editor_saved" });
                        if se != we {
                            let pos = se.iter().zip(&we).position(|(a, b)| a != b).unwrap_or(se.len().min(we.len()));
                            push(
                                &mut o.fails,
                                "root-editor-save-differs-from-write-root-at-current-version",
                                format!("editor created at {:?}, converted to {:?}: save_root writes {} bytes, write_root(editor.root(), current_version) {} bytes, first difference at byte {pos}", ed.original_version(), ed.current_version(), se.len(), we.len()),
                            );
                        }
                    }
                },
            }
        }
    }
    // clause 3: the parse_wmo API on the bytes as written
    let raw_new = guard("parse_wmo", || parse_wmo(&mut Cursor::new(&eff[..])));
    match raw_new {
        Err(f) => o.fails.push(f),
        Ok(Err(e)) => {
            let sig = if w.mohd60 { "root-mohd-written-with-60-bytes-flags-in-wmoid-slot" } else { "root-newapi-parse-error" };
            push(&mut o.fails, sig, format!("parse_wmo rejects the written root: {e}"));
        }
        Ok(Ok(ParsedWmo::Group(_))) => push(&mut o.fails, "root-newapi-detected-as-group", "parse_wmo classifies the written root as a group file".to_string()),
        Ok(Ok(ParsedWmo::Root(n))) => {
            if w.mohd60 {
                // flags cannot be right (read from beyond the 60-byte MOHD); everything else is
                // compared on the repaired bytes below
                if n.flags as u32 != (d.flags & 0xFFFF) {
                    push(
                        &mut o.fails,
                        "root-mohd-written-with-60-bytes-flags-in-wmoid-slot",
                        format!("parse_wmo reads flags {:#x} (bytes of the next chunk header) and wmo_id {:#x}; input flags {:#x}", n.flags, n.wmo_id, d.flags),
                    );
                }
            } else {
                cmp_root_new(&n, c, &d, true, &mut o.fails);
            }
        }
    }
    if w.mohd60 {
        if let Some(rep) = walk::repair_mohd(eff, &w.chunks) {
            match guard("parse_wmo", || parse_wmo(&mut Cursor::new(&rep[..]))) {
                Err(f) => o.fails.push(f),
                Ok(Ok(ParsedWmo::Root(n))) => cmp_root_new(&n, c, &d, false, &mut o.fails),
                Ok(Ok(ParsedWmo::Group(_))) => push(&mut o.fails, "root-newapi-detected-as-group", "repaired root classified as group".to_string()),
                Ok(Err(e)) => push(&mut o.fails, "root-newapi-parse-error", format!("parse_wmo rejects the root even with a 64-byte MOHD: {e}")),
            }
        }
    }
    o
}

// ---------------------------------------------------------------------------------------
// group

fn cmp_group_legacy(p: &WmoGroup, c: &GroupCase, f: &mut Vec<Fail>) {
    let g = c.build();
    let h_ok = p.header.flags == g.header.flags
        && BBox::of(&p.header.bounding_box) == c.bbox
        && p.header.name_offset == c.name_offset
        && p.header.group_index == c.group_index as u32;
    if !h_ok {
        push(f, "group-legacy-header-differs", format!("{:?} vs {:?}", p.header, g.header));
    }
    let v = |x: &[wow_wmo::types::Vec3]| x.iter().map(V3::of).collect::<Vec<_>>();
    if v(&p.vertices) != c.vertices {
        push(f, "group-legacy-vertices-differ", format!("{} vs {}", p.vertices.len(), c.vertices.len()));
    }
    if v(&p.normals) != c.normals {
        push(f, "group-legacy-normals-differ", format!("{} vs {}", p.normals.len(), c.normals.len()));
    }
    if p.tex_coords.iter().map(|t| (t.u.to_bits(), t.v.to_bits())).collect::<Vec<_>>() != c.tex_coords {
        push(f, "group-legacy-texcoords-differ", String::new());
    }
    if p.indices != c.indices {
        push(f, "group-legacy-indices-differ", String::new());
    }
    let pc: Vec<Col> = p.vertex_colors.iter().flatten().map(Col::of).collect();
    let cc: Vec<Col> = c.colors.clone().unwrap_or_default();
    if pc != cc {
        push(f, "group-legacy-colours-differ", String::new());
    }
    let pb: Vec<_> = p.batches.iter().map(|b| (b.flags, b.material_id, b.start_index, b.count, b.start_vertex, b.end_vertex, b.use_large_material_id)).collect();
    let cb: Vec<_> = c.batches.iter().map(|b| (b.flags, b.material_id, b.start_index, b.count, b.start_vertex, b.end_vertex, b.large)).collect();
    if pb != cb {
        push(f, "group-legacy-batches-differ", String::new());
    }
    let pn: Vec<_> = p.bsp_nodes.iter().flatten().map(|n| (V3::of(&n.plane.normal), n.plane.distance.to_bits(), n.children, n.first_face, n.num_faces)).collect();
    let cn: Vec<_> = c.bsp.iter().flatten().filter(|n| n.axis <= 2).map(|n| (n.normal(), n.dist, n.children, n.first_face, n.num_faces)).collect();
    if c.bsp.iter().flatten().all(|n| n.axis <= 2) && pn != cn {
        push(f, "group-legacy-bsp-nodes-differ", String::new());
    }
    match (&p.liquid, &c.liquid) {
        (None, None) => {}
        (Some(pl), Some(cl)) => {
            let heights = |l: &wow_wmo::wmo_group_types::WmoLiquid| l.vertices.iter().map(|v| v.height.to_bits()).collect::<Vec<_>>();
            let ok = pl.liquid_type == cl.ty
                && pl.flags == cl.flags
                && pl.width == cl.w
                && pl.height == cl.h
                && heights(pl) == cl.verts.iter().map(|v| v.1).collect::<Vec<_>>()
                && pl.tile_flags == cl.tiles;
            if !ok {
                push(f, "group-legacy-liquid-differs", String::new());
            }
        }
        _ => push(f, "group-legacy-liquid-presence", String::new()),
    }
}

fn cmp_group_new(n: &NewGroup, c: &GroupCase, w: &GroupWalk, with_header: bool, f: &mut Vec<Fail>) {
    if with_header {
        let bb: Vec<u32> = n.bounding_box.iter().map(|x| x.to_bits()).collect();
        let want = [c.bbox.min.0, c.bbox.min.1, c.bbox.min.2, c.bbox.max.0, c.bbox.max.1, c.bbox.max.2];
        if n.group_name_index != c.name_offset || n.flags != c.flags & GRP_FLAG_MASK || bb != want {
            push(f, "group-header-differs-after-parse", format!("name {} flags {:#x} box {:?}", n.group_name_index, n.flags, n.bounding_box));
        }
    }
    let verts: Vec<V3> = n.vertex_positions.iter().map(|v| V3(v.x.to_bits(), v.y.to_bits(), v.z.to_bits())).collect();
    if verts != c.vertices {
        push(f, "group-vertices-differ-after-parse", format!("{} parsed, {} written", verts.len(), c.vertices.len()));
    }
    if n.n_vertices as usize != c.vertices.len() || n.n_triangles as usize != c.indices.len() / 3 {
        push(f, "group-counts-differ-after-parse", format!("n_vertices {} n_triangles {} for {} vertices / {} indices", n.n_vertices, n.n_triangles, c.vertices.len(), c.indices.len()));
    }
    let norms: Vec<V3> = n.vertex_normals.iter().map(|v| V3(v.x.to_bits(), v.y.to_bits(), v.z.to_bits())).collect();
    if norms != c.normals {
        push(f, "group-normals-differ-after-parse", format!("{} parsed, {} written", norms.len(), c.normals.len()));
    }
    let tcs: Vec<(u32, u32)> = n.texture_coords.iter().map(|t| (t.u.to_bits(), t.v.to_bits())).collect();
    if tcs != c.tex_coords {
        push(f, "group-texcoords-differ-after-parse", format!("{} parsed, {} written", tcs.len(), c.tex_coords.len()));
    }
    if n.vertex_indices != c.indices {
        push(f, "group-indices-differ-after-parse", format!("{} parsed, {} written", n.vertex_indices.len(), c.indices.len()));
    }
    let cols: Vec<Col> = n.vertex_colors.iter().map(|x| Col { r: x.r, g: x.g, b: x.b, a: x.a }).collect();
    if cols != c.colors.clone().unwrap_or_default() {
        push(f, "group-colours-differ-after-parse", format!("{} parsed", cols.len()));
    }
    // batches: 12 leading bytes are the 10 opaque bytes + 16-bit material id
    if n.render_batches.len() != c.batches.len() {
        push(f, "group-batches-differ-after-parse", format!("{} parsed, {} written", n.render_batches.len(), c.batches.len()));
    } else {
        for (i, (pb, cb)) in n.render_batches.iter().zip(&c.batches).enumerate() {
            let mut lead = vec![];
            for x in pb.bounding_box_min.iter().chain(pb.bounding_box_max.iter()) {
                lead.extend_from_slice(&x.to_le_bytes());
            }
            let mut want = cb.flags.to_vec();
            want.extend_from_slice(&cb.material_id.to_le_bytes());
            let ok = lead == want
                && pb.start_index == cb.start_index
                && pb.count == cb.count
                && pb.min_index == cb.start_vertex
                && pb.max_index == cb.end_vertex
                && (pb.flags & 1 != 0) == cb.large
                && pb.material_id == cb.material_id as u8;
            if !ok {
                push(f, "group-batches-differ-after-parse", format!("batch {i}: {pb:?} vs {cb:?}"));
                break;
            }
        }
    }
    // BSP nodes
    let nodes: &[BspCase] = c.bsp.as_deref().unwrap_or(&[]);
    let mobn_layout_flagged = w.fails.iter().any(|x| x.signature == "group-mobn-record-layout-differs-from-format");
    let mut bad = n.bsp_nodes.len() != nodes.len();
    if !bad {
        for (pn, cn) in n.bsp_nodes.iter().zip(nodes) {
            if pn.neg_child != cn.children[0]
                || pn.pos_child != cn.children[1]
                || pn.n_faces != cn.num_faces
                || pn.face_start != cn.first_face as u32
                || pn.plane_distance.to_bits() != cn.dist
                || (cn.axis <= 2 && (pn.flags & 3) != cn.axis as u16)
            {
                bad = true;
                break;
            }
        }
    }
    if bad {
        let sig = if mobn_layout_flagged { "group-mobn-record-layout-differs-from-format" } else { "group-bsp-nodes-differ-after-parse" };
        push(f, sig, format!("BSP nodes parsed {:?}, written {:?}", n.bsp_nodes.first(), nodes.first()));
    }
    // liquid: the API only exposes a header; demand the minimum any faithful reader must return
    match (&n.liquid_header, &c.liquid) {
        (None, None) => {}
        (Some(h), Some(l)) => {
            if h.liquid_type != l.ty || h.x_tiles != l.w - 1 || h.y_tiles != l.h - 1 {
                push(
                    f,
                    "group-mliq-header-written-in-a-layout-no-parser-reads",
                    format!("liquid type {} grid {}x{} vertices: parse_wmo reports {h:?} (and no API returns liquid vertices or tile flags)", l.ty, l.w, l.h),
                );
            }
        }
        (a, b) => push(f, "group-liquid-presence-differs-after-parse", format!("parsed {:?}, written {}", a.is_some(), b.is_some())),
    }
}

pub fn eval_group(c: &GroupCase) -> Outcome {
    let (class, nt) = c.class();
    let mut o = Outcome {
        fails: vec![],
        class,
        nt,
        notes: vec![],
    };
    let g = c.build();
    let ver = VERSIONS[c.version as usize];
    let bytes = match write_group_bytes(&g, ver) {
        Ok(b) => b,
        Err(f) => {
            // a liquid grid without vertices in one direction has no on-disk form (the format stores
            // width-1 × height-1 tiles): refusing it with an error is the right answer, a panic is not
            let empty_grid = c.liquid.as_ref().is_some_and(|l| l.w == 0 || l.h == 0);
            if !(empty_grid && f.signature == "group-write-error") {
                o.fails.push(f);
            }
            return o;
        }
    };
    if c.liquid.as_ref().is_some_and(|l| l.w == 0 || l.h == 0) {
        push(&mut o.fails, "group-empty-liquid-grid-written", "write_group accepted a liquid grid with 0 vertices in one direction (stored as width-1 / height-1)".to_string());
        return o;
    }
    let w = walk::judge_group(&bytes, c);
    o.fails.extend(w.fails.iter().cloned());
    // clause 1: the legacy group parser (the only one that returns the writer's input type)
    match guard("parse_group", || WmoGroupParser::new().parse_group(&mut Cursor::new(&bytes[..]), c.group_index as u32)) {
        Err(f) => o.fails.push(f),
        Ok(Err(e)) => {
            let msg = e.to_string();
            let sig = if msg.contains("not yet migrated") { "group-legacy-parser-is-a-stub" } else { "group-legacy-parse-error" };
            push(&mut o.fails, sig, format!("WmoGroupParser::parse_group on the written group: {msg}"));
        }
        Ok(Ok(p)) => {
            let before = o.fails.len();
            cmp_group_legacy(&p, c, &mut o.fails);
            if let Ok(b2) = write_group_bytes(&p, ver) {
                if b2 != bytes && o.fails.len() == before {
                    push(&mut o.fails, "group-second-write-differs", format!("{} vs {} bytes", b2.len(), bytes.len()));
                }
            }
        }
    }
    // clause 2: parse_wmo on the bytes as written
    match guard("parse_wmo", || parse_wmo(&mut Cursor::new(&bytes[..]))) {
        Err(f) => o.fails.push(f),
        Ok(r) => match (r, w.header_len) {
            (Ok(ParsedWmo::Group(n)), Some(68)) => cmp_group_new(&n, c, &w, true, &mut o.fails),
            (Ok(ParsedWmo::Root(_)), _) => push(&mut o.fails, "group-newapi-detected-as-root", "parse_wmo classifies the written group as a root".to_string()),
            (Err(e), Some(68)) => push(&mut o.fails, "group-newapi-parse-error", format!("parse_wmo rejects the written group: {e}")),
            // 36-byte header: whatever comes out is a consequence of the header finding
            _ => o.notes.push("group_raw_parse_skipped_because_of_36_byte_header"),
        },
    }
    // clause 3: see past the header defect
    if let Some(rep) = walk::repair_group(&w) {
        o.notes.push("group_cases_compared_on_header_repaired_bytes");
        match guard("parse_wmo", || parse_wmo(&mut Cursor::new(&rep[..]))) {
            Err(f) => o.fails.push(f),
            Ok(Ok(ParsedWmo::Group(n))) => cmp_group_new(&n, c, &w, false, &mut o.fails),
            Ok(Ok(ParsedWmo::Root(_))) => push(&mut o.fails, "group-newapi-detected-as-root", "repaired group classified as root".to_string()),
            Ok(Err(e)) => push(&mut o.fails, "group-newapi-parse-error", format!("parse_wmo rejects the group even with a 68-byte header: {e}")),
        }
    }
    o
}

// ---------------------------------------------------------------------------------------
// conversion

const SHADOW_BATCH: u32 = 0x100 | 0x200;

pub fn eval_conv_root(c: &RootCase) -> Outcome {
    let to = c.convert_to;
    let (_, nt0) = c.class();
    let mut o = Outcome {
        fails: vec![],
        class: format!("conv-root:{}->{}", VNAMES[c.version as usize], VNAMES[to as usize]),
        nt: nt0 && to != c.version,
        notes: vec![],
    };
    let d = c.derive();
    let mut root = c.build(&d);
    // conversions start from a value that is valid for its own version (a pre-WotLK source holds no skybox)
    root.skybox = d.skybox.clone();
    let target = VERSIONS[to as usize];
    match guard("convert_root", || WmoConverter::new().convert_root(&mut root, target)) {
        Err(f) => {
            o.fails.push(f);
            return o;
        }
        Ok(Err(e)) => {
            push(&mut o.fails, "conv-root-error", format!("convert_root {} -> {}: {e}", VNAMES[c.version as usize], VNAMES[to as usize]));
            return o;
        }
        Ok(Ok(())) => {}
    }
    // the root that holds the same content natively at the target version
    let mut c2 = c.clone();
    c2.version = to;
    if c.version >= V_MOP && to < V_MOP {
        for m in &mut c2.materials {
            m.flags &= !SHADOW_BATCH; // the converter declares these not representable before MoP
        }
    }
    if c.version < V_WOTLK {
        c2.skybox = None; // the source could not hold one
    }
    let d2 = c2.derive();
    let f = &mut o.fails;
    if root.version != target {
        push(f, "conv-root-version-not-updated", format!("version {:?} after conversion to {:?}", root.version, target));
    }
    // in-memory content must be the native content (reuse the round-trip comparator)
    let fake_walk = RootWalk {
        fails: vec![],
        effective: None,
        momt40: false,
        mohd60: false,
        chunks: vec![],
        mogi_offsets_all_zero: false,
    };
    let mut tmp = vec![];
    cmp_root_legacy(&root, &c2, &d2, &fake_walk, false, &mut tmp);
    for x in tmp {
        push(f, format!("conv-{}", x.signature), format!("after convert_root {} -> {}: {}", VNAMES[c.version as usize], VNAMES[to as usize], x.message));
    }
    // and it must serialise to the same bytes as the native root
    let mut native = c2.build(&d2);
    native.skybox = d2.skybox.clone();
    match (write_root_bytes(&root, target), write_root_bytes(&native, target)) {
        (Ok(a), Ok(b)) => {
            if a != b {
                let pos = a.iter().zip(&b).position(|(x, y)| x != y).unwrap_or(a.len().min(b.len()));
                push(f, "conv-root-bytes-differ-from-native-root", format!("{} -> {}: converted root writes {} bytes, native {} bytes, first difference at {pos}", VNAMES[c.version as usize], VNAMES[to as usize], a.len(), b.len()));
            }
        }
        (Err(e), _) | (_, Err(e)) => f.push(e),
    }
    o
}

pub fn eval_conv_group(c: &GroupCase) -> Outcome {
    let to = c.convert_to;
    let (_, nt0) = c.class();
    let mut o = Outcome {
        fails: vec![],
        class: format!("conv-group:{}->{}", VNAMES[c.version as usize], VNAMES[to as usize]),
        nt: nt0 && to != c.version,
        notes: vec![],
    };
    let mut g = c.build();
    let target = VERSIONS[to as usize];
    match guard("convert_group", || WmoConverter::new().convert_group(&mut g, target, VERSIONS[c.version as usize])) {
        Err(f) => {
            o.fails.push(f);
            return o;
        }
        Ok(Err(e)) => {
            push(&mut o.fails, "conv-group-error", format!("convert_group: {e}"));
            return o;
        }
        Ok(Ok(())) => {}
    }
    let mut c2 = c.clone();
    c2.version = to;
    if to != c.version {
        if to < V_CATA {
            c2.flags &= !(0x8000 | 0x4000 | 0x20000); // flags the converter declares unsupported
        }
        if to < V_LEGION {
            c2.flags &= !0x10000;
        }
    }
    if let (Some(l2), Some(lg)) = (c2.liquid.as_mut(), g.liquid.as_ref()) {
        // bit 1 is the converter's own format marker
        l2.flags = (l2.flags & !2) | (lg.flags & 2);
    }
    let f = &mut o.fails;
    let mut tmp = vec![];
    cmp_group_legacy(&g, &c2, &mut tmp);
    for x in tmp {
        push(f, format!("conv-{}", x.signature), format!("after convert_group {} -> {}: {}", VNAMES[c.version as usize], VNAMES[to as usize], x.message));
    }
    if g.doodad_refs.clone().unwrap_or_default() != c.doodad_refs.clone().unwrap_or_default() {
        push(f, "conv-group-doodad-refs-differ", String::new());
    }
    let converted_bytes = write_group_bytes(&g, target);
    match (&converted_bytes, write_group_bytes(&c2.build(), target)) {
        (Ok(a), Ok(b)) => {
            if *a != b {
                push(f, "conv-group-bytes-differ-from-native-group", format!("{} -> {}: {} vs {} bytes", VNAMES[c.version as usize], VNAMES[to as usize], a.len(), b.len()));
            }
        }
        (Err(e), _) => f.push(e.clone()),
        (_, Err(e)) => f.push(e),
    }
    // the editor's way: a root of the source version with this group loaded, converted as a whole — the loaded
    // group must come out as WmoConverter::convert_group leaves it
    if to != c.version {
        let rc = crate::model::grid_root(c.version, 2);
        let mut root = rc.build(&rc.derive());
        root.version = VERSIONS[c.version as usize];
        if !root.groups.is_empty() {
            let mut g0 = c.build();
            g0.header.group_index = 0;
            let mut want = c.build();
            want.header.group_index = 0;
            let want = match WmoConverter::new().convert_group(&mut want, target, VERSIONS[c.version as usize]) {
                Ok(()) => write_group_bytes(&want, target).ok(),
                Err(_) => None,
            };
            let mut ed = wow_wmo::WmoEditor::new(root);
            let r = guard("WmoEditor::add_group+convert_to_version", || -> Result<Option<Vec<u8>>, wow_wmo::WmoError> {
                ed.add_group(g0)?;
                if ed.convert_to_version(target).is_err() {
                    return Ok(None);
                }
                let mut cur = Cursor::new(Vec::new());
                ed.save_group(&mut cur, 0)?;
                Ok(Some(cur.into_inner()))
            });
            match (r, want) {
                (Err(fl), _) => f.push(fl),
                (Ok(Ok(Some(got))), Some(want)) => {
                    o.notes.push("group_converted_through_editor");
                    if got != want {
                        let pos = got.iter().zip(&want).position(|(a, b)| a != b).unwrap_or(got.len().min(want.len()));
                        push(f, "editor-converted-group-differs-from-convert-group", format!("{} -> {}: save_group after WmoEditor::convert_to_version writes {} bytes, convert_group + write_group {} bytes, first difference at byte {pos}", VNAMES[c.version as usize], VNAMES[to as usize], got.len(), want.len()));
                    }
                }
                _ => o.notes.push("group_editor_conversion_not_judged"),
            }
        }
    }
    o
}
